#!/usr/bin/env python3
"""Regenerates /verif/MANIFEST.json from the table below (developer helper, not used by checks)."""
import json, subprocess

BUILT = {
 "C01": ("Deviation-bounded exhaustive exploration of a reference grammar written from IEC 61131-3 Annex B (15 production groups: expression operands and calls, statements, one- and two-level nesting in every statement-list slot, all TYPE forms, VAR blocks of every class x qualifier x 26 initialiser kinds x host POU, several blocks per POU, located / incomplete / access variables, POUs, library shapes, CONFIGURATION / RESOURCE / TASK / program configuration / VAR_CONFIG, SFC): every derivation with at most 1 (thorough: 2) costly deviations from the simplest member of its group, cost-0 choices fully expanded, plus complete tables (all 16x16 operator pairs, same-level and mixed-level triples, every bracketing of 3 and 4 operands, unary placements). Each program is parsed by the real parser; the projection of the returned library is compared node by node with the tree the generator emitted.",
         "Trusts: the reference grammar and precedence table (typed in from Annex B, never derived from the parser), the projection π (erases DSL representation choices only). Derivations with more simultaneous deviations than the bound are not explored.",
         "deviation-bounded exhaustive enumeration of grammar derivations (iterative bounding with 'departure from the default alternative' as the deviation) against an independently generated expected tree"),
 "C05": ("(a) token tiling on every C01 program, END_IF-without-semicolon variants, every base document x 19 trivia members at every gap at once and at each single gap, invalid characters (5 kinds x 3 positions), OSCAT headers with 1-4 byte characters: text == source slice, contiguous ordered spans on character boundaries, line and column of the span start; (b) on every C01 program that parses: every written identifier occurrence is carried by an Id with exactly that span and file id, no user-spelled Id carries a foreign span; (c) every single-token deletion, duplication and neighbour swap of every base document and every 7th (thorough: every) C01 program: all labels of all diagnostics inside the text on character boundaries; labels of planted semantic faults (C02 worlds) inside the faulty declaration on lexeme boundaries.",
         "Trusts: the harness position tables (computed while spelling). Column unit: bytes, chars or UTF-16 accepted if one unit fits every token of a document; white space inside a blanked OSCAT description is exempt from the column comparison.",
         "exhaustive enumeration of source texts (grammar derivations x trivia placements x single-token edits) against independently computed position tables"),
 "C07": ("All digraphs on <=4 nodes (self-loops included; 69,905 graphs) in three realisations (function-block instance graph, all-structure type graph, alias-for-out-degree-1 type graph), both declaration orders for n<=3 (thorough: also n=4), structured families up to 12 nodes, thorough: all digraphs on 5 nodes with <=7 edges; every program is analysed by the real analyzer and compared with an independent cycle detector.",
         "Trusts: harness cycle detector (sink elimination), program realisation of a graph; codes P0010/P0013 = 'reported as recursive'. Graphs on more than 4 nodes only through the listed families.",
         "exhaustive enumeration of all digraphs up to 4 nodes x realisations against a reference cycle detector (bounded exhaustive exploration of inputs on the real code)"),
 "C08": ("Every C01 program (deviation bound 1, 7.5k programs) x respellings, each an operation on the lexeme list: each keyword occurrence x {lower, Capitalised, aLtErNaTiNg}, all keywords at once x 3, each identifier occurrence x case variants, all identifier occurrences in rotating different cases, each non-glued gap x trivia menu of 19 (quick: a rotating third per gap; thorough: all), nothing at the gap where the lexical rules allow it, every gap at once x each member, END_IF with and without ';' — 2.1 M respelled programs in the quick tier. Oracle: parse(respelled) equals parse(canonical) under the repository's PartialEq and under the case-folded projection, and analyze() yields the same codes.",
         "Trusts: the glue marks of the generator (where trivia may be inserted) and the 'may abut' whitelist. Programs whose canonical form does not parse are left to C01.",
         "exhaustive enumeration of single and simultaneous respellings of every grammar derivation, differential oracle against the canonical spelling"),
 "C10": ("Every C01 program the parser accepts (quick deviation bound 1, thorough 2, plus operator tables): L1 = parse(s); r = render(L1); L2 = parse(r); projection(L2) == projection(L1); render(L2) == r. Failures are attributed to the minimal failing derivation of their family. A systematic subset (every 150th, thorough every 40th) goes through `ironplcc echo` twice on the real binary and must reproduce the in-process text.",
         "Trusts: the projection π as the equality that matters (the repository's PartialEq additionally distinguishes an empty body from an empty statement list).",
         "deviation-bounded exhaustive enumeration of grammar derivations through parse-render-parse-render with a fixed-point oracle"),
 "C11": ("Explicit-state BFS to a fixpoint over the real LSP server (in-process, memory connection): state = Debug rendering of every Source the server holds (complete server state), transition = one didOpen/didChange over 2 URIs x 5 texts (valid, lexical error, syntax error, semantic error, depends-on-other-document) sent to a fresh server that replayed the state's shortest history; plus every history up to length 3 (thorough 4) without de-duplication; both file iteration orders through the H2 seam. Oracles on every transition: exactly one publishDiagnostics for the uri with the event's version; diagnostics equal a freshly started server's for the same contents; server-held text equals the reference model's content; published ranges equal an independent conversion of the label offsets; `ironplcc check dir` on the same contents reports the same codes and positions. Spanning-tree histories are replayed over stdio against the real binary.",
         "Trusts: the probe barrier (a semanticTokens request) and the sequential server loop; Debug of Source as complete state; fixed 5-text alphabet. Hash-order nondeterminism is owned through the file-order seam (both orders), the binary must agree with one of them.",
         "explicit-state model checking of the real server (BFS with state de-duplication to a fixpoint + exhaustive bounded histories) with a reference document-store model and trace conformance against the binary"),
 "C12": ("Explicit-state BFS to a fixpoint over the real LSP server on the property's event alphabet (23 events: didOpen/didChange with 0/1/2 changes, semanticTokens for open/unopened/non-file URIs, requests and notifications for unimplemented methods, client responses, malformed params, non-file and unopened URIs), state = complete server state + set of unanswered request kinds; plus every sequence up to length 2 (thorough 3) without de-duplication; every history ends with shutdown + exit. Invariants: server alive after every event (probe barrier, 20 s watchdog), every request answered exactly once with its id, unimplemented methods get an error, no unsolicited response, clean termination. Every single event and every spanning-tree history (thorough: every pair) is replayed over stdio against the real binary, including its exit status.",
         "Trusts: sequential server loop (a request is answered by the time the next request is), lsp-server framing. Messages are well-formed JSON-RPC.",
         "explicit-state model checking of the real server (BFS to a fixpoint + exhaustive bounded sequences) with invariants on every transition and trace conformance against the binary"),
 "C13": ("A catalogue of 30 file sets (valid, interdependent, each semantic rule class, lexical/syntax faults, valid+faulty mixtures, empty file, empty directory, missing path, dangling symlink, sub-directory, foreign extension) x every presentation (file list in every argument order; directory; every split into directory + listed files with the directory first or last) x {check, echo, tokenize} on the real hook-free binary. Oracles: exit 0 <=> OK line <=> no coded diagnostic; non-zero exit => at least one error[Pnnnn] and no OK; the verdict (and, without I/O problems, the code multiset) is the same for every presentation of a set; echo/tokenize exit 0 exactly when every file parses/tokenizes in-process.",
         "Trusts: the stderr parser (ANSI stripped, error[P…] headers and first location block). Runs as root, so permission-denied files cannot be produced; unreadable paths are represented by missing paths, dangling symlinks and sub-directories.",
         "exhaustive enumeration of argument presentations (all orders, all directory/list splits) of a file-set catalogue on the real binary"),
 "C14": ("(1) 12 programs with non-ASCII text in comments, STRING and WSTRING literals (valid, and with a semantic/syntax/lexical fault after the non-ASCII text on the same line and on a later line) x 5 encodings (UTF-8, UTF-8+BOM, UTF-16LE+BOM, UTF-16BE+BOM, Windows-1252) through `ironplcc check` and `tokenize`: verdict, codes and line:column must be identical; (2) every byte value 0x00-0xFF x 4 contexts (comment, string, between tokens, inside an identifier) — 1,024 files, exhaustive — through the binary (no crash, consistent verdict) and in-process through FileBackedProject::push + semantic + tokenize (every label inside the decoded text on character boundaries); (3) all 1-byte files, all 2-byte files (quick: 8 leading bytes x 256; thorough: all 65,536), BOM-prefixed files, in-process and through the binary.",
         "Trusts: the harness encoders; Windows-1252 bytes of the chosen characters are asserted not to be valid UTF-8 (otherwise the intended decoding would be ambiguous).",
         "exhaustive enumeration of byte values x contexts and of short files, plus encoding orbits of a program catalogue, on the real binary and in-process"),
 "C15": ("Every base lexeme program x {canonical, line-broken, every trivia menu member (18: blanks, tabs, LF, CRLF, form feed, 9 comment shapes incl. multi-line, CRLF-inside, non-ASCII/astral) at every gap at once, each member at each single non-glued gap (quick: every third member per gap, rotated; thorough: all), leading/trailing trivia, an invalid character at 3 positions} goes through didOpen + semanticTokens/full on the real server; the data are decoded by the LSP relative rule and compared token by token with the generator's own lexeme table (line, UTF-16 column, UTF-16 length, class -> legend). Token requests after edit histories (text pairs x didChange/didOpen x other document open) must equal a fresh server's. A systematic subset is replayed over stdio against the real binary.",
         "Trusts: the harness lexeme table (positions computed while spelling, never by lexing); literal fragments (T, ms) are not judged; identifiers and comments must be reported, numbers/strings/punctuation must not. UTF-16 columns; LF/CRLF/CR line ends.",
         "exhaustive enumeration of documents (lexeme programs x trivia placements) on the real server against an independent lexeme table; bounded exhaustive histories; trace conformance against the binary"),
}

def main():
    props = [json.loads(l) for l in open('/verif/properties.jsonl')]
    checks = []
    for p in props:
        i = p['id']
        if i in BUILT:
            t = BUILT[i]
            checks.append({
                "property_id": i,
                "quick_cmd": f"./bin/check {i} quick",
                "thorough_cmd": f"./bin/check {i} thorough",
                "evidence_file": f"/verif/evidence/{i}.json",
                "replay_cmd_template": f"./bin/check {i} --replay {{path}}",
                "engine": "vcheck",
                "level_claimed": {"category": "model_checking", "text": t[0], "design_ref": f"DESIGN.md section 5, {i}"},
                "level_note": t[1],
                "technique": t[2],
            })
    commits = subprocess.run(['git', '-C', '/repo', 'log', '--format=%h %s', '9376549..HEAD'], capture_output=True, text=True).stdout.strip().split('\n')
    hook_commits = [c.split()[0] for c in commits if not c.split(' ', 1)[1].startswith('fix:')]
    m = {
        "version": 1,
        "setup_cmd": "./bin/setup",
        "hooks": {
            "guard": "cargo feature `verif` (ironplc-analyzer/verif, ironplcc/verif)",
            "enable": "harness/Cargo.toml names /repo/compiler crates as path dependencies with features=[\"verif\"]; every bin/check run starts with an incremental offline cargo build, so the current /repo working tree is what is checked; the ironplcc binary used for CLI/stdio runs is built without the feature",
            "baseline_off_cmd": "cd /repo/compiler && (cargo nextest run --workspace --no-fail-fast --offline || cargo test --workspace --no-fail-fast --offline)",
            "source_commits": hook_commits,
            "add_only": True,
        },
        "engines": [{"name": "vcheck", "path": "/verif/harness", "serves_properties": sorted(BUILT), "kind_free_text": "Rust harness: deviation-bounded choice-sequence explorer, explicit-state BFS over the real LSP server, exhaustive small-input enumeration; runs the real crates in-process (hooks on) and the real binary (hooks off)"}],
        "checks": checks,
        "not_applicable": [{"property_id": p['id'], "reason": "check not built yet (work in progress; designed in DESIGN.md section 5)"} for p in props if p['id'] not in BUILT],
        "notes": "See DESIGN.md. Known findings are listed in KNOWN_FINDINGS.txt; fix: commits in /repo are listed there as fixed: lines.",
    }
    json.dump(m, open('/verif/MANIFEST.json', 'w'), indent=1)
    print("checks:", [c['property_id'] for c in checks])

main()
