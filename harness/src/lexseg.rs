//! Exhaustive differential oracle for the lexical structure that decides where code ends and
//! commentary or string text begins: every string up to a length bound over the ten characters
//! that take part in it is segmented by a reference scanner written from the token definitions
//! of IEC 61131-3 (and the `//` extension the lexer declares), and compared with the spans of the
//! Comment / string tokens the real lexer returns. Validity is compared too: the text is
//! lexically valid for the reference exactly when the lexer reports no diagnostic.

use crate::front;
use ironplc_parser::token::TokenType;
use rayon::prelude::*;

pub const ALPHABET: [char; 10] = ['(', '*', ')', '\'', '"', '$', '/', '\n', 'a', ' '];

#[derive(Debug, PartialEq, Eq, Clone, Copy)]
pub enum Kind {
    Comment,
    Single,
    Double,
}

/// Reference segmentation: Ok(list of (kind, start, end)) or Err(()) when the text is not lexically valid.
pub fn reference(s: &[u8]) -> Result<Vec<(Kind, usize, usize)>, ()> {
    let n = s.len();
    let mut out = vec![];
    let mut i = 0;
    while i < n {
        if s[i] == b'(' && i + 1 < n && s[i + 1] == b'*' {
            // the comment ends at the first "*)" that starts after the opening "(*"
            let mut j = i + 2;
            let mut end = None;
            while j + 1 < n {
                if s[j] == b'*' && s[j + 1] == b')' {
                    end = Some(j + 2);
                    break;
                }
                j += 1;
            }
            match end {
                Some(e) => {
                    out.push((Kind::Comment, i, e));
                    i = e;
                }
                None => return Err(()),
            }
        } else if s[i] == b'/' && i + 1 < n && s[i + 1] == b'/' {
            let mut j = i + 2;
            while j < n && s[j] != b'\n' && s[j] != b'\r' {
                j += 1;
            }
            if j < n && s[j] == b'\n' {
                j += 1;
            } else if j + 1 < n && s[j] == b'\r' && s[j + 1] == b'\n' {
                j += 2;
            }
            out.push((Kind::Comment, i, j));
            i = j;
        } else if s[i] == b'\'' || s[i] == b'"' {
            let q = s[i];
            let mut k = i + 1;
            loop {
                if k >= n {
                    return Err(());
                }
                if s[k] == q {
                    k += 1;
                    break;
                }
                if s[k] == b'$' {
                    if k + 1 >= n || s[k + 1] == b'\n' || s[k + 1] == b'\r' {
                        return Err(());
                    }
                    k += 2;
                } else {
                    k += 1;
                }
            }
            out.push((if q == b'\'' { Kind::Single } else { Kind::Double }, i, k));
            i = k;
        } else if s[i] == b'$' {
            return Err(());
        } else {
            i += 1;
        }
    }
    Ok(out)
}

/// What the real lexer says: Ok(segments) when it reports no diagnostic, Err(()) otherwise; None on a panic.
pub fn observed(text: &str) -> Option<Result<Vec<(Kind, usize, usize)>, ()>> {
    let r = crate::util::catch(|| front::tokenize(text, "/w/seg.st"));
    match r {
        Err(_) => None,
        Ok((toks, diags)) => {
            if !diags.is_empty() {
                return Some(Err(()));
            }
            let mut out = vec![];
            for t in toks {
                let k = match t.token_type {
                    TokenType::Comment => Kind::Comment,
                    TokenType::SingleByteString => Kind::Single,
                    TokenType::DoubleByteString => Kind::Double,
                    _ => continue,
                };
                out.push((k, t.span.start, t.span.end));
            }
            Some(Ok(out))
        }
    }
}

pub struct Disagreement {
    pub text: String,
    pub class: &'static str,
    pub what: String,
}

/// All strings over the alphabet up to `max_len`; returns (number of texts, number lexically valid, disagreements).
pub fn sweep(max_len: usize) -> (u64, u64, Vec<Disagreement>) {
    let k = ALPHABET.len();
    let mut total = 0u64;
    let mut valid = 0u64;
    let mut bad = vec![];
    for len in 0..=max_len {
        let count = k.pow(len as u32);
        let res: Vec<(bool, Option<Disagreement>)> = (0..count)
            .into_par_iter()
            .map(|mut idx| {
                let mut bytes = Vec::with_capacity(len);
                for _ in 0..len {
                    bytes.push(ALPHABET[idx % k] as u8);
                    idx /= k;
                }
                let text = String::from_utf8(bytes.clone()).unwrap();
                let exp = reference(&bytes);
                let got = observed(&text);
                let d = match (&exp, &got) {
                    (_, None) => Some(("lexer-panicked", "the lexer panicked".to_string())),
                    (Ok(e), Some(Ok(g))) if e == g => None,
                    (Ok(e), Some(Ok(g))) => Some(("comment-or-string-boundaries-differ", format!("expected {:?}, the lexer returns {:?}", e, g))),
                    (Ok(e), Some(Err(()))) => Some(("valid-text-rejected", format!("the text is lexically valid (segments {:?}) but the lexer reports an error", e))),
                    (Err(()), Some(Ok(g))) => Some(("invalid-text-accepted", format!("the text has an unclosed comment or string or a stray `$`, but the lexer accepts it with segments {:?}", g))),
                    (Err(()), Some(Err(()))) => None,
                };
                (exp.is_ok(), d.map(|(class, what)| Disagreement { text, class, what }))
            })
            .collect();
        for (ok, d) in res {
            total += 1;
            if ok {
                valid += 1;
            }
            if let Some(d) = d {
                bad.push(d);
            }
        }
    }
    (total, valid, bad)
}

/// Records the sweep under the calling check's keys.
pub fn run_into(ctx: &mut crate::report::Ctx, max_len: usize) {
    let (total, valid, bad) = sweep(max_len);
    ctx.evaluations += total;
    ctx.transitions += total;
    ctx.outcome_n("lexical structure: lexer agrees with the reference segmentation", total - bad.len() as u64);
    ctx.bounds.insert("lexical_structure_sweep".into(), serde_json::json!(format!("all {} strings up to length {} over {:?} ({} lexically valid)", total, max_len, ALPHABET, valid)));
    // shortest witnesses first: one key per class and shape of the shortest witness
    let mut bad = bad;
    bad.sort_by_key(|d| (d.text.len(), d.text.clone()));
    for d in bad.iter().take(2000) {
        ctx.fail(&format!("lexical-structure/{}", d.class), &format!("{:?}: {}", d.text, d.what), serde_json::json!({"mode":"lexical-structure","text": d.text}));
    }
}

pub fn replay(text: &str) -> Result<String, String> {
    let exp = reference(text.as_bytes());
    match observed(text) {
        None => Err("the lexer panicked".into()),
        Some(g) if g == exp => Ok(format!("agrees: {:?}", g)),
        Some(g) => Err(format!("expected {:?}, observed {:?}", exp, g)),
    }
}
