//! Exhaustive differential oracle for the OSCAT description blanking of the preprocessor: every
//! sequence up to a length bound over {begin marker, end marker, description words, a valid
//! declaration, a faulty declaration, a line break} is given to the real front end twice — as
//! written, and after a reference implementation of the blanking (the text between the first
//! begin marker and the first end marker, when the begin marker comes first, becomes blanks; line
//! breaks stay) in which every marker is respelled as an ordinary comment of the same length, so
//! that the real preprocessor has nothing left to do. Both texts have the same length and the same
//! line structure, so tokens (type, span), verdict, codes and label positions must be identical.

use crate::front;
use rayon::prelude::*;

const BEGIN: &str = "(*@KEY@:DESCRIPTION*)";
const END: &str = "(*@KEY@:END_DESCRIPTION*)";

/// (name, text); the declarations are numbered by position so that names never collide
fn piece(kind: usize, pos: usize) -> String {
    match kind {
        0 => format!(" {} ", BEGIN),
        1 => format!(" {} ", END),
        2 => " any words, even ? and ' here ".to_string(),
        3 => format!(" TYPE T{} : INT ( 1 .. 9 ) ; END_TYPE ", pos),
        4 => format!(" TYPE B{} : INT ( 9 .. 1 ) ; END_TYPE ", pos),
        _ => "\n".to_string(),
    }
}

pub const KINDS: [&str; 6] = ["begin-marker", "end-marker", "description-words", "valid-declaration", "faulty-declaration", "line-break"];

/// Reference blanking followed by the respelling of every marker as an ordinary comment.
pub fn reference(text: &str) -> String {
    let mut out = text.to_string();
    if let (Some(b), Some(e)) = (text.find(BEGIN), text.find(END)) {
        if b < e {
            let from = b + BEGIN.len();
            let blanked: String = text[from..e].chars().map(|c| if c == '\n' { "\n".to_string() } else { " ".repeat(c.len_utf8()) }).collect();
            out = format!("{}{}{}", &text[..from], blanked, &text[e..]);
        }
    }
    // same length: the `@` characters become blanks, which leaves an ordinary comment
    out.replace(BEGIN, "(* KEY :DESCRIPTION*)").replace(END, "(* KEY :END_DESCRIPTION*)")
}

fn observe(text: &str) -> String {
    let (toks, tds) = front::tokenize(text, "/w/oscat.st");
    let tokens: Vec<String> = toks.iter().map(|t| format!("{:?}@{}..{}", t.token_type, t.span.start, t.span.end)).collect();
    let (v, ds) = front::check_texts(&[text]);
    let mut labels: Vec<String> = ds.iter().map(|d| format!("{}@{}..{}", d.code, d.primary.location.start, d.primary.location.end)).collect();
    labels.sort();
    format!("tokens {:?} lexical-diagnostics {} verdict {} labels {:?}", tokens, tds.len(), v.short(), labels)
}

pub struct Disagreement {
    pub kinds: Vec<usize>,
    pub text: String,
    pub what: String,
    pub class: &'static str,
}

pub fn sweep(max_len: usize) -> (u64, u64, Vec<Disagreement>) {
    let k = KINDS.len();
    let mut total = 0u64;
    let mut with_block = 0u64;
    let mut bad = vec![];
    for len in 1..=max_len {
        let count = k.pow(len as u32);
        let res: Vec<(bool, Option<Disagreement>)> = (0..count)
            .into_par_iter()
            .map(|mut idx| {
                let mut kinds = Vec::with_capacity(len);
                for _ in 0..len {
                    kinds.push(idx % k);
                    idx /= k;
                }
                // only sequences with a marker say anything about the preprocessor
                if !kinds.iter().any(|x| *x <= 1) {
                    return (false, None);
                }
                let text: String = kinds.iter().enumerate().map(|(p, kd)| piece(*kd, p)).collect();
                let refd = reference(&text);
                let blanks = refd != text.replace(BEGIN, "(* KEY :DESCRIPTION*)").replace(END, "(* KEY :END_DESCRIPTION*)");
                let a = crate::util::catch(|| observe(&text));
                let b = crate::util::catch(|| observe(&refd));
                let d = match (a, b) {
                    (Err(p), _) => Some(("panicked", format!("the front end panicked at {}", p.loc))),
                    (_, Err(_)) => None,
                    (Ok(x), Ok(y)) if x == y => None,
                    (Ok(x), Ok(y)) => {
                        let class = if x.contains("verdict OK") && !y.contains("verdict OK") {
                            "fault-hidden"
                        } else if !x.contains("verdict OK") && y.contains("verdict OK") {
                            "description-read-as-code"
                        } else {
                            "tokens-or-positions-differ"
                        };
                        Some((class, format!("as written: {} ;; after the reference blanking: {}", crate::util::short(&x, 300), crate::util::short(&y, 300))))
                    }
                };
                (blanks, d.map(|(class, what)| Disagreement { kinds, text, what, class }))
            })
            .collect();
        for (blanks, d) in res {
            total += 1;
            if blanks {
                with_block += 1;
            }
            if let Some(d) = d {
                bad.push(d);
            }
        }
    }
    (total, with_block, bad)
}

pub fn run_into(ctx: &mut crate::report::Ctx, max_len: usize) {
    let (total, with_block, bad) = sweep(max_len);
    ctx.evaluations += total;
    ctx.transitions += 2 * total;
    ctx.outcome_n("description blocks: same tokens, verdict and positions as after the reference blanking", total - bad.len() as u64);
    ctx.bounds.insert("description_block_sweep".into(), serde_json::json!(format!("all {} sequences up to length {} over {:?} ({} of them blank something)", total, max_len, KINDS, with_block)));
    let mut bad = bad;
    bad.sort_by_key(|d| (d.kinds.len(), d.kinds.clone()));
    for d in bad.iter().take(2000) {
        let shape: Vec<&str> = d.kinds.iter().filter(|k| **k <= 1).map(|k| if *k == 0 { "B" } else { "E" }).collect();
        ctx.fail(&format!("description-blocks/{}/markers={}", d.class, shape.join("")), &format!("{:?}: {}", d.kinds.iter().map(|k| KINDS[*k]).collect::<Vec<_>>(), d.what), serde_json::json!({"mode":"description-blocks","text": d.text}));
    }
}

pub fn replay(text: &str) -> Result<String, String> {
    let a = observe(text);
    let b = observe(&reference(text));
    if a == b {
        Ok("same tokens, verdict and positions as after the reference blanking".into())
    } else {
        Err(format!("as written: {} ;; after the reference blanking: {}", a, b))
    }
}
