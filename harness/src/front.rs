//! Thin wrappers over the public API of the crates under test.

use crate::util::{catch, Panicked};
use ironplc_analyzer::stages::analyze;
use ironplc_dsl::common::Library;
use ironplc_dsl::core::FileId;
use ironplc_dsl::diagnostic::Diagnostic;
use ironplc_parser::options::ParseOptions;
use ironplc_parser::token::Token;
use ironplc_parser::{parse_program, tokenize_program};
use std::collections::BTreeSet;

pub fn fid(name: &str) -> FileId {
    FileId::from_string(name)
}

pub fn parse(text: &str, file: &str) -> Result<Library, Diagnostic> {
    let _w = crate::util::watch::enter(text);
    parse_program(text, &fid(file), &ParseOptions::default())
}

pub fn parse_allowing_c_style_comments(text: &str, file: &str) -> Result<Library, Diagnostic> {
    let _w = crate::util::watch::enter(text);
    parse_program(text, &fid(file), &ParseOptions { allow_c_style_comments: true })
}

pub fn tokenize(text: &str, file: &str) -> (Vec<Token>, Vec<Diagnostic>) {
    let _w = crate::util::watch::enter(text);
    tokenize_program(text, &fid(file), &ParseOptions::default())
}

/// Result of parse + analyze of a set of texts, as codes.
#[derive(Debug, Clone, PartialEq, Eq, PartialOrd, Ord)]
pub enum Verdict {
    Ok,
    /// the codes of all diagnostics, sorted (multiset)
    Err(Vec<String>),
    Panic(String),
}

impl Verdict {
    pub fn codes(&self) -> BTreeSet<String> {
        match self {
            Verdict::Err(c) => c.iter().cloned().collect(),
            _ => BTreeSet::new(),
        }
    }
    pub fn is_ok(&self) -> bool {
        matches!(self, Verdict::Ok)
    }
    pub fn short(&self) -> String {
        match self {
            Verdict::Ok => "OK".into(),
            Verdict::Err(c) => {
                let s: BTreeSet<&String> = c.iter().collect();
                s.into_iter().cloned().collect::<Vec<_>>().join("+")
            }
            Verdict::Panic(l) => format!("PANIC@{}", l),
        }
    }
}

/// Parses each text (file names f0.st, f1.st, ...) and analyzes the set, like
/// `FileBackedProject::semantic` is specified to do, but directly on the library API:
/// any parse error makes the verdict Err with that code.
pub fn check_texts(texts: &[&str]) -> (Verdict, Vec<Diagnostic>) {
    let _w = crate::util::watch::enter(&texts.join("\n(* next file *)\n"));
    let r: Result<(Verdict, Vec<Diagnostic>), Panicked> = catch(|| {
        let mut libs = vec![];
        let mut diags = vec![];
        for (i, t) in texts.iter().enumerate() {
            match parse(t, &format!("f{}.st", i)) {
                Ok(l) => libs.push(l),
                Err(d) => diags.push(d),
            }
        }
        if !diags.is_empty() {
            let mut codes: Vec<String> = diags.iter().map(|d| d.code.clone()).collect();
            codes.sort();
            return (Verdict::Err(codes), diags);
        }
        let refs: Vec<&Library> = libs.iter().collect();
        match analyze(&refs) {
            Ok(()) => (Verdict::Ok, vec![]),
            Err(ds) => {
                let mut codes: Vec<String> = ds.iter().map(|d| d.code.clone()).collect();
                codes.sort();
                (Verdict::Err(codes), ds)
            }
        }
    });
    match r {
        Ok(v) => v,
        Err(p) => (Verdict::Panic(p.loc), vec![]),
    }
}

pub fn analyze_libs(libs: &[&Library]) -> (Verdict, Vec<Diagnostic>) {
    let _w = crate::util::watch::enter("<analysis of already parsed libraries; see the enclosing case>");
    match catch(|| analyze(libs)) {
        Ok(Ok(())) => (Verdict::Ok, vec![]),
        Ok(Err(ds)) => {
            let mut codes: Vec<String> = ds.iter().map(|d| d.code.clone()).collect();
            codes.sort();
            (Verdict::Err(codes), ds)
        }
        Err(p) => (Verdict::Panic(p.loc), vec![]),
    }
}
