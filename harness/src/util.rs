//! Small shared helpers: panic capture, hashing, scratch directories.

use std::cell::RefCell;
use std::panic::{catch_unwind, AssertUnwindSafe};
use std::path::PathBuf;
use std::sync::Once;

thread_local! {
    static LAST_PANIC: RefCell<Option<(String, String)>> = const { RefCell::new(None) };
}

static HOOK: Once = Once::new();

/// Installs a silent panic hook that records message and location per thread.
pub fn install_panic_hook() {
    HOOK.call_once(|| {
        std::panic::set_hook(Box::new(|info| {
            let loc = info
                .location()
                .map(|l| {
                    let f = l.file();
                    // keep the path stable across machines: strip everything before the crate dir
                    let f = f.rsplit_once("/compiler/").map(|x| x.1).unwrap_or(f);
                    let f = match f.find("/registry/src/") {
                        Some(i) => {
                            let rest = &f[i + "/registry/src/".len()..];
                            rest.split_once('/').map(|x| x.1).unwrap_or(rest)
                        }
                        None => f,
                    };
                    format!("{}:{}", f, l.line())
                })
                .unwrap_or_else(|| "?".into());
            let msg = if let Some(s) = info.payload().downcast_ref::<&str>() {
                s.to_string()
            } else if let Some(s) = info.payload().downcast_ref::<String>() {
                s.clone()
            } else {
                "<non-string panic>".into()
            };
            LAST_PANIC.with(|p| *p.borrow_mut() = Some((msg, loc)));
        }));
    });
}

#[derive(Debug, Clone)]
pub struct Panicked {
    pub msg: String,
    pub loc: String,
}

/// Runs `f`, turning a panic into `Err` with message and source location.
pub fn catch<T>(f: impl FnOnce() -> T) -> Result<T, Panicked> {
    install_panic_hook();
    LAST_PANIC.with(|p| *p.borrow_mut() = None);
    match catch_unwind(AssertUnwindSafe(f)) {
        Ok(v) => Ok(v),
        Err(_) => {
            let (msg, loc) = LAST_PANIC
                .with(|p| p.borrow_mut().take())
                .unwrap_or_else(|| ("?".into(), "?".into()));
            Err(Panicked { msg, loc })
        }
    }
}

/// FNV-1a, stable across runs (unlike the std hasher).
pub fn fnv(s: &str) -> u64 {
    let mut h: u64 = 0xcbf29ce484222325;
    for b in s.as_bytes() {
        h ^= *b as u64;
        h = h.wrapping_mul(0x100000001b3);
    }
    h
}

pub fn hex_hash(s: &str) -> String {
    format!("{:016x}", fnv(s))
}

/// A scratch directory outside /repo and /verif, removed on drop.
pub struct Scratch {
    pub path: PathBuf,
}

impl Scratch {
    pub fn new(tag: &str) -> Scratch {
        let base = std::env::var("VERIF_SCRATCH").unwrap_or_else(|_| "/tmp".into());
        static CTR: std::sync::atomic::AtomicU64 = std::sync::atomic::AtomicU64::new(0);
        let n = CTR.fetch_add(1, std::sync::atomic::Ordering::Relaxed);
        let path = PathBuf::from(base).join(format!(
            "vcheck-{}-{}-{}",
            tag,
            std::process::id(),
            n
        ));
        let _ = std::fs::remove_dir_all(&path);
        std::fs::create_dir_all(&path).expect("scratch dir");
        Scratch { path }
    }
    pub fn sub(&self, name: &str) -> PathBuf {
        let p = self.path.join(name);
        std::fs::create_dir_all(&p).expect("scratch sub dir");
        p
    }
}

impl Drop for Scratch {
    fn drop(&mut self) {
        let _ = std::fs::remove_dir_all(&self.path);
    }
}

pub fn short(s: &str, n: usize) -> String {
    let mut out: String = s.chars().take(n).collect();
    if s.chars().count() > n {
        out.push('…');
    }
    out.replace('\n', "\\n").replace('\r', "\\r")
}
