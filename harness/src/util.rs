//! Small shared helpers: panic capture, hashing, scratch directories.

use std::cell::RefCell;
use std::panic::{catch_unwind, AssertUnwindSafe};
use std::path::PathBuf;
use std::sync::Once;

thread_local! {
    static LAST_PANIC: RefCell<Option<(String, String)>> = const { RefCell::new(None) };
}

static HOOK: Once = Once::new();

/// Installs a silent panic hook that records message and location per thread.
pub fn install_panic_hook() {
    HOOK.call_once(|| {
        std::panic::set_hook(Box::new(|info| {
            let loc = info
                .location()
                .map(|l| {
                    let f = l.file();
                    // keep the path stable across machines: strip everything before the crate dir
                    let f = f.rsplit_once("/compiler/").map(|x| x.1).unwrap_or(f);
                    let f = match f.find("/registry/src/") {
                        Some(i) => {
                            let rest = &f[i + "/registry/src/".len()..];
                            rest.split_once('/').map(|x| x.1).unwrap_or(rest)
                        }
                        None => f,
                    };
                    format!("{}:{}", f, l.line())
                })
                .unwrap_or_else(|| "?".into());
            let msg = if let Some(s) = info.payload().downcast_ref::<&str>() {
                s.to_string()
            } else if let Some(s) = info.payload().downcast_ref::<String>() {
                s.clone()
            } else {
                "<non-string panic>".into()
            };
            LAST_PANIC.with(|p| *p.borrow_mut() = Some((msg, loc)));
        }));
    });
}

#[derive(Debug, Clone)]
pub struct Panicked {
    pub msg: String,
    pub loc: String,
}

/// Runs `f`, turning a panic into `Err` with message and source location.
pub fn catch<T>(f: impl FnOnce() -> T) -> Result<T, Panicked> {
    install_panic_hook();
    LAST_PANIC.with(|p| *p.borrow_mut() = None);
    match catch_unwind(AssertUnwindSafe(f)) {
        Ok(v) => Ok(v),
        Err(_) => {
            let (msg, loc) = LAST_PANIC
                .with(|p| p.borrow_mut().take())
                .unwrap_or_else(|| ("?".into(), "?".into()));
            Err(Panicked { msg, loc })
        }
    }
}

/// FNV-1a, stable across runs (unlike the std hasher).
pub fn fnv(s: &str) -> u64 {
    let mut h: u64 = 0xcbf29ce484222325;
    for b in s.as_bytes() {
        h ^= *b as u64;
        h = h.wrapping_mul(0x100000001b3);
    }
    h
}

pub fn hex_hash(s: &str) -> String {
    format!("{:016x}", fnv(s))
}

/// A scratch directory outside /repo and /verif, removed on drop.
pub struct Scratch {
    pub path: PathBuf,
}

impl Scratch {
    pub fn new(tag: &str) -> Scratch {
        let base = std::env::var("VERIF_SCRATCH").unwrap_or_else(|_| "/tmp".into());
        static CTR: std::sync::atomic::AtomicU64 = std::sync::atomic::AtomicU64::new(0);
        let n = CTR.fetch_add(1, std::sync::atomic::Ordering::Relaxed);
        let path = PathBuf::from(base).join(format!(
            "vcheck-{}-{}-{}",
            tag,
            std::process::id(),
            n
        ));
        let _ = std::fs::remove_dir_all(&path);
        std::fs::create_dir_all(&path).expect("scratch dir");
        Scratch { path }
    }
    pub fn sub(&self, name: &str) -> PathBuf {
        let p = self.path.join(name);
        std::fs::create_dir_all(&p).expect("scratch sub dir");
        p
    }
}

impl Drop for Scratch {
    fn drop(&mut self) {
        let _ = std::fs::remove_dir_all(&self.path);
    }
}

pub fn short(s: &str, n: usize) -> String {
    let mut out: String = s.chars().take(n).collect();
    if s.chars().count() > n {
        out.push('…');
    }
    out.replace('\n', "\\n").replace('\r', "\\r")
}

/// Watchdog over calls into the code under test. A call that does not return is a finding (the property
/// of C04, and for every other check an input on which the implementation does not answer): the check
/// must report it and stop instead of waiting for ever. Threads cannot be killed, so the process reports
/// the input of the stuck call as a violation, writes a replay file and a minimal evidence file, and exits 1.
pub mod watch {
    use std::cell::Cell;
    use std::collections::HashMap;
    use std::sync::atomic::{AtomicU64, Ordering};
    use std::sync::{Mutex, OnceLock};
    use std::thread::ThreadId;
    use std::time::{Duration, Instant};

    pub static ENTERED: AtomicU64 = AtomicU64::new(0);
    static SLOTS: OnceLock<Mutex<HashMap<ThreadId, (Instant, String)>>> = OnceLock::new();
    thread_local! {
        static DEPTH: Cell<u32> = const { Cell::new(0) };
    }

    fn slots() -> &'static Mutex<HashMap<ThreadId, (Instant, String)>> {
        SLOTS.get_or_init(|| Mutex::new(HashMap::new()))
    }

    pub struct Guard;

    impl Drop for Guard {
        fn drop(&mut self) {
            let d = DEPTH.with(|c| {
                c.set(c.get() - 1);
                c.get()
            });
            if d == 0 {
                if let Ok(mut m) = slots().lock() {
                    m.remove(&std::thread::current().id());
                }
            }
        }
    }

    /// Marks the calling thread as being inside the code under test with this input (outermost call only).
    pub fn enter(text: &str) -> Guard {
        let d = DEPTH.with(|c| {
            c.set(c.get() + 1);
            c.get()
        });
        if d == 1 {
            ENTERED.fetch_add(1, Ordering::Relaxed);
            let keep: String = if text.len() > 6000 { text.chars().take(6000).collect() } else { text.to_string() };
            if let Ok(mut m) = slots().lock() {
                m.insert(std::thread::current().id(), (Instant::now(), keep));
            }
        }
        Guard
    }

    /// Starts the watchdog thread of a check run.
    pub fn start(prop: String, tier: &'static str, limit: Duration) {
        std::thread::spawn(move || loop {
            std::thread::sleep(Duration::from_millis(500));
            let stuck: Option<(f64, String)> = slots().lock().ok().and_then(|m| m.values().filter(|(t, _)| t.elapsed() > limit).map(|(t, s)| (t.elapsed().as_secs_f64(), s.clone())).next());
            if let Some((secs, text)) = stuck {
                let root = crate::report::verif_root();
                let dir = root.join("replays").join(&prop);
                let _ = std::fs::create_dir_all(&dir);
                let path = dir.join(format!("hang-{}.json", super::hex_hash(&text)));
                let what = format!("a call into the implementation has not returned after {:.0} s on the input {:?}", secs, super::short(&text, 300));
                let body = serde_json::json!({"property": prop, "key": "no-answer/call-does-not-return", "what": what, "case": {"mode": "hang", "text": text}});
                let _ = std::fs::write(&path, serde_json::to_string_pretty(&body).unwrap());
                let ev = serde_json::json!({
                    "property_id": prop, "tier": tier, "seed": 1, "level": "model_checking",
                    "coverage": {"states": 1, "transitions": 1, "traces_validated_against_impl": 0, "evaluations": ENTERED.load(Ordering::Relaxed), "distinct_nontrivial": 0,
                        "rule": "run stopped by the watchdog: a call into the implementation did not return; the counts are the calls entered until then", "exhaustive": false, "samples": [text]},
                    "wall_s": secs, "violations": 1
                });
                let _ = std::fs::create_dir_all(root.join("evidence"));
                let _ = std::fs::write(root.join("evidence").join(format!("{}.json", prop)), serde_json::to_string_pretty(&ev).unwrap());
                println!("VIOLATION property={} replay={} key=no-answer/call-does-not-return cases=1 :: {}", prop, path.display(), what);
                std::process::exit(1);
            }
        });
    }
}
