//! Expressions: the precedence table typed in from IEC 61131-3 Annex B.3.1
//! (OR < XOR < AND,& < =,<> < <,>,<=,>= < +,- < *,/,MOD < ** < unary), left-associative.

use super::*;

#[derive(Clone, Copy, Debug)]
pub struct Op {
    pub text: &'static str,
    pub nt: &'static str,
    pub level: u8,
}

pub const OPS: [Op; 16] = [
    Op { text: "OR", nt: "OR", level: 1 },
    Op { text: "XOR", nt: "XOR", level: 2 },
    Op { text: "AND", nt: "AND", level: 3 },
    Op { text: "&", nt: "AND", level: 3 },
    Op { text: "=", nt: "EQ", level: 4 },
    Op { text: "<>", nt: "NE", level: 4 },
    Op { text: "<", nt: "LT", level: 5 },
    Op { text: ">", nt: "GT", level: 5 },
    Op { text: "<=", nt: "LTEQ", level: 5 },
    Op { text: ">=", nt: "GTEQ", level: 5 },
    Op { text: "+", nt: "ADD", level: 6 },
    Op { text: "-", nt: "SUB", level: 6 },
    Op { text: "*", nt: "MUL", level: 7 },
    Op { text: "/", nt: "DIV", level: 7 },
    Op { text: "MOD", nt: "MOD", level: 7 },
    Op { text: "**", nt: "POW", level: 8 },
];

pub fn bin(op: &Op, l_: NT, r: NT) -> NT {
    n("Bin", vec![("op", s(op.nt)), ("l", l_), ("r", r)])
}
pub fn un(op: &str, e: NT) -> NT {
    n("Un", vec![("op", s(op)), ("e", e)])
}

/// Reference parse of a flat operand/operator sequence by precedence climbing.
pub fn climb(operands: &[NT], ops: &[&Op]) -> NT {
    fn rec(operands: &[NT], ops: &[&Op], pos: &mut usize, min_level: u8) -> NT {
        let mut lhs = operands[*pos].clone();
        while *pos < ops.len() && ops[*pos].level >= min_level {
            let op = ops[*pos];
            *pos += 1;
            // left-associative: the right operand takes only strictly tighter operators
            let rhs = rec(operands, ops, pos, op.level + 1);
            lhs = bin(op, lhs, rhs);
        }
        lhs
    }
    let mut pos = 0;
    rec(operands, ops, &mut pos, 0)
}

fn op_lex(lx: &mut Lx, op: &Op) {
    if op.text.chars().next().unwrap().is_ascii_alphabetic() {
        lx.kw(op.text);
    } else {
        lx.op(op.text);
    }
}

thread_local! {
    /// expressions of the table families, kept to be written again in every other place an expression can stand
    static PLACED: std::cell::RefCell<Vec<(&'static str, String, Lx, NT)>> = std::cell::RefCell::new(vec![]);
}

fn stmt_case(group: &'static str, label: String, e_lx: Lx, e_nt: NT) -> Case {
    if matches!(group, "expr.pair" | "expr.unary" | "expr.unary-group") {
        PLACED.with(|p| p.borrow_mut().push((group, label.clone(), e_lx.clone(), e_nt.clone())));
    }
    let mut body = Lx::new();
    body.id("a").op(":=");
    body.extend(&e_lx);
    body.p(";");
    let (lx, nt) = host_fb(&body, vec![assign(ref_("a"), e_nt)]);
    Case { group, labels: vec![label], lx, nt }
}

const NAMES: [&str; 4] = ["a", "b", "c", "d"];

/// Table-driven families: all operator pairs, same-level triples, parenthesisations, unary placements.
pub fn tables() -> Vec<Case> {
    let mut out = vec![];
    // all 16 x 16 ordered pairs: a op1 b op2 c
    for o1 in OPS.iter() {
        for o2 in OPS.iter() {
            let mut lx = Lx::new();
            lx.id("a");
            op_lex(&mut lx, o1);
            lx.id("b");
            op_lex(&mut lx, o2);
            lx.id("c");
            let nt = climb(&[ref_("a"), ref_("b"), ref_("c")], &[o1, o2]);
            out.push(stmt_case("expr.pair", format!("{}·{}", o1.text, o2.text), lx, nt));
        }
    }
    // same-level triples: a op1 b op2 c op3 d with all three operators from one level
    for level in 1..=8u8 {
        let ops: Vec<&Op> = OPS.iter().filter(|o| o.level == level).collect();
        for o1 in &ops {
            for o2 in &ops {
                for o3 in &ops {
                    let mut lx = Lx::new();
                    lx.id("a");
                    op_lex(&mut lx, o1);
                    lx.id("b");
                    op_lex(&mut lx, o2);
                    lx.id("c");
                    op_lex(&mut lx, o3);
                    lx.id("d");
                    let nt = climb(&[ref_("a"), ref_("b"), ref_("c"), ref_("d")], &[o1, o2, o3]);
                    out.push(stmt_case("expr.triple", format!("{}·{}·{}", o1.text, o2.text, o3.text), lx, nt));
                }
            }
        }
    }
    // mixed-level triples over one representative per level
    let reps: Vec<&Op> = [0usize, 1, 2, 4, 6, 10, 12, 15].iter().map(|i| &OPS[*i]).collect();
    for o1 in &reps {
        for o2 in &reps {
            for o3 in &reps {
                if o1.level == o2.level && o2.level == o3.level {
                    continue;
                }
                let mut lx = Lx::new();
                lx.id("a");
                op_lex(&mut lx, o1);
                lx.id("b");
                op_lex(&mut lx, o2);
                lx.id("c");
                op_lex(&mut lx, o3);
                lx.id("d");
                let nt = climb(&[ref_("a"), ref_("b"), ref_("c"), ref_("d")], &[o1, o2, o3]);
                out.push(stmt_case("expr.triple-mixed", format!("{}·{}·{}", o1.text, o2.text, o3.text), lx, nt));
            }
        }
    }
    // parenthesisations: every binary bracketing of 3 and 4 operands, operators from a 4-operator menu
    let menu: Vec<&Op> = [0usize, 4, 10, 12, 15].iter().map(|i| &OPS[*i]).collect();
    // shapes as nested tuples encoded by a small enum
    #[derive(Clone)]
    enum Sh {
        Leaf(usize),
        Node(Box<Sh>, usize, Box<Sh>), // left, operator index, right
    }
    fn shapes(lo: usize, hi: usize) -> Vec<Sh> {
        // all binary trees over leaves lo..=hi, operator k sits between leaf k and k+1
        if lo == hi {
            return vec![Sh::Leaf(lo)];
        }
        let mut v = vec![];
        for k in lo..hi {
            for l_ in shapes(lo, k) {
                for r in shapes(k + 1, hi) {
                    v.push(Sh::Node(Box::new(l_.clone()), k, Box::new(r)));
                }
            }
        }
        v
    }
    fn emit(sh: &Sh, ops: &[&Op], lx: &mut Lx, top: bool) -> NT {
        match sh {
            Sh::Leaf(i) => {
                lx.id(NAMES[*i]);
                ref_(NAMES[*i])
            }
            Sh::Node(l_, k, r) => {
                if !top {
                    lx.p("(");
                }
                let a = emit(l_, ops, lx, false);
                op_lex(lx, ops[*k]);
                let b = emit(r, ops, lx, false);
                if !top {
                    lx.p(")");
                }
                bin(ops[*k], a, b)
            }
        }
    }
    fn describe(sh: &Sh) -> String {
        match sh {
            Sh::Leaf(i) => NAMES[*i].to_string(),
            Sh::Node(l_, _, r) => format!("({}{})", describe(l_), describe(r)),
        }
    }
    for sh in shapes(0, 2) {
        for o1 in &menu {
            for o2 in &menu {
                let mut lx = Lx::new();
                let nt = emit(&sh, &[o1, o2], &mut lx, true);
                out.push(stmt_case("expr.paren", format!("{}:{}·{}", describe(&sh), o1.text, o2.text), lx, nt));
            }
        }
    }
    for sh in shapes(0, 3) {
        for o1 in &menu {
            for o2 in &menu {
                for o3 in &menu {
                    let mut lx = Lx::new();
                    let nt = emit(&sh, &[o1, o2, o3], &mut lx, true);
                    out.push(stmt_case("expr.paren", format!("{}:{}·{}·{}", describe(&sh), o1.text, o2.text, o3.text), lx, nt));
                }
            }
        }
    }
    // unary operators against every binary operator, on the left operand, the right operand, and both
    for (utext, unt) in [("-", "NEG"), ("NOT", "NOT")] {
        for o in OPS.iter() {
            for place in ["left", "right", "both"] {
                let mut lx = Lx::new();
                let mut operand = |lx: &mut Lx, name: &str, with: bool| -> NT {
                    if with {
                        if utext == "-" {
                            lx.push(Lexeme::new("-", Class::Op).soft());
                        } else {
                            lx.kw("NOT");
                        }
                        lx.id(name);
                        un(unt, ref_(name))
                    } else {
                        lx.id(name);
                        ref_(name)
                    }
                };
                let l_ = operand(&mut lx, "a", place != "right");
                op_lex(&mut lx, o);
                let r = operand(&mut lx, "b", place != "left");
                out.push(stmt_case("expr.unary", format!("{} {} {}", utext, place, o.text), lx, bin(o, l_, r)));
            }
            // unary applied to a parenthesised binary expression
            let mut lx = Lx::new();
            if utext == "-" {
                lx.push(Lexeme::new("-", Class::Op).soft());
            } else {
                lx.kw("NOT");
            }
            lx.p("(").id("a");
            op_lex(&mut lx, o);
            lx.id("b").p(")");
            out.push(stmt_case("expr.unary", format!("{} of ({})", utext, o.text), lx, un(unt, bin(o, ref_("a"), ref_("b")))));
        }
    }
    // unary minus written as an operator in front of a numeric literal (a sign that may be separated from the
    // number by white space or a comment): alone, as the left and as the right operand
    for (num, is_real) in [("7", false), ("2.5", true)] {
        let lit_nt = |neg: bool| -> NT {
            if is_real {
                n("Real", vec![("v", NT::F((if neg { -2.5f64 } else { 2.5f64 }).to_bits())), ("type", NT::Nil)])
            } else if neg {
                int_neg(7)
            } else {
                int(7)
            }
        };
        let mut lx = Lx::new();
        lx.push(Lexeme::new("-", Class::Op).soft());
        lx.num(num);
        out.push(stmt_case("expr.unary", format!("- literal {}", num), lx, lit_nt(true)));
        for o in [&OPS[10], &OPS[12]] {
            let mut lx = Lx::new();
            lx.push(Lexeme::new("-", Class::Op).soft());
            lx.num(num);
            op_lex(&mut lx, o);
            lx.id("b");
            out.push(stmt_case("expr.unary", format!("- literal {} left {}", num, o.text), lx, bin(o, lit_nt(true), ref_("b"))));
            let mut lx = Lx::new();
            lx.id("b");
            op_lex(&mut lx, o);
            lx.push(Lexeme::new("-", Class::Op).soft());
            lx.num(num);
            out.push(stmt_case("expr.unary", format!("- literal {} right {}", num, o.text), lx, bin(o, ref_("b"), lit_nt(true))));
        }
    }
    // a unary operator on a parenthesised group used as an operand of another binary operator,
    // and as a call argument: -(a op1 b) op2 c ; c op2 -(a op1 b) ; Fn(-(a op1 b)) op2 c
    let menu2: Vec<&Op> = [0usize, 2, 4, 6, 10, 11, 12, 13, 15].iter().map(|i| &OPS[*i]).collect();
    for (utext, unt) in [("-", "NEG"), ("NOT", "NOT")] {
        for o1 in &menu2 {
            for o2 in &menu2 {
                for place in ["left", "right", "call-arg"] {
                    let mut lx = Lx::new();
                    let group = |lx: &mut Lx| -> NT {
                        if utext == "-" {
                            lx.push(Lexeme::new("-", Class::Op).soft());
                        } else {
                            lx.kw("NOT");
                        }
                        lx.p("(").id("a");
                        op_lex(lx, o1);
                        lx.id("b").p(")");
                        un(unt, bin(o1, ref_("a"), ref_("b")))
                    };
                    let nt = match place {
                        "left" => {
                            let g = group(&mut lx);
                            op_lex(&mut lx, o2);
                            lx.id("c");
                            bin(o2, g, ref_("c"))
                        }
                        "right" => {
                            lx.id("c");
                            op_lex(&mut lx, o2);
                            let g = group(&mut lx);
                            bin(o2, ref_("c"), g)
                        }
                        _ => {
                            lx.id("Fn").p("(");
                            let g = group(&mut lx);
                            lx.p(")");
                            op_lex(&mut lx, o2);
                            lx.id("c");
                            bin(o2, n("Call", vec![("name", s("Fn")), ("args", l(vec![n("Pos", vec![("e", g)])]))]), ref_("c"))
                        }
                    };
                    out.push(stmt_case("expr.unary-group", format!("{}({}) {} {}", utext, o1.text, place, o2.text), lx, nt));
                }
            }
        }
    }
    // the place of an expression is a dimension: every expression of the pair, unary and unary-group tables is
    // written again as a subscript (of a source and of a target), between two subscripts, as a subscript below a
    // field selector, as a positional and as a named argument of a function and of a function block, and as every
    // condition, selector and bound a statement has
    let placed: Vec<(&'static str, String, Lx, NT)> = PLACED.with(|p| p.borrow_mut().drain(..).collect());
    let call_nt = |name: &str, args: Vec<NT>| n("Call", vec![("name", s(name)), ("args", l(args))]);
    let one = || assign(ref_("d"), int(1));
    for (group, label, e, ent) in placed {
        // every unary-group expression, every eighth of the others (the place matters for the operators at the top)
        let key = label.bytes().fold(0u32, |a, b| a.wrapping_mul(31).wrapping_add(b as u32));
        if group != "expr.unary-group" && key % 8 != 0 {
            continue;
        }
        let places: [&str; 16] = [
            "subscript", "target-subscript", "second-subscript", "subscript-below-field", "subscript-in-subscript", "function-argument", "named-function-argument",
            "fb-argument", "if-condition", "elsif-condition", "while-condition", "until-condition", "case-selector", "for-from", "for-to", "for-by",
        ];
        for place in places {
            let mut b = Lx::new();
            let st: NT = match place {
                "subscript" => {
                    b.id("a").op(":=").id("arr").p("[");
                    b.extend(&e);
                    b.p("]").p(";");
                    assign(ref_("a"), n("Index", vec![("of", ref_("arr")), ("subs", l(vec![ent.clone()]))]))
                }
                "target-subscript" => {
                    b.id("arr").p("[");
                    b.extend(&e);
                    b.p("]").op(":=").id("a").p(";");
                    assign(n("Index", vec![("of", ref_("arr")), ("subs", l(vec![ent.clone()]))]), ref_("a"))
                }
                "second-subscript" => {
                    b.id("a").op(":=").id("arr").p("[").num("1").p(",");
                    b.extend(&e);
                    b.p(",").id("b").p("]").p(";");
                    assign(ref_("a"), n("Index", vec![("of", ref_("arr")), ("subs", l(vec![int(1), ent.clone(), ref_("b")]))]))
                }
                "subscript-below-field" => {
                    b.id("a").op(":=").id("arr").p("[");
                    b.extend(&e);
                    b.p("]").p(".").id("x").p(";");
                    assign(ref_("a"), n("Field", vec![("of", n("Index", vec![("of", ref_("arr")), ("subs", l(vec![ent.clone()]))])), ("field", s("x"))]))
                }
                "subscript-in-subscript" => {
                    b.id("a").op(":=").id("arr").p("[").id("idx").p("[");
                    b.extend(&e);
                    b.p("]").p("]").p(";");
                    assign(ref_("a"), n("Index", vec![("of", ref_("arr")), ("subs", l(vec![n("Index", vec![("of", ref_("idx")), ("subs", l(vec![ent.clone()]))])]))]))
                }
                "function-argument" => {
                    b.id("a").op(":=").id("Fn").p("(").id("b").p(",");
                    b.extend(&e);
                    b.p(")").p(";");
                    assign(ref_("a"), call_nt("Fn", vec![n("Pos", vec![("e", ref_("b"))]), n("Pos", vec![("e", ent.clone())])]))
                }
                "named-function-argument" => {
                    b.id("a").op(":=").id("Fn").p("(").id("x").op(":=");
                    b.extend(&e);
                    b.p(")").p(";");
                    assign(ref_("a"), call_nt("Fn", vec![n("Named", vec![("name", s("x")), ("e", ent.clone())])]))
                }
                "fb-argument" => {
                    b.id("inst").p("(").id("x").op(":=");
                    b.extend(&e);
                    b.p(",").id("y").op(":=").id("b").p(")").p(";");
                    n("FbCall", vec![("name", s("inst")), ("args", l(vec![n("Named", vec![("name", s("x")), ("e", ent.clone())]), n("Named", vec![("name", s("y")), ("e", ref_("b"))])]))])
                }
                "if-condition" => {
                    b.kw("IF");
                    b.extend(&e);
                    b.kw("THEN").words("d := 1 ;").kw("END_IF").p(";");
                    n("If", vec![("cond", ent.clone()), ("then", l(vec![one()])), ("elsifs", l(vec![])), ("else", l(vec![]))])
                }
                "elsif-condition" => {
                    b.kw("IF").id("b").kw("THEN").words("d := 1 ;").kw("ELSIF");
                    b.extend(&e);
                    b.kw("THEN").words("d := 1 ;").kw("END_IF").p(";");
                    n("If", vec![("cond", ref_("b")), ("then", l(vec![one()])), ("elsifs", l(vec![n("ElsIf", vec![("cond", ent.clone()), ("body", l(vec![one()]))])])), ("else", l(vec![]))])
                }
                "while-condition" => {
                    b.kw("WHILE");
                    b.extend(&e);
                    b.kw("DO").words("d := 1 ;").kw("END_WHILE").p(";");
                    n("While", vec![("cond", ent.clone()), ("body", l(vec![one()]))])
                }
                "until-condition" => {
                    b.kw("REPEAT").words("d := 1 ;").kw("UNTIL");
                    b.extend(&e);
                    b.kw("END_REPEAT").p(";");
                    n("Repeat", vec![("body", l(vec![one()])), ("until", ent.clone())])
                }
                "case-selector" => {
                    b.kw("CASE");
                    b.extend(&e);
                    b.kw("OF").num("1").p(":").words("d := 1 ;").kw("END_CASE").p(";");
                    n("Case", vec![("sel", ent.clone()), ("groups", l(vec![n("Group", vec![("sels", l(vec![NT::I(1, false)])), ("body", l(vec![one()]))])])), ("else", l(vec![]))])
                }
                _ => {
                    // FOR i := from TO to BY by DO
                    let slot = |b: &mut Lx, here: bool, dflt: &str| -> NT {
                        if here {
                            b.extend(&e);
                            ent.clone()
                        } else {
                            b.num(dflt);
                            int(dflt.parse().unwrap())
                        }
                    };
                    b.kw("FOR").id("c").op(":=");
                    let from = slot(&mut b, place == "for-from", "1");
                    b.kw("TO");
                    let to = slot(&mut b, place == "for-to", "9");
                    b.kw("BY");
                    let by = slot(&mut b, place == "for-by", "2");
                    b.kw("DO").words("d := 1 ;").kw("END_FOR").p(";");
                    n("For", vec![("ctrl", s("c")), ("from", from), ("to", to), ("by", by), ("body", l(vec![one()]))])
                }
            };
            let (lx, nt) = host_fb(&b, vec![st]);
            out.push(Case { group: "expr.place", labels: vec![format!("place={}", place), format!("{}:{}", group, label)], lx, nt });
        }
    }
    out
}

/// Operand kinds (through the chooser): literal classes, variables, function calls.
pub fn operand(ch: &mut Chooser, lx: &mut Lx, point: &str) -> NT {
    const KINDS: [&str; 24] = [
        "name", "int", "neg-int", "typed-int", "real", "neg-real", "exp-real", "true", "false", "typed-bool", "string", "wstring", "duration", "tod", "date",
        "dt", "hex", "typed-bits", "field", "field2", "index", "index2", "index-expr", "direct",
    ];
    let k = ch.pick(point, &KINDS, 1);
    match KINDS[k] {
        "name" => {
            lx.id("b");
            ref_("b")
        }
        "int" => {
            lx.num("42");
            int(42)
        }
        "neg-int" => {
            lx.lit(&["-", "7"]);
            int_neg(7)
        }
        "typed-int" => {
            lx.lit(&["DINT", "#", "5"]);
            n("Int", vec![("v", NT::I(5, false)), ("type", s("DINT"))])
        }
        "real" => {
            lx.num("1.5");
            n("Real", vec![("v", NT::F(1.5f64.to_bits())), ("type", NT::Nil)])
        }
        "neg-real" => {
            lx.lit(&["-", "2.25"]);
            n("Real", vec![("v", NT::F((-2.25f64).to_bits())), ("type", NT::Nil)])
        }
        "exp-real" => {
            lx.num("1.0E3");
            n("Real", vec![("v", NT::F(1000f64.to_bits())), ("type", NT::Nil)])
        }
        "true" => {
            lx.kw("TRUE");
            n("Bool", vec![("v", NT::B(true))])
        }
        "false" => {
            lx.kw("FALSE");
            n("Bool", vec![("v", NT::B(false))])
        }
        "typed-bool" => {
            lx.lit(&["BOOL", "#", "TRUE"]);
            n("Bool", vec![("v", NT::B(true))])
        }
        "string" => {
            lx.str_("'it'");
            n("Str", vec![("v", s("it"))])
        }
        "wstring" => {
            lx.str_("\"w\"");
            n("Str", vec![("v", s("w"))])
        }
        "duration" => {
            lx.lit(&["T", "#", "5", "ms"]);
            n("Dur", vec![("ns", NT::D(5_000_000))])
        }
        "tod" => {
            lx.lit(&["TOD", "#", "12", ":", "30", ":", "15"]);
            n("Tod", vec![("h", NT::I(12, false)), ("m", NT::I(30, false)), ("s", NT::I(15, false)), ("us", NT::I(0, false))])
        }
        "date" => {
            lx.lit(&["D", "#", "2021", "-", "02", "-", "03"]);
            n("Date", vec![("y", NT::I(2021, false)), ("m", NT::I(2, false)), ("d", NT::I(3, false))])
        }
        "dt" => {
            lx.lit(&["DT", "#", "2021", "-", "02", "-", "03", "-", "12", ":", "30", ":", "15"]);
            n(
                "Dt",
                vec![
                    ("y", NT::I(2021, false)),
                    ("mo", NT::I(2, false)),
                    ("d", NT::I(3, false)),
                    ("h", NT::I(12, false)),
                    ("m", NT::I(30, false)),
                    ("s", NT::I(15, false)),
                    ("us", NT::I(0, false)),
                ],
            )
        }
        "hex" => {
            lx.num("16#FF");
            int(255)
        }
        "typed-bits" => {
            lx.push(Lexeme::new("WORD", Class::Keyword).hard());
            lx.push(Lexeme::new("#", Class::Punct).hard());
            lx.num("16#FF");
            n("Bits", vec![("v", NT::I(255, false)), ("type", s("WORD"))])
        }
        "field" => {
            lx.id("p").p(".").id("x");
            n("Field", vec![("of", ref_("p")), ("field", s("x"))])
        }
        "field2" => {
            lx.id("p").p(".").id("q").p(".").id("x");
            n("Field", vec![("of", n("Field", vec![("of", ref_("p")), ("field", s("q"))])), ("field", s("x"))])
        }
        "index" => {
            lx.id("arr").p("[").num("1").p("]");
            n("Index", vec![("of", ref_("arr")), ("subs", l(vec![int(1)]))])
        }
        "index2" => {
            lx.id("arr").p("[").num("1").p(",").id("b").p("]");
            n("Index", vec![("of", ref_("arr")), ("subs", l(vec![int(1), ref_("b")]))])
        }
        "index-expr" => {
            lx.id("arr").p("[").id("b").op("+").num("1").p("]").p(".").id("x");
            n(
                "Field",
                vec![("of", n("Index", vec![("of", ref_("arr")), ("subs", l(vec![bin(&OPS[10], ref_("b"), int(1))]))])), ("field", s("x"))],
            )
        }
        "direct" => {
            lx.addr("%IX1");
            n("Direct", vec![("at", n("Addr", vec![("loc", s("I")), ("size", s("X")), ("path", l(vec![NT::I(1, false)]))]))])
        }
        _ => unreachable!(),
    }
}

/// Function call forms.
pub fn call(ch: &mut Chooser, lx: &mut Lx) -> NT {
    const FORMS: [&str; 8] = ["one-positional", "no-args", "two-positional", "named", "two-named", "nested", "expr-arg", "call-in-subscript"];
    let k = ch.pick("call", &FORMS, 1);
    let pos = |e: NT| n("Pos", vec![("e", e)]);
    let named = |nm: &str, e: NT| n("Named", vec![("name", s(nm)), ("e", e)]);
    let c = |name: &str, args: Vec<NT>| n("Call", vec![("name", s(name)), ("args", l(args))]);
    match FORMS[k] {
        "one-positional" => {
            lx.id("Fn").p("(").id("b").p(")");
            c("Fn", vec![pos(ref_("b"))])
        }
        "no-args" => {
            lx.id("Fn").p("(").p(")");
            c("Fn", vec![])
        }
        "two-positional" => {
            lx.id("Fn").p("(").id("b").p(",").num("2").p(")");
            c("Fn", vec![pos(ref_("b")), pos(int(2))])
        }
        "named" => {
            lx.id("Fn").p("(").id("x").op(":=").id("b").p(")");
            c("Fn", vec![named("x", ref_("b"))])
        }
        "two-named" => {
            lx.id("Fn").p("(").id("x").op(":=").id("b").p(",").id("y").op(":=").num("2").p(")");
            c("Fn", vec![named("x", ref_("b")), named("y", int(2))])
        }
        "nested" => {
            lx.id("Fn").p("(").id("Gn").p("(").id("b").p(")").p(")");
            c("Fn", vec![pos(c("Gn", vec![pos(ref_("b"))]))])
        }
        "expr-arg" => {
            lx.id("Fn").p("(").id("b").op("+").num("1").p(",").id("c").op("*").num("2").p(")");
            c("Fn", vec![pos(bin(&OPS[10], ref_("b"), int(1))), pos(bin(&OPS[12], ref_("c"), int(2)))])
        }
        "call-in-subscript" => {
            lx.id("arr").p("[").id("Fn").p("(").id("b").p(")").p("]");
            n("Index", vec![("of", ref_("arr")), ("subs", l(vec![c("Fn", vec![pos(ref_("b"))])]))])
        }
        _ => unreachable!(),
    }
}

fn g_operand(ch: &mut Chooser) -> (Lx, NT) {
    // one operator per level (cost 0), operand under test on the left or the right (cost 0)
    const LEVEL_OPS: [usize; 8] = [10, 0, 1, 2, 4, 6, 12, 15];
    let oi = ch.num("op", LEVEL_OPS.len(), 0);
    let side = ch.pick("side", &["right", "left"], 0);
    let op = &OPS[LEVEL_OPS[oi]];
    let mut e = Lx::new();
    let nt;
    if side == 0 {
        e.id("c");
        super::expr::op_lex_pub(&mut e, op);
        let r = operand(ch, &mut e, "operand");
        nt = bin(op, ref_("c"), r);
    } else {
        let l_ = operand(ch, &mut e, "operand");
        super::expr::op_lex_pub(&mut e, op);
        e.id("c");
        nt = bin(op, l_, ref_("c"));
    }
    let mut body = Lx::new();
    body.id("a").op(":=");
    body.extend(&e);
    body.p(";");
    host_fb(&body, vec![assign(ref_("a"), nt)])
}

fn g_call(ch: &mut Chooser) -> (Lx, NT) {
    let place = ch.pick("place", &["alone", "left-of-plus", "right-of-plus"], 0);
    let mut e = Lx::new();
    let nt = match place {
        0 => call(ch, &mut e),
        1 => {
            let c = call(ch, &mut e);
            e.op("+").id("c");
            bin(&OPS[10], c, ref_("c"))
        }
        _ => {
            e.id("c").op("+");
            let c = call(ch, &mut e);
            bin(&OPS[10], ref_("c"), c)
        }
    };
    let mut body = Lx::new();
    body.id("a").op(":=");
    body.extend(&e);
    body.p(";");
    host_fb(&body, vec![assign(ref_("a"), nt)])
}

pub fn op_lex_pub(lx: &mut Lx, op: &Op) {
    op_lex(lx, op)
}

pub fn groups() -> Vec<Group> {
    vec![Group { name: "expr.operand", gen: g_operand }, Group { name: "expr.call", gen: g_call }]
}
