//! Declarations: TYPE blocks, VAR blocks, POUs, configurations, SFC.

use super::*;

fn ev(t: Option<&str>, v: &str) -> NT {
    n("EV", vec![("type", t.map(s).unwrap_or(NT::Nil)), ("v", s(v))])
}
fn range(lo: NT, hi: NT) -> NT {
    n("Range", vec![("lo", lo), ("hi", hi)])
}
fn field_init(name: &str, v: NT) -> NT {
    n("FieldInit", vec![("name", s(name)), ("v", v)])
}
fn struct_init(fields: Vec<NT>) -> NT {
    n("StructInit", vec![("fields", l(fields))])
}
fn string_spec(width: &str, length: NT, init: NT) -> NT {
    n("StringSpec", vec![("width", s(width)), ("length", length), ("init", init)])
}
fn addr(loc: &str, size: &str, path: &[u128]) -> NT {
    n("Addr", vec![("loc", s(loc)), ("size", s(size)), ("path", l(path.iter().map(|x| NT::I(*x, false)).collect()))])
}

/// elementary type with a literal of its class: (type text, literal pieces, expected constant)
fn elementary_with_literal(i: usize) -> (&'static str, Vec<&'static str>, NT) {
    let c = |tag: &'static str, f: Vec<(&'static str, NT)>| n(tag, f);
    match i {
        0 => ("INT", vec!["5"], int(5)),
        1 => ("BOOL", vec!["TRUE"], c("Bool", vec![("v", NT::B(true))])),
        2 => ("SINT", vec!["-", "5"], int_neg(5)),
        3 => ("DINT", vec!["DINT", "#", "7"], c("Int", vec![("v", NT::I(7, false)), ("type", s("DINT"))])),
        4 => ("LINT", vec!["1_000"], int(1000)),
        5 => ("USINT", vec!["2#1010"], int(10)),
        6 => ("UINT", vec!["8#17"], int(15)),
        7 => ("UDINT", vec!["16#FF"], int(255)),
        8 => ("ULINT", vec!["0"], int(0)),
        9 => ("REAL", vec!["1.5"], c("Real", vec![("v", NT::F(1.5f64.to_bits())), ("type", NT::Nil)])),
        10 => ("LREAL", vec!["LREAL", "#", "2.5"], c("Real", vec![("v", NT::F(2.5f64.to_bits())), ("type", s("LREAL"))])),
        11 => ("TIME", vec!["T", "#", "1", "s"], c("Dur", vec![("ns", NT::D(1_000_000_000))])),
        12 => ("DATE", vec!["D", "#", "2020", "-", "01", "-", "31"], c("Date", vec![("y", NT::I(2020, false)), ("m", NT::I(1, false)), ("d", NT::I(31, false))])),
        13 => (
            "TIME_OF_DAY",
            vec!["TOD", "#", "23", ":", "59", ":", "59"],
            c("Tod", vec![("h", NT::I(23, false)), ("m", NT::I(59, false)), ("s", NT::I(59, false)), ("us", NT::I(0, false))]),
        ),
        14 => (
            "DATE_AND_TIME",
            vec!["DT", "#", "2020", "-", "01", "-", "31", "-", "01", ":", "02", ":", "03"],
            c(
                "Dt",
                vec![
                    ("y", NT::I(2020, false)),
                    ("mo", NT::I(1, false)),
                    ("d", NT::I(31, false)),
                    ("h", NT::I(1, false)),
                    ("m", NT::I(2, false)),
                    ("s", NT::I(3, false)),
                    ("us", NT::I(0, false)),
                ],
            ),
        ),
        15 => ("BYTE", vec!["BYTE", "#", "16#0F"], c("Bits", vec![("v", NT::I(15, false)), ("type", s("BYTE"))])),
        16 => ("WORD", vec!["16#FFFF"], int(65535)),
        17 => ("DWORD", vec!["DWORD", "#", "2#101"], c("Bits", vec![("v", NT::I(5, false)), ("type", s("DWORD"))])),
        18 => ("LWORD", vec!["LWORD", "#", "7"], c("Bits", vec![("v", NT::I(7, false)), ("type", s("LWORD"))])),
        19 => ("TIME", vec!["TIME", "#", "-", "2", "m"], c("Dur", vec![("ns", NT::D(-120_000_000_000))])),
        _ => unreachable!(),
    }
}
const N_ELEMENTARY: usize = 20;

fn emit_literal(lx: &mut Lx, pieces: &[&str]) {
    if pieces.len() == 1 {
        lx.word(pieces[0]);
    } else if pieces.len() == 3 && pieces[1] == "#" && pieces[2].contains('#') {
        // typed based literal: BYTE#16#0F — the based part is one lexer token
        lx.push(Lexeme::new(pieces[0], Class::Keyword).hard());
        lx.push(Lexeme::new("#", Class::Punct).hard());
        lx.num(pieces[2]);
    } else {
        lx.lit(pieces);
    }
}

// ---------------------------------------------------------------------------
// TYPE declarations

/// One type declaration `Name : ... ;` of the chosen form. Returns its tree.
fn type_decl(ch: &mut Chooser, lx: &mut Lx, name: &str, form_cost: u32) -> NT {
    const FORMS: [&str; 9] = ["enum", "enum-alias", "subrange", "simple", "array", "struct", "struct-init", "string", "late"];
    let f = ch.pick("type", &FORMS, form_cost);
    lx.id(name).p(":");
    let nt = match FORMS[f] {
        "enum" => {
            let nv = ch.pick("values", &["2", "1", "3"], 1);
            let vals: &[&str] = match nv {
                0 => &["Low", "High"],
                1 => &["Only"],
                _ => &["Low", "Mid", "High"],
            };
            lx.p("(");
            for (i, v) in vals.iter().enumerate() {
                if i > 0 {
                    lx.p(",");
                }
                lx.id(v);
            }
            lx.p(")");
            let d = ch.pick("default", &["none", "first", "last", "typed"], 1);
            let default = match d {
                0 => NT::Nil,
                1 => {
                    lx.op(":=").id(vals[0]);
                    ev(None, vals[0])
                }
                2 => {
                    lx.op(":=").id(vals[vals.len() - 1]);
                    ev(None, vals[vals.len() - 1])
                }
                _ => {
                    lx.op(":=").push(Lexeme::new(name, Class::Ident).hard()).push(Lexeme::new("#", Class::Punct).hard()).id(vals[0]);
                    ev(Some(name), vals[0])
                }
            };
            n(
                "Type.Enum",
                vec![("name", s(name)), ("spec", n("Values", vec![("values", l(vals.iter().map(|v| ev(None, v)).collect()))])), ("default", default)],
            )
        }
        "enum-alias" => {
            lx.id("Level").op(":=").id("Low");
            n("Type.Enum", vec![("name", s(name)), ("spec", n("Base", vec![("type", s("Level"))])), ("default", ev(None, "Low"))])
        }
        "subrange" => {
            const BASES: [&str; 8] = ["INT", "SINT", "DINT", "LINT", "USINT", "UINT", "UDINT", "ULINT"];
            let b = ch.pick("base", &BASES, 1);
            lx.kw(BASES[b]).p("(");
            let bound = |ch: &mut Chooser, lx: &mut Lx, point: &str, dflt: (&[&str], NT)| -> NT {
                let k = ch.pick(point, &["default", "zero", "plus", "underscore", "negative"], 1);
                match k {
                    0 => {
                        lx.lit(dflt.0);
                        dflt.1
                    }
                    1 => {
                        lx.num("0");
                        NT::I(0, false)
                    }
                    2 => {
                        lx.lit(&["+", "1"]);
                        NT::I(1, false)
                    }
                    3 => {
                        lx.num("1_0");
                        NT::I(10, false)
                    }
                    _ => {
                        lx.lit(&["-", "3"]);
                        NT::I(3, true)
                    }
                }
            };
            let lo = bound(ch, lx, "lower", (&["-", "10"], NT::I(10, true)));
            lx.op("..");
            let hi = bound(ch, lx, "upper", (&["20"], NT::I(20, false)));
            lx.p(")");
            let d = ch.pick("default", &["none", "positive", "negative"], 1);
            let default = match d {
                0 => NT::Nil,
                1 => {
                    lx.op(":=").num("2");
                    NT::I(2, false)
                }
                _ => {
                    lx.op(":=").lit(&["-", "2"]);
                    NT::I(2, true)
                }
            };
            n("Type.Subrange", vec![("name", s(name)), ("spec", n("InlineSubrange", vec![("base", s(BASES[b])), ("range", range(lo, hi))])), ("default", default)])
        }
        "simple" => {
            let e = ch.num("elementary", N_ELEMENTARY + 2, 1);
            if e == N_ELEMENTARY {
                // without initial value: `A : INT`
                lx.kw("INT");
                n("Type.Simple", vec![("name", s(name)), ("init", tref("INT", NT::Nil))])
            } else if e == N_ELEMENTARY + 1 {
                // derived base with a constant: `A : MyInt := 3`
                lx.id("MyInt").op(":=").num("3");
                n("Type.Simple", vec![("name", s(name)), ("init", tref("MyInt", int(3)))])
            } else {
                let (t, pieces, c) = elementary_with_literal(e);
                lx.kw(t).op(":=");
                emit_literal(lx, &pieces);
                n("Type.Simple", vec![("name", s(name)), ("init", tref(t, c))])
            }
        }
        "array" => {
            let (ranges, elem, init) = array_spec(ch, lx);
            n("Type.Array", vec![("name", s(name)), ("ranges", ranges), ("elem", elem), ("init", init)])
        }
        "struct" => {
            lx.kw("STRUCT");
            let ne = ch.pick("elements", &["1", "2", "3"], 1);
            let mut elems = vec![];
            let names = ["x", "y", "z"];
            for i in 0..=ne {
                lx.id(names[i]).p(":");
                let init = if i == 0 { element_init(ch, lx) } else { {
                    lx.kw("INT");
                    tref("INT", NT::Nil)
                } };
                lx.p(";");
                elems.push(n("Element", vec![("name", s(names[i])), ("init", init)]));
            }
            lx.kw("END_STRUCT");
            n("Type.Struct", vec![("name", s(name)), ("elements", l(elems))])
        }
        "struct-init" => {
            lx.id("Pt").op(":=");
            let si = structure_initialization(ch, lx);
            n("Type.Simple", vec![("name", s(name)), ("init", tref("Pt", si))])
        }
        "string" => {
            let w = ch.pick("width", &["STRING", "WSTRING"], 1);
            let br = ch.pick("bracket", &["[]", "()"], 1);
            let wi = ch.pick("init", &["none", "literal"], 1);
            lx.kw(if w == 0 { "STRING" } else { "WSTRING" });
            lx.p(if br == 0 { "[" } else { "(" }).num("10").p(if br == 0 { "]" } else { ")" });
            let init = if wi == 1 {
                lx.op(":=").str_(if w == 0 { "'abc'" } else { "\"abc\"" });
                s("abc")
            } else {
                NT::Nil
            };
            n(
                "Type.String",
                vec![("name", s(name)), ("width", s(if w == 0 { "String" } else { "WString" })), ("length", NT::I(10, false)), ("init", init)],
            )
        }
        "late" => {
            lx.id("Other");
            n("Type.Simple", vec![("name", s(name)), ("init", tref("Other", NT::Nil))])
        }
        _ => unreachable!(),
    };
    lx.p(";");
    nt
}

/// ARRAY [..] OF T with optional initial values. Returns (ranges, elem, init list).
fn array_spec(ch: &mut Chooser, lx: &mut Lx) -> (NT, NT, NT) {
    lx.kw("ARRAY").p("[").num("1").op("..").num("3");
    let dims = ch.pick("dims", &["1", "2", "negative-bound"], 1);
    let mut ranges = vec![range(NT::I(1, false), NT::I(3, false))];
    if dims == 1 {
        lx.p(",").num("0").op("..").num("1");
        ranges.push(range(NT::I(0, false), NT::I(1, false)));
    } else if dims == 2 {
        lx.p(",").lit(&["-", "1"]).op("..").num("1");
        ranges.push(range(NT::I(1, true), NT::I(1, false)));
    }
    lx.p("]").kw("OF");
    let e = ch.pick("elem", &["INT", "derived", "BOOL", "STRING"], 1);
    let elem = ["INT", "Pt", "BOOL", "STRING"][e];
    if e == 1 {
        lx.id(elem);
    } else {
        lx.kw(elem);
    }
    let i = ch.pick("array-init", &["none", "list", "repeat", "repeat-empty", "enum-values", "mixed", "typed-enum"], 1);
    let rep = |nn: u128, of: NT| n("Repeat", vec![("n", NT::I(nn, false)), ("of", of)]);
    let init = match i {
        0 => vec![],
        1 => {
            lx.op(":=").p("[").num("1").p(",").num("2").p(",").num("3").p("]");
            vec![int(1), int(2), int(3)]
        }
        2 => {
            lx.op(":=").p("[").num("3").p("(").num("0").p(")").p("]");
            vec![rep(3, int(0))]
        }
        3 => {
            lx.op(":=").p("[").num("3").p("(").p(")").p("]");
            vec![rep(3, NT::Nil)]
        }
        4 => {
            lx.op(":=").p("[").id("Low").p(",").id("High").p("]");
            vec![ev(None, "Low"), ev(None, "High")]
        }
        5 => {
            lx.op(":=").p("[").num("1").p(",").num("2").p("(").num("5").p(")").p("]");
            vec![int(1), rep(2, int(5))]
        }
        _ => {
            lx.op(":=").p("[").push(Lexeme::new("Level", Class::Ident).hard()).push(Lexeme::new("#", Class::Punct).hard()).id("Low").p("]");
            vec![ev(Some("Level"), "Low")]
        }
    };
    (l(ranges), s(elem), l(init))
}

/// `( x := 1 , ... )`
fn structure_initialization(ch: &mut Chooser, lx: &mut Lx) -> NT {
    let k = ch.pick("struct-init", &["one", "two", "nested", "enum-value", "array-value", "typed-enum-value"], 1);
    lx.p("(");
    let fields = match k {
        0 => {
            lx.id("x").op(":=").num("1");
            vec![field_init("x", int(1))]
        }
        1 => {
            lx.id("x").op(":=").num("1").p(",").id("y").op(":=").kw("TRUE");
            vec![field_init("x", int(1)), field_init("y", n("Bool", vec![("v", NT::B(true))]))]
        }
        2 => {
            lx.id("inner").op(":=").p("(").id("z").op(":=").num("3").p(")");
            vec![field_init("inner", struct_init(vec![field_init("z", int(3))]))]
        }
        3 => {
            lx.id("lv").op(":=").id("High");
            vec![field_init("lv", ev(None, "High"))]
        }
        4 => {
            lx.id("arr").op(":=").p("[").num("1").p(",").num("2").p("]");
            vec![field_init("arr", n("ArrayInit", vec![("items", l(vec![int(1), int(2)]))]))]
        }
        _ => {
            lx.id("lv").op(":=").push(Lexeme::new("Level", Class::Ident).hard()).push(Lexeme::new("#", Class::Punct).hard()).id("High");
            vec![field_init("lv", ev(Some("Level"), "High"))]
        }
    };
    lx.p(")");
    struct_init(fields)
}

/// The initialiser kinds of a structure element.
fn element_init(ch: &mut Chooser, lx: &mut Lx) -> NT {
    const K: [&str; 14] = [
        "elementary", "elementary-const", "derived", "derived-enum-value", "inline-enum", "inline-enum-default", "subrange", "array", "array-init", "struct-init", "string-n",
        "derived-const", "typed-enum-default", "string-plain",
    ];
    let k = ch.pick("element-init", &K, 1);
    match K[k] {
        "elementary" => {
            lx.kw("INT");
            tref("INT", NT::Nil)
        }
        "elementary-const" => {
            lx.kw("INT").op(":=").num("7");
            tref("INT", int(7))
        }
        "derived" => {
            lx.id("Other");
            tref("Other", NT::Nil)
        }
        "derived-enum-value" => {
            lx.id("Level").op(":=").id("High");
            tref("Level", ev(None, "High"))
        }
        "derived-const" => {
            lx.id("MyInt").op(":=").num("3");
            tref("MyInt", int(3))
        }
        "typed-enum-default" => {
            lx.id("Level").op(":=").push(Lexeme::new("Level", Class::Ident).hard()).push(Lexeme::new("#", Class::Punct).hard()).id("High");
            tref("Level", ev(Some("Level"), "High"))
        }
        "inline-enum" => {
            lx.p("(").id("A").p(",").id("B").p(")");
            n("InlineEnum", vec![("values", l(vec![ev(None, "A"), ev(None, "B")])), ("init", NT::Nil)])
        }
        "inline-enum-default" => {
            lx.p("(").id("A").p(",").id("B").p(")").op(":=").id("B");
            n("InlineEnum", vec![("values", l(vec![ev(None, "A"), ev(None, "B")])), ("init", ev(None, "B"))])
        }
        "subrange" => {
            lx.kw("INT").p("(").num("1").op("..").num("5").p(")");
            n("InlineSubrange", vec![("base", s("INT")), ("range", range(NT::I(1, false), NT::I(5, false)))])
        }
        "array" | "array-init" => {
            lx.kw("ARRAY").p("[").num("1").op("..").num("2").p("]").kw("OF").kw("INT");
            let init = if K[k] == "array-init" {
                lx.op(":=").p("[").num("1").p(",").num("2").p("]");
                vec![int(1), int(2)]
            } else {
                vec![]
            };
            n("InlineArray", vec![("ranges", l(vec![range(NT::I(1, false), NT::I(2, false))])), ("elem", s("INT")), ("init", l(init))])
        }
        "struct-init" => {
            lx.id("Pt").op(":=").p("(").id("x").op(":=").num("1").p(")");
            tref("Pt", struct_init(vec![field_init("x", int(1))]))
        }
        "string-n" => {
            lx.kw("STRING").p("[").num("8").p("]");
            string_spec("String", NT::I(8, false), NT::Nil)
        }
        "string-plain" => {
            lx.kw("STRING");
            tref("STRING", NT::Nil)
        }
        _ => unreachable!(),
    }
}

fn g_type(ch: &mut Chooser) -> (Lx, NT) {
    let mut lx = Lx::new();
    lx.kw("TYPE");
    let nt = type_decl(ch, &mut lx, "T1", 0);
    lx.kw("END_TYPE");
    (lx, l(vec![nt]))
}

/// Several declarations in one TYPE block and several TYPE blocks: order must be source order.
fn g_type_block(ch: &mut Chooser) -> (Lx, NT) {
    let shape = ch.pick("shape", &["2-in-1-block", "3-in-1-block", "2-blocks", "block-fb-block"], 0);
    let mut lx = Lx::new();
    let mut out = vec![];
    match shape {
        0 | 1 => {
            lx.kw("TYPE");
            out.push(type_decl(ch, &mut lx, "T1", 1));
            out.push(type_decl(ch, &mut lx, "T2", 1));
            if shape == 1 {
                out.push(type_decl(ch, &mut lx, "T3", 1));
            }
            lx.kw("END_TYPE");
        }
        2 => {
            lx.kw("TYPE");
            out.push(type_decl(ch, &mut lx, "T1", 1));
            lx.kw("END_TYPE").kw("TYPE");
            out.push(type_decl(ch, &mut lx, "T2", 1));
            lx.kw("END_TYPE");
        }
        _ => {
            lx.kw("TYPE");
            out.push(type_decl(ch, &mut lx, "T1", 1));
            lx.kw("END_TYPE");
            lx.words("FUNCTION_BLOCK Mid VAR a : INT ; END_VAR a := 1 ; END_FUNCTION_BLOCK");
            out.push(fb("Mid", vec![var(s("a"), "Var", "Unspecified", tref("INT", NT::Nil))], stmts_body(vec![assign(ref_("a"), int(1))])));
            lx.kw("TYPE");
            out.push(type_decl(ch, &mut lx, "T2", 1));
            lx.kw("END_TYPE");
        }
    }
    (lx, l(out))
}

// ---------------------------------------------------------------------------
// VAR blocks

#[derive(Clone, Copy, PartialEq, Debug)]
enum VarClass {
    Var,
    Input,
    Output,
    InOut,
    External,
}

impl VarClass {
    fn kw(&self) -> &'static str {
        match self {
            VarClass::Var => "VAR",
            VarClass::Input => "VAR_INPUT",
            VarClass::Output => "VAR_OUTPUT",
            VarClass::InOut => "VAR_IN_OUT",
            VarClass::External => "VAR_EXTERNAL",
        }
    }
    fn nt(&self) -> &'static str {
        match self {
            VarClass::Var => "Var",
            VarClass::Input => "Input",
            VarClass::Output => "Output",
            VarClass::InOut => "InOut",
            VarClass::External => "External",
        }
    }
    fn qualifiers(&self) -> &'static [&'static str] {
        match self {
            VarClass::Var => &["none", "CONSTANT", "RETAIN", "NON_RETAIN"],
            VarClass::Input | VarClass::Output => &["none", "RETAIN", "NON_RETAIN"],
            VarClass::InOut => &["none"],
            VarClass::External => &["none", "CONSTANT"],
        }
    }
}

fn qualifier_nt(q: &str) -> &'static str {
    match q {
        "CONSTANT" => "Constant",
        "RETAIN" => "Retain",
        "NON_RETAIN" => "NonRetain",
        _ => "Unspecified",
    }
}

/// The type/initialiser part after `name :` for a variable of the class. Returns the init tree, or
/// Err(edge) for an edge declaration (BOOL R_EDGE / F_EDGE).
fn var_init(ch: &mut Chooser, lx: &mut Lx, class: VarClass, cost: u32) -> Result<NT, &'static str> {
    // with initial values: VAR, VAR_INPUT, VAR_OUTPUT; without: VAR_IN_OUT, VAR_EXTERNAL
    const WITH: [&str; 26] = [
        "INT", "INT-const", "elementary-const", "derived", "derived-enum-value", "typed-enum-value", "inline-enum", "inline-enum-default", "subrange", "subrange-init", "array", "array-init",
        "struct-init", "struct-init-2", "STRING", "STRING-n", "STRING-init", "STRING-n-init", "WSTRING", "WSTRING-n-init", "derived-const", "BOOL", "array-of-derived", "fb-type",
        "R_EDGE", "F_EDGE",
    ];
    const WITHOUT: [&str; 9] = ["INT", "derived", "inline-enum", "subrange", "array", "STRING", "STRING-n", "WSTRING", "BOOL"];
    // edge declarations exist in VAR_INPUT only (IEC: input_declaration := var_init_decl | edge_declaration)
    let menu: &[&str] = if matches!(class, VarClass::InOut | VarClass::External) {
        &WITHOUT
    } else if class == VarClass::Input {
        &WITH
    } else {
        &WITH[..WITH.len() - 2]
    };
    let k = ch.pick("init", menu, cost);
    let kind = menu[k];
    Ok(match kind {
        "INT" => {
            lx.kw("INT");
            tref("INT", NT::Nil)
        }
        "BOOL" => {
            lx.kw("BOOL");
            tref("BOOL", NT::Nil)
        }
        "INT-const" => {
            lx.kw("INT").op(":=").num("1");
            tref("INT", int(1))
        }
        "elementary-const" => {
            let e = ch.num("elementary", N_ELEMENTARY, 0);
            let (t, pieces, c) = elementary_with_literal(e);
            lx.kw(t).op(":=");
            emit_literal(lx, &pieces);
            tref(t, c)
        }
        "derived" | "fb-type" => {
            let t = if kind == "derived" { "MyType" } else { "Callee" };
            lx.id(t);
            tref(t, NT::Nil)
        }
        "derived-const" => {
            lx.id("MyInt").op(":=").num("3");
            tref("MyInt", int(3))
        }
        "derived-enum-value" => {
            lx.id("Level").op(":=").id("Low");
            tref("Level", ev(None, "Low"))
        }
        "typed-enum-value" => {
            lx.id("Level").op(":=").push(Lexeme::new("Level", Class::Ident).hard()).push(Lexeme::new("#", Class::Punct).hard()).id("Low");
            tref("Level", ev(Some("Level"), "Low"))
        }
        "inline-enum" => {
            lx.p("(").id("A").p(",").id("B").p(")");
            n("InlineEnum", vec![("values", l(vec![ev(None, "A"), ev(None, "B")])), ("init", NT::Nil)])
        }
        "inline-enum-default" => {
            lx.p("(").id("A").p(",").id("B").p(")").op(":=").id("B");
            n("InlineEnum", vec![("values", l(vec![ev(None, "A"), ev(None, "B")])), ("init", ev(None, "B"))])
        }
        "subrange" => {
            lx.kw("INT").p("(").num("1").op("..").num("5").p(")");
            n("InlineSubrange", vec![("base", s("INT")), ("range", range(NT::I(1, false), NT::I(5, false)))])
        }
        "subrange-init" => {
            lx.kw("INT").p("(").num("1").op("..").num("5").p(")").op(":=").num("2");
            n("InlineSubrange", vec![("base", s("INT")), ("range", range(NT::I(1, false), NT::I(5, false))), ("init", NT::I(2, false))])
        }
        "array" | "array-init" | "array-of-derived" => {
            lx.kw("ARRAY").p("[").num("1").op("..").num("2").p("]").kw("OF");
            let elem = if kind == "array-of-derived" {
                lx.id("Pt");
                "Pt"
            } else {
                lx.kw("INT");
                "INT"
            };
            let init = if kind == "array-init" {
                lx.op(":=").p("[").num("1").p(",").num("2").p("]");
                vec![int(1), int(2)]
            } else {
                vec![]
            };
            n("InlineArray", vec![("ranges", l(vec![range(NT::I(1, false), NT::I(2, false))])), ("elem", s(elem)), ("init", l(init))])
        }
        "struct-init" => {
            lx.id("Pt").op(":=").p("(").id("x").op(":=").num("1").p(")");
            tref("Pt", struct_init(vec![field_init("x", int(1))]))
        }
        "struct-init-2" => {
            lx.id("Pt").op(":=").p("(").id("x").op(":=").num("1").p(",").id("y").op(":=").num("2").p(")");
            tref("Pt", struct_init(vec![field_init("x", int(1)), field_init("y", int(2))]))
        }
        "STRING" => {
            lx.kw("STRING");
            tref("STRING", NT::Nil)
        }
        "WSTRING" => {
            lx.kw("WSTRING");
            tref("WSTRING", NT::Nil)
        }
        "STRING-n" => {
            lx.kw("STRING").p("[").num("10").p("]");
            string_spec("String", NT::I(10, false), NT::Nil)
        }
        "STRING-init" => {
            lx.kw("STRING").op(":=").str_("'abc'");
            tref("STRING", n("Str", vec![("v", s("abc"))]))
        }
        "STRING-n-init" => {
            lx.kw("STRING").p("[").num("10").p("]").op(":=").str_("'abc'");
            string_spec("String", NT::I(10, false), s("abc"))
        }
        "WSTRING-n-init" => {
            lx.kw("WSTRING").p("[").num("10").p("]").op(":=").str_("\"abc\"");
            string_spec("WString", NT::I(10, false), s("abc"))
        }
        "R_EDGE" => {
            lx.kw("BOOL").kw("R_EDGE");
            return Err("Rising");
        }
        "F_EDGE" => {
            lx.kw("BOOL").kw("F_EDGE");
            return Err("Falling");
        }
        _ => unreachable!(),
    })
}

/// In a VAR_INPUT/VAR_OUTPUT/VAR block a plain STRING is a string spec; π reports STRING without
/// length as StringSpec as well, so both sides agree on the representation.
struct Block {
    vars: Vec<NT>,
    edge_vars: Vec<NT>,
}

/// One VAR…END_VAR block. `prefix` makes the variable names unique across blocks.
fn var_block(ch: &mut Chooser, lx: &mut Lx, class: VarClass, prefix: &str, init_cost: u32, in_function: bool) -> Block {
    lx.kw(class.kw());
    // IEC: function_var_decls := 'VAR' ['CONSTANT'] ... (no RETAIN / NON_RETAIN in a function)
    let quals: &[&str] = if in_function && class == VarClass::Var { &["none", "CONSTANT"] } else { class.qualifiers() };
    let q = ch.pick(&format!("{}qualifier", prefix), quals, 1);
    if q != 0 {
        lx.kw(quals[q]);
    }
    let decls = ch.pick(&format!("{}decls", prefix), &["1", "2"], 1);
    let mut vars = vec![];
    let mut edge_vars = vec![];
    for d in 0..=decls {
        let names_n = if d == 0 { ch.pick(&format!("{}names", prefix), &["1", "2", "3"], 1) } else { 0 };
        let names: Vec<String> = (0..=names_n).map(|i| format!("{}v{}{}", prefix, d, ["", "b", "c"][i])).collect();
        // VAR_EXTERNAL declares one name per declaration (IEC: global_var_name ':' ...)
        let names = if class == VarClass::External { names[..1].to_vec() } else { names };
        for (i, nm) in names.iter().enumerate() {
            if i > 0 {
                lx.p(",");
            }
            lx.id(nm);
        }
        lx.p(":");
        let r = if d == 0 { var_init(ch, lx, class, init_cost) } else { var_init(&mut Chooser::new(vec![]), lx, class, 0) };
        lx.p(";");
        match r {
            Ok(init) => {
                for nm in &names {
                    vars.push(var(s(nm), class.nt(), qualifier_nt(quals[q]), init.clone()));
                }
            }
            Err(edge) => {
                for nm in &names {
                    edge_vars.push(n("EdgeVar", vec![("name", s(nm)), ("edge", s(edge)), ("qualifier", s(qualifier_nt(quals[q])))]));
                }
            }
        }
    }
    lx.kw("END_VAR");
    Block { vars, edge_vars }
}

const CLASSES: [VarClass; 5] = [VarClass::Var, VarClass::Input, VarClass::Output, VarClass::InOut, VarClass::External];

fn pou_open(lx: &mut Lx, host: usize, name: &str) {
    match host {
        0 => lx.kw("FUNCTION_BLOCK").id(name),
        1 => lx.kw("PROGRAM").id(name),
        _ => lx.kw("FUNCTION").id(name).p(":").kw("INT"),
    };
}

fn pou_close(lx: &mut Lx, host: usize) {
    lx.kw(["END_FUNCTION_BLOCK", "END_PROGRAM", "END_FUNCTION"][host]);
}

fn pou_nt(host: usize, name: &str, vars: Vec<NT>, edge_vars: Vec<NT>, body: Vec<NT>) -> NT {
    match host {
        0 => n("FunctionBlock", vec![("name", s(name)), ("vars", l(vars)), ("edge_vars", l(edge_vars)), ("body", stmts_body(body))]),
        // a PROGRAM's edge declarations (VAR_INPUT x : BOOL R_EDGE) are part of what was written
        1 => {
            let mut f = vec![("name", s(name)), ("vars", l(vars)), ("access", l(vec![])), ("body", stmts_body(body))];
            if !edge_vars.is_empty() {
                f.push(("edge_vars", l(edge_vars)));
            }
            n("Program", f)
        }
        _ => n("Function", vec![("name", s(name)), ("returns", s("INT")), ("vars", l(vars)), ("edge_vars", l(edge_vars)), ("body", stmts_body(body))]),
    }
}

/// One block of every class (cost 0) x host kind (cost 0) with qualifier / names / initialiser deviations.
fn g_var_block(ch: &mut Chooser) -> (Lx, NT) {
    let host = ch.pick("host", &["FB", "PROGRAM", "FUNCTION"], 0);
    // IEC: a FUNCTION has input/output/in-out and VAR blocks only
    let ci = if host == 2 {
        ch.pick("class", &["VAR", "VAR_INPUT", "VAR_OUTPUT", "VAR_IN_OUT"], 0)
    } else {
        ch.pick("class", &["VAR", "VAR_INPUT", "VAR_OUTPUT", "VAR_IN_OUT", "VAR_EXTERNAL"], 0)
    };
    let class = CLASSES[ci];
    let mut lx = Lx::new();
    pou_open(&mut lx, host, "Host");
    let b = var_block(ch, &mut lx, class, "", 1, host == 2);
    // a function needs a body statement; the others get one too so that the body is not empty
    let body_name = if host == 2 { "Host" } else { "res" };
    lx.id(body_name).op(":=").num("1").p(";");
    pou_close(&mut lx, host);
    (lx, l(vec![pou_nt(host, "Host", b.vars, b.edge_vars, vec![assign(ref_(body_name), int(1))])]))
}

/// Several blocks per POU: order and class of each variable must survive flatten/drain.
fn g_var_blocks(ch: &mut Chooser) -> (Lx, NT) {
    let host = ch.pick("host", &["FB", "PROGRAM", "FUNCTION"], 0);
    let shape = ch.pick(
        "blocks",
        &["in+out", "var+var", "out+in", "in+inout+out+var", "ext+var+in", "var+in+var", "retain-blocks"],
        0,
    );
    let seq: Vec<VarClass> = match shape {
        0 => vec![VarClass::Input, VarClass::Output],
        1 => vec![VarClass::Var, VarClass::Var],
        2 => vec![VarClass::Output, VarClass::Input],
        3 => vec![VarClass::Input, VarClass::InOut, VarClass::Output, VarClass::Var],
        4 => {
            if host == 2 {
                vec![VarClass::InOut, VarClass::Var, VarClass::Input]
            } else {
                vec![VarClass::External, VarClass::Var, VarClass::Input]
            }
        }
        5 => vec![VarClass::Var, VarClass::Input, VarClass::Var],
        _ => vec![VarClass::Var, VarClass::Var, VarClass::Var],
    };
    let mut lx = Lx::new();
    pou_open(&mut lx, host, "Host");
    let mut vars = vec![];
    let mut edge = vec![];
    for (i, c) in seq.iter().enumerate() {
        let b = var_block(ch, &mut lx, *c, &format!("b{}", i), 1, host == 2);
        vars.extend(b.vars);
        edge.extend(b.edge_vars);
    }
    let body_name = if host == 2 { "Host" } else { "res" };
    lx.id(body_name).op(":=").num("1").p(";");
    pou_close(&mut lx, host);
    (lx, l(vec![pou_nt(host, "Host", vars, edge, vec![assign(ref_(body_name), int(1))])]))
}

/// Located and incompletely located variables, VAR_ACCESS (PROGRAM).
fn g_var_located(ch: &mut Chooser) -> (Lx, NT) {
    // IEC: located variables and VAR_ACCESS belong to programs; function blocks admit the incomplete form only
    let kind = ch.pick("located", &["named", "unnamed", "incomplete", "access"], 0);
    let host = if kind == 2 { ch.pick("host", &["PROGRAM", "FB"], 0) } else { 0 };
    let mut lx = Lx::new();
    pou_open(&mut lx, if host == 0 { 1 } else { 0 }, "Host");
    let mut vars = vec![];
    let mut access = vec![];
    match kind {
        0 | 1 => {
            lx.kw("VAR");
            let quals = ["none", "CONSTANT", "RETAIN", "NON_RETAIN"];
            let q = ch.pick("qualifier", &quals, 1);
            if q != 0 {
                lx.kw(quals[q]);
            }
            if kind == 0 {
                lx.id("inp");
            }
            lx.kw("AT");
            const ADDRS: [(&str, &str, &str, &[u128]); 12] = [
                ("%IX1", "I", "X", &[1]),
                ("%QX2", "Q", "X", &[2]),
                ("%MX3", "M", "X", &[3]),
                ("%I4", "I", "Nil", &[4]),
                ("%IB5", "I", "B", &[5]),
                ("%QW6", "Q", "W", &[6]),
                ("%MD7", "M", "D", &[7]),
                ("%IL8", "I", "L", &[8]),
                ("%IX1.2", "I", "X", &[1, 2]),
                ("%QX1.2.3", "Q", "X", &[1, 2, 3]),
                ("%IX12", "I", "X", &[12]),
                ("%MW10.20", "M", "W", &[10, 20]),
            ];
            let a = ch.num("address", ADDRS.len(), 1);
            lx.addr(ADDRS[a].0);
            lx.p(":");
            let t = ch.pick("type", &["BOOL", "INT-init", "derived"], 1);
            let init = match t {
                0 => {
                    lx.kw("BOOL");
                    tref("BOOL", NT::Nil)
                }
                1 => {
                    lx.kw("INT").op(":=").num("5");
                    tref("INT", int(5))
                }
                _ => {
                    lx.id("MyType");
                    tref("MyType", NT::Nil)
                }
            };
            lx.p(";").kw("END_VAR");
            let name = n("Located", vec![("name", if kind == 0 { s("inp") } else { NT::Nil }), ("at", addr(ADDRS[a].1, ADDRS[a].2, ADDRS[a].3))]);
            vars.push(var(name, "Var", qualifier_nt(quals[q]), init));
        }
        2 => {
            lx.kw("VAR");
            let quals = ["none", "RETAIN", "NON_RETAIN"];
            let q = ch.pick("qualifier", &quals, 1);
            if q != 0 {
                lx.kw(quals[q]);
            }
            let locs = [("%I*", "I"), ("%Q*", "Q"), ("%M*", "M")];
            let a = ch.num("address", 3, 1);
            lx.id("inp").kw("AT").addr(locs[a].0).p(":");
            const SPECS: [&str; 9] = ["BOOL", "derived", "subrange", "inline-enum", "array", "STRING", "STRING-n", "WSTRING-n", "INT"];
            let t = ch.pick("spec", &SPECS, 1);
            let init = match SPECS[t] {
                "BOOL" => {
                    lx.kw("BOOL");
                    tref("BOOL", NT::Nil)
                }
                "INT" => {
                    lx.kw("INT");
                    tref("INT", NT::Nil)
                }
                "derived" => {
                    lx.id("MyType");
                    tref("MyType", NT::Nil)
                }
                "subrange" => {
                    lx.kw("INT").p("(").num("1").op("..").num("5").p(")");
                    n("InlineSubrange", vec![("base", s("INT")), ("range", range(NT::I(1, false), NT::I(5, false)))])
                }
                "inline-enum" => {
                    lx.p("(").id("A").p(",").id("B").p(")");
                    n("InlineEnum", vec![("values", l(vec![ev(None, "A"), ev(None, "B")])), ("init", NT::Nil)])
                }
                "array" => {
                    lx.kw("ARRAY").p("[").num("1").op("..").num("2").p("]").kw("OF").kw("INT");
                    n("InlineArray", vec![("ranges", l(vec![range(NT::I(1, false), NT::I(2, false))])), ("elem", s("INT")), ("init", l(vec![]))])
                }
                "STRING" => {
                    lx.kw("STRING");
                    tref("STRING", NT::Nil)
                }
                "STRING-n" => {
                    lx.kw("STRING").p("[").num("10").p("]");
                    string_spec("String", NT::I(10, false), NT::Nil)
                }
                "WSTRING-n" => {
                    lx.kw("WSTRING").p("[").num("10").p("]");
                    string_spec("WString", NT::I(10, false), NT::Nil)
                }
                _ => unreachable!(),
            };
            lx.p(";").kw("END_VAR");
            let name = n("Located", vec![("name", s("inp")), ("at", addr(locs[a].1, "Unspecified", &[]))]);
            vars.push(var(name, "Var", qualifier_nt(quals[q]), init));
        }
        _ => {
            lx.kw("VAR_ACCESS").id("acc").p(":");
            let path = ch.pick("path", &["named", "field", "index"], 1);
            let v = match path {
                0 => {
                    lx.id("a");
                    ref_("a")
                }
                1 => {
                    lx.id("p").p(".").id("x");
                    n("Field", vec![("of", ref_("p")), ("field", s("x"))])
                }
                _ => {
                    lx.id("arr").p("[").num("1").p("]");
                    n("Index", vec![("of", ref_("arr")), ("subs", l(vec![int(1)]))])
                }
            };
            lx.p(":").kw("INT");
            let d = ch.pick("direction", &["none", "READ_ONLY", "READ_WRITE"], 1);
            let dir = match d {
                0 => NT::Nil,
                1 => {
                    lx.kw("READ_ONLY");
                    s("ReadOnly")
                }
                _ => {
                    lx.kw("READ_WRITE");
                    s("ReadWrite")
                }
            };
            lx.p(";").kw("END_VAR");
            access.push(n("Access", vec![("name", s("acc")), ("var", v), ("type", s("INT")), ("direction", dir)]));
        }
    }
    lx.id("res").op(":=").num("1").p(";");
    let body = vec![assign(ref_("res"), int(1))];
    if host == 0 {
        pou_close(&mut lx, 1);
        (lx, l(vec![n("Program", vec![("name", s("Host")), ("vars", l(vars)), ("access", l(access)), ("body", stmts_body(body))])]))
    } else {
        pou_close(&mut lx, 0);
        (lx, l(vec![n("FunctionBlock", vec![("name", s("Host")), ("vars", l(vars)), ("edge_vars", l(vec![])), ("body", stmts_body(body))])]))
    }
}

// ---------------------------------------------------------------------------
// POUs

fn g_pou(ch: &mut Chooser) -> (Lx, NT) {
    let kind = ch.pick("pou", &["function", "fb", "program"], 0);
    let mut lx = Lx::new();
    match kind {
        0 => {
            const RET: [&str; 8] = ["INT", "BOOL", "REAL", "TIME", "STRING", "DATE_AND_TIME", "derived", "WORD"];
            let r = ch.pick("returns", &RET, 1);
            lx.kw("FUNCTION").id("Fn").p(":");
            let ret = if RET[r] == "derived" {
                lx.id("MyType");
                "MyType"
            } else {
                lx.kw(RET[r]);
                RET[r]
            };
            let blocks = ch.pick("blocks", &["input", "input+var", "var-constant", "none", "input+output+inout"], 1);
            let mut vars = vec![];
            let iv = |nm: &str, class: &str, q: &str| var(s(nm), class, q, tref("INT", NT::Nil));
            match blocks {
                0 => {
                    lx.words("VAR_INPUT x : INT ; END_VAR");
                    vars.push(iv("x", "Input", "Unspecified"));
                }
                1 => {
                    lx.words("VAR_INPUT x : INT ; END_VAR VAR t : INT ; END_VAR");
                    vars.push(iv("x", "Input", "Unspecified"));
                    vars.push(iv("t", "Var", "Unspecified"));
                }
                2 => {
                    lx.words("VAR_INPUT x : INT ; END_VAR VAR CONSTANT k : INT := 3 ; END_VAR");
                    vars.push(iv("x", "Input", "Unspecified"));
                    vars.push(var(s("k"), "Var", "Constant", tref("INT", int(3))));
                }
                3 => {}
                _ => {
                    lx.words("VAR_INPUT x : INT ; END_VAR VAR_OUTPUT o : INT ; END_VAR VAR_IN_OUT io : INT ; END_VAR");
                    vars.push(iv("x", "Input", "Unspecified"));
                    vars.push(iv("o", "Output", "Unspecified"));
                    vars.push(iv("io", "InOut", "Unspecified"));
                }
            }
            let two = ch.pick("body", &["1", "2"], 1);
            let mut body = vec![];
            lx.id("Fn").op(":=").num("1").p(";");
            body.push(assign(ref_("Fn"), int(1)));
            if two == 1 {
                lx.id("Fn").op(":=").id("Fn").op("+").num("1").p(";");
                body.push(assign(ref_("Fn"), super::expr::bin(&super::expr::OPS[10], ref_("Fn"), int(1))));
            }
            lx.kw("END_FUNCTION");
            (lx, l(vec![n("Function", vec![("name", s("Fn")), ("returns", s(ret)), ("vars", l(vars)), ("edge_vars", l(vec![])), ("body", stmts_body(body))])]))
        }
        _ => {
            let name = if kind == 1 { "Blk" } else { "Prg" };
            lx.kw(if kind == 1 { "FUNCTION_BLOCK" } else { "PROGRAM" }).id(name);
            let v = ch.pick("vars", &["one-block", "none"], 1);
            let mut vars = vec![];
            if v == 0 {
                lx.words("VAR a : INT ; END_VAR");
                vars.push(var(s("a"), "Var", "Unspecified", tref("INT", NT::Nil)));
            }
            let b = ch.pick("body", &["statements", "empty", "only-semicolons"], 1);
            let body = match b {
                0 => {
                    lx.words("a := 1 ;");
                    vec![assign(ref_("a"), int(1))]
                }
                1 => vec![],
                _ => {
                    lx.p(";").p(";");
                    vec![]
                }
            };
            lx.kw(if kind == 1 { "END_FUNCTION_BLOCK" } else { "END_PROGRAM" });
            let nt = if kind == 1 {
                n("FunctionBlock", vec![("name", s(name)), ("vars", l(vars)), ("edge_vars", l(vec![])), ("body", stmts_body(body))])
            } else {
                n("Program", vec![("name", s(name)), ("vars", l(vars)), ("access", l(vec![])), ("body", stmts_body(body))])
            };
            (lx, l(vec![nt]))
        }
    }
}

/// Library shapes: several declarations of different kinds, in every order of three kinds.
fn g_library(ch: &mut Chooser) -> (Lx, NT) {
    let order = ch.num("order", 6, 0);
    let perm = crate::explore::permutations(3)[order].clone();
    let mut lx = Lx::new();
    let mut out = vec![];
    for k in perm {
        match k {
            0 => {
                lx.words("TYPE Level : ( Low , High ) ; END_TYPE");
                out.push(n(
                    "Type.Enum",
                    vec![("name", s("Level")), ("spec", n("Values", vec![("values", l(vec![ev(None, "Low"), ev(None, "High")]))])), ("default", NT::Nil)],
                ));
            }
            1 => {
                lx.words("FUNCTION_BLOCK Blk VAR a : INT ; END_VAR a := 1 ; END_FUNCTION_BLOCK");
                out.push(fb("Blk", vec![var(s("a"), "Var", "Unspecified", tref("INT", NT::Nil))], stmts_body(vec![assign(ref_("a"), int(1))])));
            }
            _ => {
                lx.words("PROGRAM Prg VAR b : INT ; END_VAR b := 2 ; END_PROGRAM");
                out.push(n(
                    "Program",
                    vec![("name", s("Prg")), ("vars", l(vec![var(s("b"), "Var", "Unspecified", tref("INT", NT::Nil))])), ("access", l(vec![])), ("body", stmts_body(vec![assign(ref_("b"), int(2))]))],
                ));
            }
        }
    }
    (lx, l(out))
}

pub fn groups() -> Vec<Group> {
    let mut g = vec![
        Group { name: "type", gen: g_type },
        Group { name: "type.block", gen: g_type_block },
        Group { name: "var.block", gen: g_var_block },
        Group { name: "var.blocks", gen: g_var_blocks },
        Group { name: "var.located", gen: g_var_located },
        Group { name: "pou", gen: g_pou },
        Group { name: "library", gen: g_library },
    ];
    g.extend(super::config::groups());
    g
}
