//! Cardinality family: every list-valued production of the grammar with N elements, N around the sizes at
//! which fixed-width counters, inline buffers and chunked loops end. Each element carries a unique marker
//! name (`Mk0`, `Mk1`, …); the oracle needs no expected tree: the markers found in the parsed library, in
//! traversal order, must be exactly Mk0 … Mk(N-1), each once.

use crate::nt::NT;

pub const SIZES: [usize; 24] = [1, 2, 3, 4, 5, 7, 8, 9, 15, 16, 17, 31, 32, 33, 63, 64, 65, 127, 128, 129, 255, 256, 257, 1000];

pub struct CardCase {
    pub production: &'static str,
    pub n: usize,
    pub text: String,
    /// how many times each marker occurs in the tree (declaration + use …)
    pub occurrences: usize,
}

fn mk(i: usize) -> String {
    format!("Mk{}", i)
}

fn join(n: usize, sep: &str, f: &dyn Fn(usize) -> String) -> String {
    (0..n).map(f).collect::<Vec<_>>().join(sep)
}

pub fn cases() -> Vec<CardCase> {
    let mut out = vec![];
    for &n in SIZES.iter() {
        let mut add = |production: &'static str, text: String, occurrences: usize| out.push(CardCase { production, n, text, occurrences });
        add("enumeration-values", format!("TYPE E : ( {} ) ; END_TYPE", join(n, " , ", &mk)), 1);
        add("structure-elements", format!("TYPE S : STRUCT {} END_STRUCT ; END_TYPE", join(n, " ", &|i| format!("{} : INT ;", mk(i)))), 1);
        add("type-declarations-in-one-block", format!("TYPE {} END_TYPE", join(n, " ", &|i| format!("{} : ( A{} , B{} ) ;", mk(i), i, i))), 1);
        add("type-blocks", join(n, " ", &|i| format!("TYPE {} : ( A{} , B{} ) ; END_TYPE", mk(i), i, i)), 1);
        add("names-in-one-declaration", format!("FUNCTION_BLOCK F VAR {} : INT ; END_VAR END_FUNCTION_BLOCK", join(n, " , ", &mk)), 1);
        add("declarations-in-one-block", format!("FUNCTION_BLOCK F VAR {} END_VAR END_FUNCTION_BLOCK", join(n, " ", &|i| format!("{} : INT ;", mk(i)))), 1);
        add("variable-blocks", format!("FUNCTION_BLOCK F {} END_FUNCTION_BLOCK", join(n, " ", &|i| format!("VAR {} : INT ; END_VAR", mk(i)))), 1);
        add("input-declarations", format!("FUNCTION_BLOCK F VAR_INPUT {} END_VAR END_FUNCTION_BLOCK", join(n, " ", &|i| format!("{} : BOOL ;", mk(i)))), 1);
        add("statements", format!("FUNCTION_BLOCK F VAR x : INT ; END_VAR {} END_FUNCTION_BLOCK", join(n, " ", &|i| format!("{} := {} ;", mk(i), i))), 1);
        add("function-call-arguments", format!("FUNCTION_BLOCK F VAR x : INT ; END_VAR x := Fn ( {} ) ; END_FUNCTION_BLOCK", join(n, " , ", &mk)), 1);
        add("function-call-named-arguments", format!("FUNCTION_BLOCK F VAR x : INT ; END_VAR x := Fn ( {} ) ; END_FUNCTION_BLOCK", join(n, " , ", &|i| format!("{} := {}", mk(i), i))), 1);
        add("instance-call-arguments", format!("FUNCTION_BLOCK F VAR x : INT ; END_VAR inst ( {} ) ; END_FUNCTION_BLOCK", join(n, " , ", &|i| format!("{} := {}", mk(i), i))), 1);
        add("instance-call-outputs", format!("FUNCTION_BLOCK F VAR x : INT ; END_VAR inst ( {} ) ; END_FUNCTION_BLOCK", join(n, " , ", &|i| format!("q{} => {}", i, mk(i)))), 1);
        add("case-elements", format!("FUNCTION_BLOCK F VAR x : INT ; END_VAR CASE x OF {} END_CASE ; END_FUNCTION_BLOCK", join(n, " ", &|i| format!("{} : {} := 1 ;", i, mk(i)))), 1);
        add("case-selector-list", format!("FUNCTION_BLOCK F VAR x : INT ; END_VAR CASE x OF {} : x := 1 ; END_CASE ; END_FUNCTION_BLOCK", join(n, " , ", &|i| format!("{}", i))), 0);
        add("elsif-branches", format!("FUNCTION_BLOCK F VAR x : INT ; END_VAR IF x = 0 THEN x := 1 ; {} END_IF ; END_FUNCTION_BLOCK", join(n, " ", &|i| format!("ELSIF x = {} THEN {} := 1 ;", i + 1, mk(i)))), 1);
        add("subscripts", format!("FUNCTION_BLOCK F VAR x : INT ; END_VAR x := a [ {} ] ; END_FUNCTION_BLOCK", join(n, " , ", &mk)), 1);
        add("array-dimensions", format!("TYPE A : ARRAY [ {} ] OF INT ; END_TYPE", join(n, " , ", &|i| format!("{} .. {}", i, i + 1))), 0);
        add("array-initial-values", format!("FUNCTION_BLOCK F VAR a : ARRAY [ 0 .. {} ] OF INT := [ {} ] ; END_VAR END_FUNCTION_BLOCK", n, join(n, " , ", &|i| format!("{}", i))), 0);
        add("function-blocks", join(n, " ", &|i| format!("FUNCTION_BLOCK {} VAR x : INT ; END_VAR x := 1 ; END_FUNCTION_BLOCK", mk(i))), 1);
        add("functions", join(n, " ", &|i| format!("FUNCTION {} : INT VAR_INPUT a : INT ; END_VAR {} := a ; END_FUNCTION", mk(i), mk(i))), 2);
        add("global-variables", format!("CONFIGURATION c VAR_GLOBAL {} END_VAR RESOURCE r ON PLC PROGRAM p : Main ; END_RESOURCE END_CONFIGURATION", join(n, " ", &|i| format!("{} : INT ;", mk(i)))), 1);
        add("tasks", format!("CONFIGURATION c RESOURCE r ON PLC {} PROGRAM p : Main ; END_RESOURCE END_CONFIGURATION", join(n, " ", &|i| format!("TASK {} ( PRIORITY := 1 ) ;", mk(i)))), 1);
        add("program-configurations", format!("CONFIGURATION c RESOURCE r ON PLC {} END_RESOURCE END_CONFIGURATION", join(n, " ", &|i| format!("PROGRAM {} : Main ;", mk(i)))), 1);
        add("resources", format!("CONFIGURATION c {} END_CONFIGURATION", join(n, " ", &|i| format!("RESOURCE {} ON PLC PROGRAM p : Main ; END_RESOURCE", mk(i)))), 1);
        if n <= 257 {
            add("operands-of-a-sum", format!("FUNCTION_BLOCK F VAR x : INT ; END_VAR x := {} ; END_FUNCTION_BLOCK", join(n, " + ", &mk)), 1);
            add("operands-of-a-conjunction", format!("FUNCTION_BLOCK F VAR x : BOOL ; END_VAR x := {} ; END_FUNCTION_BLOCK", join(n, " AND ", &mk)), 1);
        }
        add("sfc-steps", format!("FUNCTION_BLOCK F INITIAL_STEP s0 : END_STEP {} END_FUNCTION_BLOCK", join(n, " ", &|i| format!("STEP {} : END_STEP", mk(i)))), 1);
        add("sfc-transition-sources", format!("FUNCTION_BLOCK F INITIAL_STEP s0 : END_STEP STEP t0 : END_STEP TRANSITION FROM {} TO t0 := TRUE ; END_TRANSITION END_FUNCTION_BLOCK", if n == 1 { mk(0) } else { format!("( {} )", join(n, " , ", &mk)) }), 1);
    }
    out
}

/// The marker names in the tree, in traversal order.
pub fn markers(t: &NT, out: &mut Vec<usize>) {
    match t {
        NT::N(_, f) => f.iter().for_each(|(_, v)| markers(v, out)),
        NT::L(v) => v.iter().for_each(|x| markers(x, out)),
        NT::S(s) => {
            let l = s.to_ascii_lowercase();
            if let Some(rest) = l.strip_prefix("mk") {
                if let Ok(i) = rest.parse::<usize>() {
                    out.push(i);
                }
            }
        }
        _ => {}
    }
}

/// Number of elements of the longest list in the tree (for productions whose elements carry no marker).
pub fn longest_list(t: &NT) -> usize {
    match t {
        NT::N(_, f) => f.iter().map(|(_, v)| longest_list(v)).max().unwrap_or(0),
        NT::L(v) => v.len().max(v.iter().map(longest_list).max().unwrap_or(0)),
        _ => 0,
    }
}

/// None = every element is carried once (or `occurrences` times) and in order.
pub fn judge(c: &CardCase, tree: &NT) -> Option<(String, String)> {
    if c.occurrences == 0 {
        let l = longest_list(tree);
        return if l == c.n || (c.production == "array-initial-values" && l == c.n) { None } else { Some(("count".into(), format!("{} elements written, the longest list of the library has {}", c.n, l))) };
    }
    let mut m = vec![];
    markers(tree, &mut m);
    let mut count = vec![0usize; c.n];
    for &i in &m {
        if i < c.n {
            count[i] += 1;
        }
    }
    if let Some(i) = (0..c.n).find(|i| count[*i] < c.occurrences) {
        return Some(("element-lost".into(), format!("element {} of {} occurs {} time(s) in the library instead of {}", i, c.n, count[i], c.occurrences)));
    }
    if let Some(i) = (0..c.n).find(|i| count[*i] > c.occurrences) {
        return Some(("element-duplicated".into(), format!("element {} of {} occurs {} times in the library instead of {}", i, c.n, count[i], c.occurrences)));
    }
    // first occurrences in order
    let mut firsts = vec![];
    let mut seen = vec![false; c.n];
    for &i in &m {
        if i < c.n && !seen[i] {
            seen[i] = true;
            firsts.push(i);
        }
    }
    if firsts.windows(2).any(|w| w[0] > w[1]) {
        let k = firsts.windows(2).position(|w| w[0] > w[1]).unwrap();
        return Some(("order".into(), format!("element {} comes before element {} in the library", firsts[k], firsts[k + 1])));
    }
    None
}
