//! CONFIGURATION / RESOURCE / TASK / program configuration / VAR_CONFIG and SFC networks.

use super::expr::{bin, OPS};
use super::*;

fn ev(t: Option<&str>, v: &str) -> NT {
    n("EV", vec![("type", t.map(s).unwrap_or(NT::Nil)), ("v", s(v))])
}
fn addr(loc: &str, size: &str, path: &[u128]) -> NT {
    n("Addr", vec![("loc", s(loc)), ("size", s(size)), ("path", l(path.iter().map(|x| NT::I(*x, false)).collect()))])
}
fn gref(res: Option<&str>, name: &str, elem: Option<&str>) -> NT {
    n("GlobalRef", vec![("resource", res.map(s).unwrap_or(NT::Nil)), ("name", s(name)), ("element", elem.map(s).unwrap_or(NT::Nil))])
}

fn g_config(ch: &mut Chooser) -> (Lx, NT) {
    let mut lx = Lx::new();
    lx.kw("CONFIGURATION").id("cfg");
    // configuration globals
    let g = ch.pick("globals", &["none", "one", "CONSTANT", "RETAIN", "two-names", "located", "init", "fb-type"], 1);
    let gv = |nm: NT, q: &str, init: NT| var(nm, "Global", q, init);
    let mut globals = vec![];
    match g {
        0 => {}
        1 => {
            lx.words("VAR_GLOBAL G : INT ; END_VAR");
            globals.push(gv(s("G"), "Unspecified", tref("INT", NT::Nil)));
        }
        2 => {
            lx.words("VAR_GLOBAL CONSTANT G : INT := 1 ; END_VAR");
            globals.push(gv(s("G"), "Constant", tref("INT", int(1))));
        }
        3 => {
            lx.words("VAR_GLOBAL RETAIN G : INT ; END_VAR");
            globals.push(gv(s("G"), "Retain", tref("INT", NT::Nil)));
        }
        4 => {
            lx.words("VAR_GLOBAL G , H : INT ; K : BOOL ; END_VAR");
            globals.push(gv(s("G"), "Unspecified", tref("INT", NT::Nil)));
            globals.push(gv(s("H"), "Unspecified", tref("INT", NT::Nil)));
            globals.push(gv(s("K"), "Unspecified", tref("BOOL", NT::Nil)));
        }
        5 => {
            lx.kw("VAR_GLOBAL").id("G").kw("AT").addr("%QX1").p(":").kw("BOOL").p(";").kw("END_VAR");
            globals.push(gv(n("Located", vec![("name", s("G")), ("at", addr("Q", "X", &[1]))]), "Unspecified", tref("BOOL", NT::Nil)));
        }
        6 => {
            lx.words("VAR_GLOBAL G : INT := 5 ; END_VAR");
            globals.push(gv(s("G"), "Unspecified", tref("INT", int(5))));
        }
        _ => {
            lx.words("VAR_GLOBAL G : Callee ; END_VAR");
            globals.push(gv(s("G"), "Unspecified", tref("Callee", NT::Nil)));
        }
    }
    lx.kw("RESOURCE").id("res").kw("ON").id("PLC");
    let rg = ch.pick("resource-globals", &["none", "one"], 1);
    let mut rglobals = vec![];
    if rg == 1 {
        lx.words("VAR_GLOBAL RG : INT ; END_VAR");
        rglobals.push(gv(s("RG"), "Unspecified", tref("INT", NT::Nil)));
    }
    // tasks
    let t = ch.pick("tasks", &["interval", "none", "priority-only", "two", "interval-fraction", "priority-0"], 1);
    let task = |name: &str, prio: u128, interval: NT| n("Task", vec![("name", s(name)), ("priority", NT::I(prio, false)), ("interval", interval)]);
    let mut tasks = vec![];
    match t {
        0 => {
            lx.kw("TASK").id("tsk").p("(").id("INTERVAL").op(":=").lit(&["T", "#", "100", "ms"]).p(",").id("PRIORITY").op(":=").num("1").p(")").p(";");
            tasks.push(task("tsk", 1, NT::D(100_000_000)));
        }
        1 => {}
        2 => {
            lx.kw("TASK").id("tsk").p("(").id("PRIORITY").op(":=").num("2").p(")").p(";");
            tasks.push(task("tsk", 2, NT::Nil));
        }
        3 => {
            lx.kw("TASK").id("tsk").p("(").id("INTERVAL").op(":=").lit(&["T", "#", "1", "s"]).p(",").id("PRIORITY").op(":=").num("1").p(")").p(";");
            lx.kw("TASK").id("tsk2").p("(").id("PRIORITY").op(":=").num("3").p(")").p(";");
            tasks.push(task("tsk", 1, NT::D(1_000_000_000)));
            tasks.push(task("tsk2", 3, NT::Nil));
        }
        4 => {
            lx.kw("TASK").id("tsk").p("(").id("INTERVAL").op(":=").lit(&["TIME", "#", "1.5", "s"]).p(",").id("PRIORITY").op(":=").num("1").p(")").p(";");
            tasks.push(task("tsk", 1, NT::D(1_500_000_000)));
        }
        _ => {
            lx.kw("TASK").id("tsk").p("(").id("PRIORITY").op(":=").num("0").p(")").p(";");
            tasks.push(task("tsk", 0, NT::Nil));
        }
    }
    let has_task = !tasks.is_empty();
    // program configurations
    let p = ch.pick("programs", &["with-task", "without-task", "RETAIN", "NON_RETAIN", "two"], 1);
    let e = ch.pick(
        "elements",
        &[
            "none", "fb-task", "const-source", "enum-source", "typed-enum-source", "global-source", "resource-global-source", "global-field-source", "direct-source", "global-sink",
            "direct-sink", "two", "field-dst", "source+sink+fbtask",
        ],
        1,
    );
    let mut programs = vec![];
    let mut one = |lx: &mut Lx, name: &str, storage: Option<&str>, with: bool, elements: usize| {
        lx.kw("PROGRAM");
        if let Some(q) = storage {
            lx.kw(q);
        }
        lx.id(name);
        if with {
            lx.kw("WITH").id("tsk");
        }
        lx.p(":").id("Main");
        let mut fb_tasks = vec![];
        let mut sources = vec![];
        let mut sinks = vec![];
        let src = |dst: NT, v: NT| n("Source", vec![("dst", dst), ("src", v)]);
        let snk = |srcv: NT, dst: NT| n("Sink", vec![("src", srcv), ("dst", dst)]);
        if elements != 0 {
            lx.p("(");
            match elements {
                1 => {
                    lx.id("fb1").kw("WITH").id("tsk");
                    fb_tasks.push(n("FbTask", vec![("fb", s("fb1")), ("task", s("tsk"))]));
                }
                2 => {
                    lx.id("a").op(":=").num("1");
                    sources.push(src(ref_("a"), int(1)));
                }
                3 => {
                    lx.id("a").op(":=").id("Low");
                    // a bare identifier is a global variable reference or an enumerated value; IEC lists
                    // prog_data_source := constant | enumerated_value | global_var_reference | direct_variable
                    sources.push(src(ref_("a"), ev(None, "Low")));
                }
                4 => {
                    lx.id("a").op(":=").push(Lexeme::new("Level", Class::Ident).hard()).push(Lexeme::new("#", Class::Punct).hard()).id("Low");
                    sources.push(src(ref_("a"), ev(Some("Level"), "Low")));
                }
                5 => {
                    lx.id("a").op(":=").id("G");
                    sources.push(src(ref_("a"), ev(None, "G")));
                }
                6 => {
                    lx.id("a").op(":=").id("res").p(".").id("RG");
                    sources.push(src(ref_("a"), gref(Some("res"), "RG", None)));
                }
                7 => {
                    lx.id("a").op(":=").id("res").p(".").id("RG").p(".").id("x");
                    sources.push(src(ref_("a"), gref(Some("res"), "RG", Some("x"))));
                }
                8 => {
                    lx.id("a").op(":=").addr("%IX1");
                    sources.push(src(ref_("a"), n("Direct", vec![("at", addr("I", "X", &[1]))])));
                }
                9 => {
                    lx.id("q").op("=>").id("G");
                    sinks.push(snk(ref_("q"), gref(None, "G", None)));
                }
                10 => {
                    lx.id("q").op("=>").addr("%QX1");
                    sinks.push(snk(ref_("q"), n("Direct", vec![("at", addr("Q", "X", &[1]))])));
                }
                11 => {
                    lx.id("a").op(":=").num("1").p(",").id("b").op(":=").num("2");
                    sources.push(src(ref_("a"), int(1)));
                    sources.push(src(ref_("b"), int(2)));
                }
                12 => {
                    lx.id("p").p(".").id("x").op(":=").num("1");
                    sources.push(src(n("Field", vec![("of", ref_("p")), ("field", s("x"))]), int(1)));
                }
                _ => {
                    lx.id("a").op(":=").num("1").p(",").id("q").op("=>").id("G").p(",").id("fb1").kw("WITH").id("tsk");
                    sources.push(src(ref_("a"), int(1)));
                    sinks.push(snk(ref_("q"), gref(None, "G", None)));
                    fb_tasks.push(n("FbTask", vec![("fb", s("fb1")), ("task", s("tsk"))]));
                }
            }
            lx.p(")");
        }
        lx.p(";");
        n(
            "ProgramConf",
            vec![
                ("name", s(name)),
                ("storage", storage.map(|q| s(if q == "RETAIN" { "Retain" } else { "NonRetain" })).unwrap_or(NT::Nil)),
                ("task", if with { s("tsk") } else { NT::Nil }),
                ("type", s("Main")),
                ("fb_tasks", l(fb_tasks)),
                ("sources", l(sources)),
                ("sinks", l(sinks)),
            ],
        )
    };
    match p {
        0 => programs.push(one(&mut lx, "p1", None, has_task, e)),
        1 => programs.push(one(&mut lx, "p1", None, false, e)),
        2 => programs.push(one(&mut lx, "p1", Some("RETAIN"), has_task, e)),
        3 => programs.push(one(&mut lx, "p1", Some("NON_RETAIN"), has_task, e)),
        _ => {
            programs.push(one(&mut lx, "p1", None, has_task, e));
            programs.push(one(&mut lx, "p2", None, false, 0));
        }
    }
    lx.kw("END_RESOURCE");
    // VAR_CONFIG
    let vc = ch.pick("var-config", &["none", "located-at", "located-no-at", "fb-init", "located-init", "two", "deep-path"], 1);
    let mut fb_inits = vec![];
    let mut located = vec![];
    let path = |v: &[&str]| l(v.iter().map(|x| s(x)).collect());
    match vc {
        0 => {}
        1 => {
            lx.kw("VAR_CONFIG").id("res").p(".").id("p1").p(".").id("inp").kw("AT").addr("%IX1").p(":").kw("BOOL").p(";").kw("END_VAR");
            located.push(n("LocatedInit", vec![("path", path(&["res", "p1", "inp"])), ("at", addr("I", "X", &[1])), ("init", tref("BOOL", NT::Nil))]));
        }
        2 => {
            lx.kw("VAR_CONFIG").id("res").p(".").id("p1").p(".").id("inp").p(":").kw("INT").p(";").kw("END_VAR");
            located.push(n("LocatedInit", vec![("path", path(&["res", "p1", "inp"])), ("at", NT::Nil), ("init", tref("INT", NT::Nil))]));
        }
        3 => {
            lx.kw("VAR_CONFIG").id("res").p(".").id("p1").p(".").id("inst").p(":").id("Callee").op(":=").p("(").id("a").op(":=").num("1").p(")").p(";").kw("END_VAR");
            fb_inits.push(n(
                "FbInit",
                vec![("path", path(&["res", "p1", "inst"])), ("type", s("Callee")), ("init", l(vec![n("FieldInit", vec![("name", s("a")), ("v", int(1))])]))],
            ));
        }
        4 => {
            lx.kw("VAR_CONFIG").id("res").p(".").id("p1").p(".").id("inp").kw("AT").addr("%IW2").p(":").kw("INT").op(":=").num("7").p(";").kw("END_VAR");
            located.push(n("LocatedInit", vec![("path", path(&["res", "p1", "inp"])), ("at", addr("I", "W", &[2])), ("init", tref("INT", int(7)))]));
        }
        5 => {
            lx.kw("VAR_CONFIG").id("res").p(".").id("p1").p(".").id("inp").kw("AT").addr("%IX1").p(":").kw("BOOL").p(";");
            lx.id("res").p(".").id("p1").p(".").id("inst").p(":").id("Callee").op(":=").p("(").id("a").op(":=").num("1").p(")").p(";").kw("END_VAR");
            located.push(n("LocatedInit", vec![("path", path(&["res", "p1", "inp"])), ("at", addr("I", "X", &[1])), ("init", tref("BOOL", NT::Nil))]));
            fb_inits.push(n(
                "FbInit",
                vec![("path", path(&["res", "p1", "inst"])), ("type", s("Callee")), ("init", l(vec![n("FieldInit", vec![("name", s("a")), ("v", int(1))])]))],
            ));
        }
        _ => {
            lx.kw("VAR_CONFIG").id("res").p(".").id("p1").p(".").id("outer").p(".").id("inner").p(".").id("inp").kw("AT").addr("%IX1").p(":").kw("BOOL").p(";").kw("END_VAR");
            located.push(n("LocatedInit", vec![("path", path(&["res", "p1", "outer", "inner", "inp"])), ("at", addr("I", "X", &[1])), ("init", tref("BOOL", NT::Nil))]));
        }
    }
    lx.kw("END_CONFIGURATION");
    let nt = n(
        "Configuration",
        vec![
            ("name", s("cfg")),
            ("globals", l(globals)),
            (
                "resources",
                l(vec![n("Resource", vec![("name", s("res")), ("on", s("PLC")), ("globals", l(rglobals)), ("tasks", l(tasks)), ("programs", l(programs))])]),
            ),
            ("fb_inits", l(fb_inits)),
            ("located_inits", l(located)),
        ],
    );
    (lx, l(vec![nt]))
}

// ---------------------------------------------------------------------------
// SFC

fn g_sfc(ch: &mut Chooser) -> (Lx, NT) {
    let host = ch.pick("host", &["FB", "PROGRAM"], 0);
    let mut lx = Lx::new();
    lx.kw(if host == 0 { "FUNCTION_BLOCK" } else { "PROGRAM" }).id("Chart");
    lx.words("VAR a : INT ; b : BOOL ; END_VAR");
    let vars = vec![var(s("a"), "Var", "Unspecified", tref("INT", NT::Nil)), var(s("b"), "Var", "Unspecified", tref("BOOL", NT::Nil))];
    let assoc = |name: &str, q: NT, ind: Vec<&str>| n("Assoc", vec![("name", s(name)), ("qualifier", q), ("indicators", l(ind.iter().map(|x| s(x)).collect()))]);
    let qual = |q: &str, t: NT| n("Qualifier", vec![("q", s(q)), ("time", t)]);
    // initial step
    let ia = ch.pick("initial-assocs", &["none", "one", "two"], 1);
    lx.kw("INITIAL_STEP").id("Start").p(":");
    let mut init_assocs = vec![];
    if ia >= 1 {
        lx.id("act1").p("(").id("N").p(")").p(";");
        init_assocs.push(assoc("act1", qual("N", NT::Nil), vec![]));
    }
    if ia == 2 {
        lx.id("act2").p("(").id("S").p(")").p(";");
        init_assocs.push(assoc("act2", qual("S", NT::Nil), vec![]));
    }
    lx.kw("END_STEP");
    let mut elements = vec![];
    // steps
    let st = ch.pick("steps", &["one", "none", "two"], 1);
    let sa = ch.pick("step-assocs", &["one", "none", "two"], 1);
    // IEC table 45 / B.1.6: N R S P P0 P1 without time; L D SD DS SL with a time
    const QUALS: [&str; 14] = ["N", "none", "R", "S", "P", "P1", "P0", "L", "D", "SD", "DS", "SL", "SD-var", "L-var"];
    let q = ch.pick("qualifier", &QUALS, 1);
    let ind = ch.pick("indicators", &["0", "1", "2"], 1);
    let nsteps = [1, 0, 2][st];
    for i in 0..nsteps {
        let name = format!("Step{}", i + 1);
        lx.kw("STEP").id(&name).p(":");
        let mut assocs = vec![];
        let na = if i == 0 { [1, 0, 2][sa] } else { 1 };
        for j in 0..na {
            let an = format!("act{}", j + 1);
            lx.id(&an).p("(");
            let qnt = if i == 0 && j == 0 {
                match QUALS[q] {
                    "none" => NT::Nil,
                    "N" | "R" | "S" | "P" | "P1" | "P0" => {
                        lx.id(QUALS[q]);
                        qual(QUALS[q], NT::Nil)
                    }
                    "L" | "D" | "SD" | "DS" | "SL" => {
                        lx.id(QUALS[q]).p(",").lit(&["T", "#", "1", "s"]);
                        qual(QUALS[q], n("Dur", vec![("ns", NT::D(1_000_000_000))]))
                    }
                    "SD-var" => {
                        lx.id("SD").p(",").id("delay");
                        qual("SD", ref_("delay"))
                    }
                    "L-var" => {
                        lx.id("L").p(",").id("delay");
                        qual("L", ref_("delay"))
                    }
                    _ => unreachable!(),
                }
            } else {
                lx.id("N");
                qual("N", NT::Nil)
            };
            let mut inds = vec![];
            if i == 0 && j == 0 {
                if ind >= 1 {
                    lx.p(",").id("b");
                    inds.push("b");
                }
                if ind == 2 {
                    lx.p(",").id("c");
                    inds.push("c");
                }
            }
            lx.p(")").p(";");
            assocs.push(assoc(&an, qnt, inds));
        }
        lx.kw("END_STEP");
        elements.push(n("Step", vec![("name", s(&name)), ("assocs", l(assocs))]));
    }
    // transitions
    let tr = ch.pick("transitions", &["one", "none", "two"], 1);
    const TF: [&str; 8] = ["plain", "named", "priority", "named-priority", "from-2", "to-2", "from-3", "to-3"];
    let tf = ch.pick("transition-form", &TF, 1);
    let tc = ch.pick("condition", &["variable", "expression", "literal"], 1);
    let ntr = [1, 0, 2][tr];
    for i in 0..ntr {
        lx.kw("TRANSITION");
        let mut name = NT::Nil;
        let mut prio = NT::Nil;
        let form = if i == 0 { TF[tf] } else { "plain" };
        if form == "named" || form == "named-priority" {
            lx.id("tr1");
            name = s("tr1");
        }
        if form == "priority" || form == "named-priority" {
            lx.p("(").id("PRIORITY").op(":=").num("2").p(")");
            prio = NT::I(2, false);
        }
        lx.kw("FROM");
        let from: Vec<&str> = match form {
            "from-2" => vec!["Start", "Step1"],
            "from-3" => vec!["Start", "Step1", "Step2"],
            _ => vec!["Start"],
        };
        let steps = |lx: &mut Lx, v: &Vec<&str>| {
            if v.len() == 1 {
                lx.id(v[0]);
            } else {
                lx.p("(");
                for (k, x) in v.iter().enumerate() {
                    if k > 0 {
                        lx.p(",");
                    }
                    lx.id(x);
                }
                lx.p(")");
            }
        };
        steps(&mut lx, &from);
        lx.kw("TO");
        let to: Vec<&str> = match form {
            "to-2" => vec!["Step1", "Start"],
            "to-3" => vec!["Step1", "Step2", "Start"],
            _ => vec!["Step1"],
        };
        steps(&mut lx, &to);
        lx.op(":=");
        let cond = if i == 0 {
            match tc {
                0 => {
                    lx.id("b");
                    ref_("b")
                }
                1 => {
                    lx.id("a").op(">").num("1").kw("AND").id("b");
                    bin(&OPS[2], bin(&OPS[7], ref_("a"), int(1)), ref_("b"))
                }
                _ => {
                    lx.kw("TRUE");
                    n("Bool", vec![("v", NT::B(true))])
                }
            }
        } else {
            lx.id("b");
            ref_("b")
        };
        lx.p(";").kw("END_TRANSITION");
        elements.push(n(
            "Transition",
            vec![("name", name), ("priority", prio), ("from", l(from.iter().map(|x| s(x)).collect())), ("to", l(to.iter().map(|x| s(x)).collect())), ("cond", cond)],
        ));
    }
    // actions
    let ac = ch.pick("actions", &["one", "none", "two"], 1);
    let ab = ch.pick("action-body", &["one-statement", "empty", "two-statements"], 1);
    let nac = [1, 0, 2][ac];
    for i in 0..nac {
        let an = format!("act{}", i + 1);
        lx.kw("ACTION").id(&an).p(":");
        let mut body = vec![];
        let nb = if i == 0 { [1, 0, 2][ab] } else { 1 };
        for j in 0..nb {
            lx.id("a").op(":=").num(&format!("{}", j + 1)).p(";");
            body.push(assign(ref_("a"), int(j as u128 + 1)));
        }
        lx.kw("END_ACTION");
        elements.push(n("Action", vec![("name", s(&an)), ("body", stmts_body(body))]));
    }
    lx.kw(if host == 0 { "END_FUNCTION_BLOCK" } else { "END_PROGRAM" });
    let sfc = n(
        "Sfc",
        vec![("networks", l(vec![n("Network", vec![("initial", n("Step", vec![("name", s("Start")), ("assocs", l(init_assocs))])), ("elements", l(elements))])]))],
    );
    let nt = if host == 0 {
        n("FunctionBlock", vec![("name", s("Chart")), ("vars", l(vars)), ("edge_vars", l(vec![])), ("body", sfc)])
    } else {
        n("Program", vec![("name", s("Chart")), ("vars", l(vars)), ("access", l(vec![])), ("body", sfc)])
    };
    (lx, l(vec![nt]))
}

pub fn groups() -> Vec<Group> {
    vec![Group { name: "config", gen: g_config }, Group { name: "sfc", gen: g_sfc }]
}
