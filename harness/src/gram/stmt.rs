//! Statements: every statement form with its options, and nesting shapes.

use super::expr::{bin, OPS};
use super::*;

fn cmp_gt(a: &str, v: u128) -> NT {
    bin(&OPS[7], ref_(a), int(v))
}

/// A leaf statement `name := value;`
fn leaf(lx: &mut Lx, name: &str, v: u128) -> NT {
    lx.id(name).op(":=").num(&v.to_string()).p(";");
    assign(ref_(name), int(v))
}

fn if_(cond: NT, then: Vec<NT>, elsifs: Vec<(NT, Vec<NT>)>, else_: Vec<NT>) -> NT {
    n(
        "If",
        vec![
            ("cond", cond),
            ("then", l(then)),
            ("elsifs", l(elsifs.into_iter().map(|(c, b)| n("ElsIf", vec![("cond", c), ("body", l(b))])).collect())),
            ("else", l(else_)),
        ],
    )
}

fn ev(t: Option<&str>, v: &str) -> NT {
    n("EV", vec![("type", t.map(s).unwrap_or(NT::Nil)), ("v", s(v))])
}

/// One statement of the chosen kind with its options. `semi` says whether the terminating `;` is written.
pub fn statement(ch: &mut Chooser, lx: &mut Lx, kind_cost: u32) -> NT {
    const KINDS: [&str; 10] = ["assign", "fbcall", "if", "case", "for", "while", "repeat", "return", "exit", "empty"];
    let k = ch.pick("stmt", &KINDS, kind_cost);
    match KINDS[k] {
        "assign" => {
            const T: [&str; 7] = ["named", "field", "field2", "index", "index2", "index-field", "direct"];
            let t = ch.pick("target", &T, 1);
            let target = match T[t] {
                "named" => {
                    lx.id("a");
                    ref_("a")
                }
                "field" => {
                    lx.id("p").p(".").id("x");
                    n("Field", vec![("of", ref_("p")), ("field", s("x"))])
                }
                "field2" => {
                    lx.id("p").p(".").id("q").p(".").id("x");
                    n("Field", vec![("of", n("Field", vec![("of", ref_("p")), ("field", s("q"))])), ("field", s("x"))])
                }
                "index" => {
                    lx.id("arr").p("[").num("1").p("]");
                    n("Index", vec![("of", ref_("arr")), ("subs", l(vec![int(1)]))])
                }
                "index2" => {
                    lx.id("arr").p("[").num("1").p(",").num("2").p("]");
                    n("Index", vec![("of", ref_("arr")), ("subs", l(vec![int(1), int(2)]))])
                }
                "index-field" => {
                    lx.id("arr").p("[").id("b").p("]").p(".").id("x");
                    n("Field", vec![("of", n("Index", vec![("of", ref_("arr")), ("subs", l(vec![ref_("b")]))])), ("field", s("x"))])
                }
                "direct" => {
                    lx.addr("%QX1");
                    n("Direct", vec![("at", n("Addr", vec![("loc", s("Q")), ("size", s("X")), ("path", l(vec![NT::I(1, false)]))]))])
                }
                _ => unreachable!(),
            };
            lx.op(":=").id("b").op("+").num("1").p(";");
            assign(target, bin(&OPS[10], ref_("b"), int(1)))
        }
        "fbcall" => {
            const F: [&str; 10] = ["no-args", "formal-1", "formal-2", "positional-1", "positional-2", "output", "not-output", "formal+output", "output-to-field", "formal-expr"];
            let f = ch.pick("call", &F, 1);
            lx.id("inst").p("(");
            let named = |nm: &str, e: NT| n("Named", vec![("name", s(nm)), ("e", e)]);
            let pos = |e: NT| n("Pos", vec![("e", e)]);
            let out = |not: bool, src: &str, tgt: NT| n("Out", vec![("not", NT::B(not)), ("src", s(src)), ("tgt", tgt)]);
            let args = match F[f] {
                "no-args" => vec![],
                "formal-1" => {
                    lx.id("x").op(":=").id("a");
                    vec![named("x", ref_("a"))]
                }
                "formal-2" => {
                    lx.id("x").op(":=").id("a").p(",").id("y").op(":=").num("2");
                    vec![named("x", ref_("a")), named("y", int(2))]
                }
                "positional-1" => {
                    lx.id("a");
                    vec![pos(ref_("a"))]
                }
                "positional-2" => {
                    lx.id("a").p(",").num("2");
                    vec![pos(ref_("a")), pos(int(2))]
                }
                "output" => {
                    lx.id("q").op("=>").id("b");
                    vec![out(false, "q", ref_("b"))]
                }
                "not-output" => {
                    lx.kw("NOT").id("q").op("=>").id("b");
                    vec![out(true, "q", ref_("b"))]
                }
                "formal+output" => {
                    lx.id("x").op(":=").id("a").p(",").id("q").op("=>").id("b");
                    vec![named("x", ref_("a")), out(false, "q", ref_("b"))]
                }
                "output-to-field" => {
                    lx.id("q").op("=>").id("p").p(".").id("x");
                    vec![out(false, "q", n("Field", vec![("of", ref_("p")), ("field", s("x"))]))]
                }
                "formal-expr" => {
                    lx.id("x").op(":=").id("a").op("+").num("1");
                    vec![named("x", bin(&OPS[10], ref_("a"), int(1)))]
                }
                _ => unreachable!(),
            };
            lx.p(")").p(";");
            n("FbCall", vec![("name", s("inst")), ("args", l(args))])
        }
        "if" => {
            const F: [&str; 7] = ["plain", "else", "elsif", "elsif-else", "two-elsif", "empty-then", "two-statements"];
            let f = ch.pick("if", &F, 1);
            lx.kw("IF").id("a").op(">").num("1").kw("THEN");
            let mut then = vec![];
            if F[f] != "empty-then" {
                then.push(leaf(lx, "b", 1));
            }
            if F[f] == "two-statements" {
                then.push(leaf(lx, "c", 2));
            }
            let mut elsifs = vec![];
            if matches!(F[f], "elsif" | "elsif-else" | "two-elsif") {
                lx.kw("ELSIF").id("a").op(">").num("2").kw("THEN");
                elsifs.push((cmp_gt("a", 2), vec![leaf(lx, "b", 2)]));
            }
            if F[f] == "two-elsif" {
                lx.kw("ELSIF").id("a").op(">").num("3").kw("THEN");
                elsifs.push((cmp_gt("a", 3), vec![leaf(lx, "b", 3)]));
            }
            let mut else_ = vec![];
            if matches!(F[f], "else" | "elsif-else") {
                lx.kw("ELSE");
                else_.push(leaf(lx, "b", 9));
            }
            lx.kw("END_IF").p(";");
            if_(cmp_gt("a", 1), then, elsifs, else_)
        }
        "case" => {
            const F: [&str; 9] = ["one-arm", "two-arms", "else", "list", "subrange", "negative", "enum", "typed-enum", "mixed-list"];
            let f = ch.pick("case", &F, 1);
            lx.kw("CASE").id("a").kw("OF");
            let mut groups = vec![];
            let mut group = |lx: &mut Lx, sels: Vec<NT>, name: &str, v: u128| {
                lx.p(":");
                let b = leaf(lx, name, v);
                n("Group", vec![("sels", l(sels)), ("body", l(vec![b]))])
            };
            match F[f] {
                "one-arm" | "two-arms" | "else" => {
                    lx.num("1");
                    groups.push(group(lx, vec![NT::I(1, false)], "b", 1));
                    if F[f] == "two-arms" {
                        lx.num("2");
                        groups.push(group(lx, vec![NT::I(2, false)], "b", 2));
                    }
                }
                "list" => {
                    lx.num("1").p(",").num("2").p(",").num("3");
                    groups.push(group(lx, vec![NT::I(1, false), NT::I(2, false), NT::I(3, false)], "b", 1));
                }
                "subrange" => {
                    lx.num("1").op("..").num("5");
                    groups.push(group(lx, vec![n("Range", vec![("lo", NT::I(1, false)), ("hi", NT::I(5, false))])], "b", 1));
                }
                "negative" => {
                    lx.lit(&["-", "1"]);
                    groups.push(group(lx, vec![NT::I(1, true)], "b", 1));
                }
                "enum" => {
                    lx.id("Low");
                    groups.push(group(lx, vec![ev(None, "Low")], "b", 1));
                    lx.id("High");
                    groups.push(group(lx, vec![ev(None, "High")], "b", 2));
                }
                "typed-enum" => {
                    lx.push(Lexeme::new("Level", Class::Ident).hard()).push(Lexeme::new("#", Class::Punct).hard()).id("Low");
                    groups.push(group(lx, vec![ev(Some("Level"), "Low")], "b", 1));
                }
                "mixed-list" => {
                    lx.num("1").p(",").num("3").op("..").num("5").p(",").lit(&["-", "2"]);
                    groups.push(group(
                        lx,
                        vec![NT::I(1, false), n("Range", vec![("lo", NT::I(3, false)), ("hi", NT::I(5, false))]), NT::I(2, true)],
                        "b",
                        1,
                    ));
                }
                _ => unreachable!(),
            }
            let mut else_ = vec![];
            if F[f] == "else" {
                lx.kw("ELSE");
                else_.push(leaf(lx, "b", 9));
            }
            lx.kw("END_CASE").p(";");
            n("Case", vec![("sel", ref_("a")), ("groups", l(groups)), ("else", l(else_))])
        }
        "for" => {
            let by = ch.pick("for", &["plain", "by", "expr-bounds"], 1);
            lx.kw("FOR").id("i").op(":=");
            let (from, to) = if by == 2 {
                lx.id("a").op("+").num("1").kw("TO").id("b").op("*").num("2");
                (bin(&OPS[10], ref_("a"), int(1)), bin(&OPS[12], ref_("b"), int(2)))
            } else {
                lx.num("1").kw("TO").num("10");
                (int(1), int(10))
            };
            let step = if by == 1 {
                lx.kw("BY").num("2");
                int(2)
            } else {
                NT::Nil
            };
            lx.kw("DO");
            let b = leaf(lx, "b", 1);
            lx.kw("END_FOR").p(";");
            n("For", vec![("ctrl", s("i")), ("from", from), ("to", to), ("by", step), ("body", l(vec![b]))])
        }
        "while" => {
            lx.kw("WHILE").id("a").op(">").num("1").kw("DO");
            let b = leaf(lx, "b", 1);
            lx.kw("END_WHILE").p(";");
            n("While", vec![("cond", cmp_gt("a", 1)), ("body", l(vec![b]))])
        }
        "repeat" => {
            lx.kw("REPEAT");
            let b = leaf(lx, "b", 1);
            lx.kw("UNTIL").id("a").op(">").num("1").kw("END_REPEAT").p(";");
            n("Repeat", vec![("body", l(vec![b])), ("until", cmp_gt("a", 1))])
        }
        "return" => {
            lx.kw("RETURN").p(";");
            n("Return", vec![])
        }
        "exit" => {
            lx.kw("EXIT").p(";");
            n("Exit", vec![])
        }
        "empty" => {
            // an empty statement between two assignments: `;` denotes nothing
            lx.p(";");
            NT::Nil
        }
        _ => unreachable!(),
    }
}

fn g_stmt(ch: &mut Chooser) -> (Lx, NT) {
    // position among neighbours (cost 0): alone, after another statement, before another statement
    let place = ch.pick("place", &["alone", "second", "first"], 0);
    let mut body = Lx::new();
    let mut list = vec![];
    if place == 1 {
        list.push(leaf(&mut body, "c", 7));
    }
    let st = statement(ch, &mut body, 0);
    if st != NT::Nil {
        list.push(st);
    }
    if place == 2 {
        list.push(leaf(&mut body, "d", 8));
    }
    if list.is_empty() {
        // a body that consists of an empty statement only
        list = vec![];
    }
    host_fb(&body, list)
}

/// Containers: every statement-list slot of IF / CASE / FOR / WHILE / REPEAT.
const SLOTS: [&str; 9] = ["if-then", "elsif-body", "if-else", "case-arm", "case-else", "for-body", "while-body", "repeat-body", "if-then-of-elsif-form"];

/// Wraps `inner` (already generated lexemes + trees) into the given slot.
fn wrap(slot: &str, inner_lx: &Lx, inner: Vec<NT>, lx: &mut Lx) -> NT {
    match slot {
        "if-then" => {
            lx.kw("IF").id("a").op(">").num("1").kw("THEN");
            lx.extend(inner_lx);
            lx.kw("END_IF").p(";");
            if_(cmp_gt("a", 1), inner, vec![], vec![])
        }
        "if-then-of-elsif-form" => {
            lx.kw("IF").id("a").op(">").num("1").kw("THEN");
            lx.extend(inner_lx);
            lx.kw("ELSIF").id("a").op(">").num("2").kw("THEN");
            let e = leaf(lx, "d", 2);
            lx.kw("ELSE");
            let f = leaf(lx, "d", 3);
            lx.kw("END_IF").p(";");
            if_(cmp_gt("a", 1), inner, vec![(cmp_gt("a", 2), vec![e])], vec![f])
        }
        "elsif-body" => {
            lx.kw("IF").id("a").op(">").num("1").kw("THEN");
            let t = leaf(lx, "d", 1);
            lx.kw("ELSIF").id("a").op(">").num("2").kw("THEN");
            lx.extend(inner_lx);
            lx.kw("END_IF").p(";");
            if_(cmp_gt("a", 1), vec![t], vec![(cmp_gt("a", 2), inner)], vec![])
        }
        "if-else" => {
            lx.kw("IF").id("a").op(">").num("1").kw("THEN");
            let t = leaf(lx, "d", 1);
            lx.kw("ELSE");
            lx.extend(inner_lx);
            lx.kw("END_IF").p(";");
            if_(cmp_gt("a", 1), vec![t], vec![], inner)
        }
        "case-arm" => {
            lx.kw("CASE").id("a").kw("OF").num("1").p(":");
            lx.extend(inner_lx);
            lx.kw("END_CASE").p(";");
            n("Case", vec![("sel", ref_("a")), ("groups", l(vec![n("Group", vec![("sels", l(vec![NT::I(1, false)])), ("body", l(inner))])])), ("else", l(vec![]))])
        }
        "case-else" => {
            lx.kw("CASE").id("a").kw("OF").num("1").p(":");
            let t = leaf(lx, "d", 1);
            lx.kw("ELSE");
            lx.extend(inner_lx);
            lx.kw("END_CASE").p(";");
            n("Case", vec![("sel", ref_("a")), ("groups", l(vec![n("Group", vec![("sels", l(vec![NT::I(1, false)])), ("body", l(vec![t]))])])), ("else", l(inner))])
        }
        "for-body" => {
            lx.kw("FOR").id("i").op(":=").num("1").kw("TO").num("3").kw("DO");
            lx.extend(inner_lx);
            lx.kw("END_FOR").p(";");
            n("For", vec![("ctrl", s("i")), ("from", int(1)), ("to", int(3)), ("by", NT::Nil), ("body", l(inner))])
        }
        "while-body" => {
            lx.kw("WHILE").id("a").op(">").num("1").kw("DO");
            lx.extend(inner_lx);
            lx.kw("END_WHILE").p(";");
            n("While", vec![("cond", cmp_gt("a", 1)), ("body", l(inner))])
        }
        "repeat-body" => {
            lx.kw("REPEAT");
            lx.extend(inner_lx);
            lx.kw("UNTIL").id("a").op(">").num("1").kw("END_REPEAT").p(";");
            n("Repeat", vec![("body", l(inner)), ("until", cmp_gt("a", 1))])
        }
        _ => unreachable!(),
    }
}

/// A statement of every kind inside every slot (slot and kind both cost 0: the full product).
fn g_nest(ch: &mut Chooser) -> (Lx, NT) {
    let slot = ch.pick("slot", &SLOTS, 0);
    let followed = ch.pick("followed", &["no", "yes"], 0);
    let mut inner_lx = Lx::new();
    let mut inner = vec![];
    let st = statement(ch, &mut inner_lx, 0);
    if st != NT::Nil {
        inner.push(st);
    }
    if followed == 1 {
        inner.push(leaf(&mut inner_lx, "c", 5));
    }
    let mut body = Lx::new();
    let w = wrap(SLOTS[slot], &inner_lx, inner, &mut body);
    host_fb(&body, vec![w])
}

/// A container inside a container (every ordered pair of slots) around a leaf or a chosen statement.
fn g_nest2(ch: &mut Chooser) -> (Lx, NT) {
    let outer = ch.pick("outer", &SLOTS, 0);
    let inner_slot = ch.pick("inner", &SLOTS, 0);
    let mut leaf_lx = Lx::new();
    let mut leaf_nt = vec![];
    let st = statement(ch, &mut leaf_lx, 1);
    if st != NT::Nil {
        leaf_nt.push(st);
    }
    let mut mid = Lx::new();
    let w1 = wrap(SLOTS[inner_slot], &leaf_lx, leaf_nt, &mut mid);
    // a sibling after the inner container, to see that the outer list continues correctly
    let sib = leaf(&mut mid, "c", 6);
    let mut body = Lx::new();
    let w2 = wrap(SLOTS[outer], &mid, vec![w1, sib], &mut body);
    host_fb(&body, vec![w2])
}

pub fn groups() -> Vec<Group> {
    vec![Group { name: "stmt", gen: g_stmt }, Group { name: "stmt.nest", gen: g_nest }, Group { name: "stmt.nest2", gen: g_nest2 }]
}
