//! Reference grammar (IEC 61131-3 Annex B, the subset the parser has rules for).
//! Every generator returns the lexemes of a construct together with the neutral tree it denotes;
//! nothing here calls the parser.

pub mod expr;
pub mod stmt;
pub mod decl;
pub mod config;
pub mod card;

use crate::explore::{explore, Chooser};
use crate::lex::*;
use crate::nt::*;

/// One generated program.
#[derive(Clone, Debug)]
pub struct Case {
    pub group: &'static str,
    /// non-default choices (case identity)
    pub labels: Vec<String>,
    pub lx: Lx,
    /// expected library
    pub nt: NT,
}

impl Case {
    pub fn id(&self) -> String {
        if self.labels.is_empty() {
            format!("{}/default", self.group)
        } else {
            format!("{}/{}", self.group, self.labels.join(","))
        }
    }
    pub fn text(&self) -> String {
        spell(&self.lx.v).text
    }
}

/// Lexemes + tree under construction.
pub struct Out {
    pub lx: Lx,
}

impl Out {
    pub fn new() -> Out {
        Out { lx: Lx::new() }
    }
    pub fn w(&mut self, words: &str) -> &mut Out {
        self.lx.words(words);
        self
    }
}

pub type Gen = fn(&mut Chooser) -> (Lx, NT);

pub struct Group {
    pub name: &'static str,
    pub gen: Gen,
}

pub fn groups() -> Vec<Group> {
    let mut g = vec![];
    g.extend(expr::groups());
    g.extend(stmt::groups());
    g.extend(decl::groups());
    g
}

/// All cases of all groups with at most `bound` costly deviations per group.
/// Looks a case up by its id in the spaces of deviation bound 2 and, failing that, 3 (replays).
pub fn find_case(id: &str) -> Option<Case> {
    for b in [2, 3] {
        if let Some(c) = generate(b).into_iter().find(|c| c.id() == id) {
            return Some(c);
        }
    }
    None
}

pub fn generate(bound: u32) -> Vec<Case> {
    let mut out = vec![];
    for g in groups() {
        explore(bound, |ch| {
            let (lx, nt) = (g.gen)(ch);
            out.push(Case { group: g.name, labels: ch.labels.clone(), lx, nt });
        });
    }
    // table-driven families (cost-0 enumerations that do not go through the chooser)
    out.extend(expr::tables());
    out
}

// ---- shared helpers -------------------------------------------------------

pub fn ref_(name: &str) -> NT {
    n("Ref", vec![("name", s(name))])
}
pub fn int(v: u128) -> NT {
    n("Int", vec![("v", NT::I(v, false)), ("type", NT::Nil)])
}
pub fn int_neg(v: u128) -> NT {
    n("Int", vec![("v", NT::I(v, true)), ("type", NT::Nil)])
}
pub fn tref(t: &str, init: NT) -> NT {
    n("Ref", vec![("type", s(t)), ("init", init)])
}
pub fn var(name: NT, class: &str, qualifier: &str, init: NT) -> NT {
    n("Var", vec![("name", name), ("class", s(class)), ("qualifier", s(qualifier)), ("init", init)])
}
pub fn stmts_body(list: Vec<NT>) -> NT {
    n("Stmts", vec![("list", l(list))])
}
pub fn fb(name: &str, vars: Vec<NT>, body: NT) -> NT {
    n("FunctionBlock", vec![("name", s(name)), ("vars", l(vars)), ("edge_vars", l(vec![])), ("body", body)])
}
pub fn assign(target: NT, value: NT) -> NT {
    n("Assign", vec![("target", target), ("value", value)])
}

/// The standard host: a function block with a few INT variables and one statement list.
/// Returns the lexemes and expected tree of the whole library.
pub fn host_fb(body_lx: &Lx, body_nt: Vec<NT>) -> (Lx, NT) {
    let mut lx = Lx::new();
    lx.words("FUNCTION_BLOCK Host VAR a : INT ; b : INT ; c : INT ; d : INT ; END_VAR");
    lx.extend(body_lx);
    lx.words("END_FUNCTION_BLOCK");
    let vars = ["a", "b", "c", "d"].iter().map(|v| var(s(v), "Var", "Unspecified", tref("INT", NT::Nil))).collect();
    (lx, l(vec![fb("Host", vars, stmts_body(body_nt))]))
}
