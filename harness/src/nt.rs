//! Neutral tree (NT) and the projection π : dsl::Library -> NT.
//!
//! NT holds exactly what C01 says must be preserved: names (original spelling), declaration kinds,
//! variable classes and qualifiers, type references, initial values, statement nesting, expression
//! trees. π erases representation choices of the DSL that are not information loss (see DESIGN.md
//! section 5) and keeps the numeric components of direct addresses, which the DSL's Debug omits.

use ironplc_dsl::common::*;
use ironplc_dsl::configuration::*;
use ironplc_dsl::core::Id;
use ironplc_dsl::sfc::*;
use ironplc_dsl::textual::*;

#[derive(Clone, PartialEq, Debug)]
pub enum NT {
    /// tagged node with named fields
    N(&'static str, Vec<(&'static str, NT)>),
    L(Vec<NT>),
    S(String),
    /// magnitude, negative
    I(u128, bool),
    /// f64 bits
    F(u64),
    /// duration in nanoseconds
    D(i128),
    B(bool),
    Nil,
}

pub fn n(tag: &'static str, fields: Vec<(&'static str, NT)>) -> NT {
    NT::N(tag, fields)
}
pub fn s(x: &str) -> NT {
    NT::S(x.to_string())
}
pub fn l(v: Vec<NT>) -> NT {
    NT::L(v)
}
pub fn opt(o: Option<NT>) -> NT {
    o.unwrap_or(NT::Nil)
}

impl NT {
    pub fn size(&self) -> usize {
        match self {
            NT::N(_, f) => 1 + f.iter().map(|x| x.1.size()).sum::<usize>(),
            NT::L(v) => 1 + v.iter().map(|x| x.size()).sum::<usize>(),
            _ => 1,
        }
    }
    pub fn brief(&self) -> String {
        match self {
            NT::N(t, f) => {
                if f.is_empty() {
                    t.to_string()
                } else {
                    format!("{}{{{}}}", t, f.iter().map(|(k, v)| format!("{}:{}", k, v.brief())).collect::<Vec<_>>().join(","))
                }
            }
            NT::L(v) => format!("[{}]", v.iter().map(|x| x.brief()).collect::<Vec<_>>().join(",")),
            NT::S(x) => format!("{:?}", x),
            NT::I(v, neg) => format!("{}{}", if *neg { "-" } else { "" }, v),
            NT::F(b) => format!("{:?}f", f64::from_bits(*b)),
            NT::D(ns) => format!("{}ns", ns),
            NT::B(b) => b.to_string(),
            NT::Nil => "-".into(),
        }
    }
    /// lower-cases every string (identifier spelling) for case-insensitive comparison
    pub fn fold_case(&self) -> NT {
        match self {
            NT::N(t, f) => NT::N(t, f.iter().map(|(k, v)| (*k, v.fold_case())).collect()),
            NT::L(v) => NT::L(v.iter().map(|x| x.fold_case()).collect()),
            NT::S(x) => NT::S(x.to_lowercase()),
            o => o.clone(),
        }
    }
}

/// Differences between expected and observed trees: (path, signature path with indices erased, description).
pub fn diff(exp: &NT, got: &NT) -> Vec<(String, String, String)> {
    let mut out = vec![];
    diff_rec(exp, got, "", "", &mut out);
    out
}

fn diff_rec(exp: &NT, got: &NT, path: &str, sig: &str, out: &mut Vec<(String, String, String)>) {
    if out.len() > 20 {
        return;
    }
    match (exp, got) {
        (NT::N(te, fe), NT::N(tg, fg)) => {
            if te != tg {
                out.push((path.to_string(), format!("{}:kind", sig), format!("expected node {} got node {}", te, tg)));
                return;
            }
            for (k, ve) in fe {
                match fg.iter().find(|(kg, _)| kg == k) {
                    Some((_, vg)) => diff_rec(ve, vg, &format!("{}.{}.{}", path, te, k), &format!("{}.{}.{}", sig, te, k), out),
                    None => out.push((format!("{}.{}.{}", path, te, k), format!("{}.{}.{}:missing", sig, te, k), "field missing in observed tree".into())),
                }
            }
            for (k, _) in fg {
                if !fe.iter().any(|(ke, _)| ke == k) {
                    out.push((format!("{}.{}.{}", path, te, k), format!("{}.{}.{}:extra", sig, te, k), "field only in observed tree".into()));
                }
            }
        }
        (NT::L(ve), NT::L(vg)) => {
            if ve.len() != vg.len() {
                out.push((path.to_string(), format!("{}:len", sig), format!("expected {} items got {}: expected {} got {}", ve.len(), vg.len(), exp.brief(), got.brief())));
                return;
            }
            for (i, (a, b)) in ve.iter().zip(vg.iter()).enumerate() {
                diff_rec(a, b, &format!("{}[{}]", path, i), &format!("{}[]", sig), out);
            }
        }
        (a, b) => {
            if a != b {
                let kind = match (a, b) {
                    (NT::Nil, _) => "unexpected",
                    (_, NT::Nil) => "lost",
                    _ => "value",
                };
                out.push((path.to_string(), format!("{}:{}", sig, kind), format!("expected {} got {}", a.brief(), b.brief())));
            }
        }
    }
}

// ---------------------------------------------------------------------------
// projection

fn id(i: &Id) -> NT {
    NT::S(i.original.clone())
}
fn ty(t: &Type) -> NT {
    NT::S(t.name.original.clone())
}
fn oid(i: &Option<Id>) -> NT {
    match i {
        Some(i) => id(i),
        None => NT::Nil,
    }
}
fn sint(v: &SignedInteger) -> NT {
    NT::I(v.value.value, v.is_neg && v.value.value != 0 || v.is_neg)
}
fn uint(v: &Integer) -> NT {
    NT::I(v.value, false)
}
fn elem(e: &ElementaryTypeName) -> NT {
    NT::S(e.as_id().original.clone())
}
fn oelem(e: &Option<ElementaryTypeName>) -> NT {
    match e {
        Some(e) => elem(e),
        None => NT::Nil,
    }
}

pub fn addr(a: &AddressAssignment) -> NT {
    n(
        "Addr",
        vec![
            ("loc", s(&format!("{:?}", a.location))),
            ("size", s(&format!("{:?}", a.size))),
            ("path", l(a.address.iter().map(|x| NT::I(*x as u128, false)).collect())),
        ],
    )
}

pub fn constant(c: &ConstantKind) -> NT {
    match c {
        ConstantKind::IntegerLiteral(i) => n("Int", vec![("v", sint(&i.value)), ("type", oelem(&i.data_type))]),
        ConstantKind::RealLiteral(r) => n("Real", vec![("v", NT::F(r.value.to_bits())), ("type", oelem(&r.data_type))]),
        ConstantKind::Boolean(b) => n("Bool", vec![("v", NT::B(b.value == Boolean::True))]),
        ConstantKind::CharacterString(cs) => n("Str", vec![("v", NT::S(cs.value.iter().collect()))]),
        ConstantKind::Duration(d) => n("Dur", vec![("ns", NT::D(d.interval.whole_nanoseconds()))]),
        ConstantKind::TimeOfDay(t) => {
            let (h, m, sec, us) = t.hmsm();
            let mut f = vec![("h", NT::I(h as u128, false)), ("m", NT::I(m as u128, false)), ("s", NT::I(sec as u128, false)), ("us", NT::I(us as u128, false))];
            if EXACT.with(|e| e.get()) {
                f.push(("exact", NT::S(format!("{:?}", t))));
            }
            n("Tod", f)
        }
        ConstantKind::Date(d) => {
            let (y, m, day) = d.ymd();
            let mut f = vec![("y", NT::I(y.unsigned_abs() as u128, y < 0)), ("m", NT::I(m as u128, false)), ("d", NT::I(day as u128, false))];
            if EXACT.with(|e| e.get()) {
                f.push(("exact", NT::S(format!("{:?}", d))));
            }
            n("Date", f)
        }
        ConstantKind::DateAndTime(dt) => {
            let (y, mo, day) = dt.ymd();
            let (h, m, sec, us) = dt.hmsm();
            let mut f = vec![
                ("y", NT::I(y.unsigned_abs() as u128, y < 0)),
                ("mo", NT::I(mo as u128, false)),
                ("d", NT::I(day as u128, false)),
                ("h", NT::I(h as u128, false)),
                ("m", NT::I(m as u128, false)),
                ("s", NT::I(sec as u128, false)),
                ("us", NT::I(us as u128, false)),
            ];
            if EXACT.with(|e| e.get()) {
                f.push(("exact", NT::S(format!("{:?}", dt))));
            }
            n("Dt", f)
        }
        ConstantKind::BitStringLiteral(b) => n("Bits", vec![("v", uint(&b.value)), ("type", oelem(&b.data_type))]),
    }
}

pub fn enum_value(e: &EnumeratedValue) -> NT {
    n("EV", vec![("type", e.type_name.as_ref().map(ty).unwrap_or(NT::Nil)), ("v", id(&e.value))])
}

fn subrange(r: &Subrange) -> NT {
    n("Range", vec![("lo", sint(&r.start)), ("hi", sint(&r.end))])
}

fn array_init_elem(e: &ArrayInitialElementKind) -> NT {
    match e {
        ArrayInitialElementKind::Constant(c) => constant(c),
        ArrayInitialElementKind::EnumValue(v) => enum_value(v),
        ArrayInitialElementKind::Repeated(r) => n(
            "Repeat",
            vec![("n", uint(&r.size)), ("of", match r.init.as_ref() { Some(x) => array_init_elem(x), None => NT::Nil })],
        ),
    }
}

fn struct_elem_init(e: &StructureElementInit) -> NT {
    n(
        "FieldInit",
        vec![
            ("name", id(&e.name)),
            (
                "v",
                match &e.init {
                    StructInitialValueAssignmentKind::Constant(c) => constant(c),
                    StructInitialValueAssignmentKind::EnumeratedValue(v) => enum_value(v),
                    StructInitialValueAssignmentKind::Array(a) => n("ArrayInit", vec![("items", l(a.iter().map(array_init_elem).collect()))]),
                    StructInitialValueAssignmentKind::Structure(st) => n("StructInit", vec![("fields", l(st.iter().map(struct_elem_init).collect()))]),
                },
            ),
        ],
    )
}

fn array_spec(sp: &ArraySpecificationKind) -> (NT, NT) {
    match sp {
        ArraySpecificationKind::Type(t) => (NT::Nil, ty(t)),
        ArraySpecificationKind::Subranges(sr) => (l(sr.ranges.iter().map(subrange).collect()), ty(&sr.type_name)),
    }
}

fn subrange_spec(sp: &SubrangeSpecificationKind) -> NT {
    match sp {
        SubrangeSpecificationKind::Specification(x) => n("InlineSubrange", vec![("base", elem(&x.type_name)), ("range", subrange(&x.subrange))]),
        SubrangeSpecificationKind::Type(t) => n("Ref", vec![("type", ty(t)), ("init", NT::Nil)]),
    }
}

/// Initial value assignment, with representation choices erased.
pub fn init(i: &InitialValueAssignmentKind) -> NT {
    let r = |t: NT, v: NT| n("Ref", vec![("type", t), ("init", v)]);
    match i {
        InitialValueAssignmentKind::None(_) => NT::Nil,
        InitialValueAssignmentKind::Simple(x) => r(ty(&x.type_name), x.initial_value.as_ref().map(constant).unwrap_or(NT::Nil)),
        InitialValueAssignmentKind::LateResolvedType(t) => r(ty(t), NT::Nil),
        InitialValueAssignmentKind::EnumeratedType(e) => r(ty(&e.type_name), e.initial_value.as_ref().map(enum_value).unwrap_or(NT::Nil)),
        InitialValueAssignmentKind::FunctionBlock(f) => r(
            ty(&f.type_name),
            if f.init.is_empty() { NT::Nil } else { n("StructInit", vec![("fields", l(f.init.iter().map(struct_elem_init).collect()))]) },
        ),
        InitialValueAssignmentKind::Structure(st) => r(
            ty(&st.type_name),
            if st.elements_init.is_empty() { NT::Nil } else { n("StructInit", vec![("fields", l(st.elements_init.iter().map(struct_elem_init).collect()))]) },
        ),
        // `s : STRING` without length and initial value is the plain elementary type
        InitialValueAssignmentKind::String(st) if st.length.is_none() => r(
            s(if st.width == StringType::String { "STRING" } else { "WSTRING" }),
            st.initial_value.as_ref().map(|v| n("Str", vec![("v", NT::S(v.iter().collect()))])).unwrap_or(NT::Nil),
        ),
        InitialValueAssignmentKind::String(st) => n(
            "StringSpec",
            vec![
                ("width", s(&format!("{:?}", st.width))),
                ("length", st.length.as_ref().map(uint).unwrap_or(NT::Nil)),
                ("init", st.initial_value.as_ref().map(|v| NT::S(v.iter().collect())).unwrap_or(NT::Nil)),
            ],
        ),
        InitialValueAssignmentKind::EnumeratedValues(e) => n(
            "InlineEnum",
            vec![("values", l(e.values.iter().map(enum_value).collect())), ("init", e.initial_value.as_ref().map(enum_value).unwrap_or(NT::Nil))],
        ),
        InitialValueAssignmentKind::Subrange(sp) => subrange_spec(sp),
        InitialValueAssignmentKind::Array(a) => {
            let (ranges, el) = array_spec(&a.spec);
            n("InlineArray", vec![("ranges", ranges), ("elem", el), ("init", l(a.initial_values.iter().map(array_init_elem).collect()))])
        }
    }
}

fn var_decl(v: &VarDecl) -> NT {
    let name = match &v.identifier {
        VariableIdentifier::Symbol(i) => id(i),
        VariableIdentifier::Direct(d) => n("Located", vec![("name", oid(&d.name)), ("at", addr(&d.address_assignment))]),
    };
    n(
        "Var",
        vec![("name", name), ("class", s(&format!("{:?}", v.var_type))), ("qualifier", s(&format!("{:?}", v.qualifier))), ("init", init(&v.initializer))],
    )
}

fn edge_var(v: &EdgeVarDecl) -> NT {
    n("EdgeVar", vec![("name", id(&v.identifier)), ("edge", s(&format!("{:?}", v.direction))), ("qualifier", s(&format!("{:?}", v.qualifier)))])
}

pub fn symbolic(v: &SymbolicVariableKind) -> NT {
    match v {
        SymbolicVariableKind::Named(x) => n("Ref", vec![("name", id(&x.name))]),
        SymbolicVariableKind::Array(a) => n("Index", vec![("of", symbolic(&a.subscripted_variable)), ("subs", l(a.subscripts.iter().map(expr).collect()))]),
        SymbolicVariableKind::Structured(st) => n("Field", vec![("of", symbolic(&st.record)), ("field", id(&st.field))]),
    }
}

pub fn variable(v: &Variable) -> NT {
    match v {
        Variable::Direct(a) => n("Direct", vec![("at", addr(a))]),
        Variable::Symbolic(x) => symbolic(x),
    }
}

fn param(p: &ParamAssignmentKind) -> NT {
    match p {
        ParamAssignmentKind::PositionalInput(x) => n("Pos", vec![("e", expr(&x.expr))]),
        ParamAssignmentKind::NamedInput(x) => n("Named", vec![("name", id(&x.name)), ("e", expr(&x.expr))]),
        ParamAssignmentKind::Output(o) => n("Out", vec![("not", NT::B(o.not)), ("src", id(&o.src)), ("tgt", variable(&o.tgt))]),
    }
}

pub fn expr(e: &ExprKind) -> NT {
    match e {
        ExprKind::Compare(c) => n("Bin", vec![("op", s(&format!("{:?}", c.op).to_uppercase())), ("l", expr(&c.left)), ("r", expr(&c.right))]),
        ExprKind::BinaryOp(b) => n("Bin", vec![("op", s(&format!("{:?}", b.op).to_uppercase())), ("l", expr(&b.left)), ("r", expr(&b.right))]),
        ExprKind::UnaryOp(u) => {
            let inner = expr(&u.term);
            // `-1` as unary minus on a literal and as a signed literal are the same source text
            if u.op == UnaryOp::Neg {
                if let NT::N("Int", f) = &inner {
                    if let Some((_, NT::I(v, false))) = f.iter().find(|(k, _)| *k == "v") {
                        let mut f2 = f.clone();
                        for (k, val) in f2.iter_mut() {
                            if *k == "v" {
                                *val = NT::I(*v, true);
                            }
                        }
                        return NT::N("Int", f2);
                    }
                }
                if let NT::N("Real", f) = &inner {
                    if let Some((_, NT::F(bits))) = f.iter().find(|(k, _)| *k == "v") {
                        let x = f64::from_bits(*bits);
                        if x.is_sign_positive() {
                            let mut f2 = f.clone();
                            for (k, val) in f2.iter_mut() {
                                if *k == "v" {
                                    *val = NT::F((-x).to_bits());
                                }
                            }
                            return NT::N("Real", f2);
                        }
                    }
                }
            }
            n("Un", vec![("op", s(&format!("{:?}", u.op).to_uppercase())), ("e", inner)])
        }
        ExprKind::Expression(x) => expr(x),
        ExprKind::Const(c) => constant(c),
        ExprKind::EnumeratedValue(v) => enum_value(v),
        ExprKind::Variable(v) => variable(v),
        ExprKind::Function(f) => n("Call", vec![("name", id(&f.name)), ("args", l(f.param_assignment.iter().map(param).collect()))]),
        ExprKind::LateBound(lb) => n("Ref", vec![("name", id(&lb.name))]),
    }
}

fn case_sel(c: &CaseSelectionKind) -> NT {
    match c {
        CaseSelectionKind::Subrange(r) => subrange(r),
        CaseSelectionKind::SignedInteger(i) => sint(i),
        CaseSelectionKind::EnumeratedValue(v) => enum_value(v),
    }
}

pub fn stmts(v: &[StmtKind]) -> NT {
    l(v.iter().map(stmt).collect())
}

pub fn stmt(st: &StmtKind) -> NT {
    match st {
        StmtKind::Assignment(a) => n("Assign", vec![("target", variable(&a.target)), ("value", expr(&a.value))]),
        StmtKind::FbCall(f) => n("FbCall", vec![("name", id(&f.var_name)), ("args", l(f.params.iter().map(param).collect()))]),
        StmtKind::If(i) => n(
            "If",
            vec![
                ("cond", expr(&i.expr)),
                ("then", stmts(&i.body)),
                ("elsifs", l(i.else_ifs.iter().map(|e| n("ElsIf", vec![("cond", expr(&e.expr)), ("body", stmts(&e.body))])).collect())),
                ("else", stmts(&i.else_body)),
            ],
        ),
        StmtKind::Case(c) => n(
            "Case",
            vec![
                ("sel", expr(&c.selector)),
                ("groups", l(c.statement_groups.iter().map(|g| n("Group", vec![("sels", l(g.selectors.iter().map(case_sel).collect())), ("body", stmts(&g.statements))])).collect())),
                ("else", stmts(&c.else_body)),
            ],
        ),
        StmtKind::For(f) => n(
            "For",
            vec![("ctrl", id(&f.control)), ("from", expr(&f.from)), ("to", expr(&f.to)), ("by", f.step.as_ref().map(expr).unwrap_or(NT::Nil)), ("body", stmts(&f.body))],
        ),
        StmtKind::While(w) => n("While", vec![("cond", expr(&w.condition)), ("body", stmts(&w.body))]),
        StmtKind::Repeat(r) => n("Repeat", vec![("body", stmts(&r.body)), ("until", expr(&r.until))]),
        StmtKind::Return => n("Return", vec![]),
        StmtKind::Exit => n("Exit", vec![]),
    }
}

fn action_time(t: &ActionTimeKind) -> NT {
    match t {
        ActionTimeKind::Duration(d) => n("Dur", vec![("ns", NT::D(d.interval.whole_nanoseconds()))]),
        ActionTimeKind::VariableName(v) => n("Ref", vec![("name", id(v))]),
    }
}

fn qualifier(q: &ActionQualifier) -> NT {
    let (name, t) = match q {
        ActionQualifier::N => ("N", None),
        ActionQualifier::R => ("R", None),
        ActionQualifier::S => ("S", None),
        ActionQualifier::L => ("L", None),
        ActionQualifier::D => ("D", None),
        ActionQualifier::P => ("P", None),
        ActionQualifier::SD(t) => ("SD", Some(t)),
        ActionQualifier::DS(t) => ("DS", Some(t)),
        ActionQualifier::SL(t) => ("SL", Some(t)),
        ActionQualifier::PR(t) => ("P1", Some(t)),
        ActionQualifier::PF(t) => ("P0", Some(t)),
    };
    n("Qualifier", vec![("q", s(name)), ("time", t.map(action_time).unwrap_or(NT::Nil))])
}

fn step(st: &Step) -> NT {
    n(
        "Step",
        vec![
            ("name", id(&st.name)),
            (
                "assocs",
                l(st.action_associations
                    .iter()
                    .map(|a| n("Assoc", vec![("name", id(&a.name)), ("qualifier", a.qualifier.as_ref().map(qualifier).unwrap_or(NT::Nil)), ("indicators", l(a.indicators.iter().map(id).collect()))]))
                    .collect()),
            ),
        ],
    )
}

pub fn body(b: &FunctionBlockBodyKind) -> NT {
    match b {
        FunctionBlockBodyKind::Empty => n("Stmts", vec![("list", l(vec![]))]),
        FunctionBlockBodyKind::Statements(st) => n("Stmts", vec![("list", stmts(&st.body))]),
        FunctionBlockBodyKind::Sfc(sfc) => n(
            "Sfc",
            vec![(
                "networks",
                l(sfc
                    .networks
                    .iter()
                    .map(|nw| {
                        n(
                            "Network",
                            vec![
                                ("initial", step(&nw.initial_step)),
                                (
                                    "elements",
                                    l(nw.elements
                                        .iter()
                                        .map(|e| match e {
                                            ElementKind::Step(st) => step(st),
                                            ElementKind::Transition(t) => n(
                                                "Transition",
                                                vec![
                                                    ("name", oid(&t.name)),
                                                    ("priority", t.priority.map(|p| NT::I(p as u128, false)).unwrap_or(NT::Nil)),
                                                    ("from", l(t.from.iter().map(id).collect())),
                                                    ("to", l(t.to.iter().map(id).collect())),
                                                    ("cond", expr(&t.condition)),
                                                ],
                                            ),
                                            ElementKind::Action(a) => n("Action", vec![("name", id(&a.name)), ("body", body(&a.body))]),
                                        })
                                        .collect()),
                                ),
                            ],
                        )
                    })
                    .collect()),
            )],
        ),
    }
}

fn data_type(d: &DataTypeDeclarationKind) -> NT {
    match d {
        DataTypeDeclarationKind::Enumeration(e) => n(
            "Type.Enum",
            vec![
                ("name", ty(&e.type_name)),
                (
                    "spec",
                    match &e.spec_init.spec {
                        EnumeratedSpecificationKind::TypeName(t) => n("Base", vec![("type", ty(t))]),
                        EnumeratedSpecificationKind::Values(v) => n("Values", vec![("values", l(v.values.iter().map(enum_value).collect()))]),
                    },
                ),
                ("default", e.spec_init.default.as_ref().map(enum_value).unwrap_or(NT::Nil)),
            ],
        ),
        DataTypeDeclarationKind::Subrange(sr) => n(
            "Type.Subrange",
            vec![("name", ty(&sr.type_name)), ("spec", subrange_spec(&sr.spec)), ("default", sr.default.as_ref().map(sint).unwrap_or(NT::Nil))],
        ),
        DataTypeDeclarationKind::Simple(sd) => n("Type.Simple", vec![("name", ty(&sd.type_name)), ("init", init(&sd.spec_and_init))]),
        DataTypeDeclarationKind::Array(a) => {
            let (ranges, el) = array_spec(&a.spec);
            n("Type.Array", vec![("name", ty(&a.type_name)), ("ranges", ranges), ("elem", el), ("init", l(a.init.iter().map(array_init_elem).collect()))])
        }
        DataTypeDeclarationKind::Structure(st) => n(
            "Type.Struct",
            vec![
                ("name", ty(&st.type_name)),
                ("elements", l(st.elements.iter().map(|e| n("Element", vec![("name", id(&e.name)), ("init", init(&e.init))])).collect())),
            ],
        ),
        DataTypeDeclarationKind::StructureInitialization(si) => n(
            "Type.Simple",
            vec![
                ("name", ty(&si.type_name)),
                // `A : B := (x := 1)`: the DSL stores the declared name where the base type should be
                // (see parser.rs "there is something off with having two type names"); π reports what is there
                ("init", n("Ref", vec![("type", NT::Nil), ("init", n("StructInit", vec![("fields", l(si.elements_init.iter().map(struct_elem_init).collect()))]))])),
            ],
        ),
        DataTypeDeclarationKind::String(sd) => n(
            "Type.String",
            vec![
                ("name", ty(&sd.type_name)),
                ("width", s(&format!("{:?}", sd.width))),
                ("length", uint(&sd.length)),
                ("init", sd.init.as_ref().map(|x| NT::S(x.clone())).unwrap_or(NT::Nil)),
            ],
        ),
        // `A : B` — simple, enumerated or structure without initial value
        DataTypeDeclarationKind::LateBound(lb) => n("Type.Simple", vec![("name", ty(&lb.data_type_name)), ("init", n("Ref", vec![("type", ty(&lb.base_type_name)), ("init", NT::Nil)]))]),
    }
}

fn global_ref(g: &GlobalVarReference) -> NT {
    n("GlobalRef", vec![("resource", oid(&g.resource_name)), ("name", id(&g.global_var_name)), ("element", oid(&g.structure_element_name))])
}

fn configuration(c: &ConfigurationDeclaration) -> NT {
    n(
        "Configuration",
        vec![
            ("name", id(&c.name)),
            ("globals", l(c.global_var.iter().map(var_decl).collect())),
            (
                "resources",
                l(c.resource_decl
                    .iter()
                    .map(|r| {
                        n(
                            "Resource",
                            vec![
                                ("name", id(&r.name)),
                                ("on", id(&r.resource)),
                                ("globals", l(r.global_vars.iter().map(var_decl).collect())),
                                (
                                    "tasks",
                                    l(r.tasks
                                        .iter()
                                        .map(|t| {
                                            n(
                                                "Task",
                                                vec![
                                                    ("name", id(&t.name)),
                                                    ("priority", NT::I(t.priority as u128, false)),
                                                    ("interval", t.interval.as_ref().map(|d| NT::D(d.interval.whole_nanoseconds())).unwrap_or(NT::Nil)),
                                                ],
                                            )
                                        })
                                        .collect()),
                                ),
                                (
                                    "programs",
                                    l(r.programs
                                        .iter()
                                        .map(|p| {
                                            n(
                                                "ProgramConf",
                                                vec![
                                                    ("name", id(&p.name)),
                                                    ("storage", p.storage.as_ref().map(|q| s(&format!("{:?}", q))).unwrap_or(NT::Nil)),
                                                    ("task", oid(&p.task_name)),
                                                    ("type", id(&p.type_name)),
                                                    ("fb_tasks", l(p.fb_tasks.iter().map(|f| n("FbTask", vec![("fb", id(&f.fb_name)), ("task", id(&f.task_name))])).collect())),
                                                    (
                                                        "sources",
                                                        l(p.sources
                                                            .iter()
                                                            .map(|src| {
                                                                n(
                                                                    "Source",
                                                                    vec![
                                                                        ("dst", symbolic(&src.dst)),
                                                                        (
                                                                            "src",
                                                                            match &src.src {
                                                                                ProgramConnectionSourceKind::Constant(c) => constant(c),
                                                                                ProgramConnectionSourceKind::EnumeratedValue(v) => enum_value(v),
                                                                                ProgramConnectionSourceKind::GlobalVarReference(g) => global_ref(g),
                                                                                ProgramConnectionSourceKind::DirectVariable(a) => n("Direct", vec![("at", addr(a))]),
                                                                            },
                                                                        ),
                                                                    ],
                                                                )
                                                            })
                                                            .collect()),
                                                    ),
                                                    (
                                                        "sinks",
                                                        l(p.sinks
                                                            .iter()
                                                            .map(|snk| {
                                                                n(
                                                                    "Sink",
                                                                    vec![
                                                                        ("src", symbolic(&snk.src)),
                                                                        (
                                                                            "dst",
                                                                            match &snk.dst {
                                                                                ProgramConnectionSinkKind::GlobalVarReference(g) => global_ref(g),
                                                                                ProgramConnectionSinkKind::DirectVariable(a) => n("Direct", vec![("at", addr(a))]),
                                                                            },
                                                                        ),
                                                                    ],
                                                                )
                                                            })
                                                            .collect()),
                                                    ),
                                                ],
                                            )
                                        })
                                        .collect()),
                                ),
                            ],
                        )
                    })
                    .collect()),
            ),
            (
                "fb_inits",
                l(c.fb_inits
                    .iter()
                    .map(|f| {
                        // the instance path as written: resource.program.a.b — the last component is the instance name
                        let mut path: Vec<NT> = vec![id(&f.resource_name), id(&f.program_name)];
                        path.extend(f.fb_path.iter().map(id));
                        if !f.fb_name.original.is_empty() {
                            path.push(id(&f.fb_name));
                        }
                        n("FbInit", vec![("path", l(path)), ("type", ty(&f.type_name)), ("init", l(f.initializer.iter().map(struct_elem_init).collect()))])
                    })
                    .collect()),
            ),
            (
                "located_inits",
                l(c.located_var_inits
                    .iter()
                    .map(|f| {
                        let mut path: Vec<NT> = vec![id(&f.resource_name), id(&f.program_name)];
                        path.extend(f.fb_path.iter().map(id));
                        n("LocatedInit", vec![("path", l(path)), ("at", f.address.as_ref().map(addr).unwrap_or(NT::Nil)), ("init", init(&f.initializer))])
                    })
                    .collect()),
            ),
        ],
    )
}

pub fn element(e: &LibraryElementKind) -> NT {
    match e {
        LibraryElementKind::DataTypeDeclaration(d) => data_type(d),
        LibraryElementKind::FunctionDeclaration(f) => n(
            "Function",
            vec![
                ("name", id(&f.name)),
                ("returns", ty(&f.return_type)),
                ("vars", l(f.variables.iter().map(var_decl).collect())),
                ("edge_vars", l(f.edge_variables.iter().map(edge_var).collect())),
                ("body", n("Stmts", vec![("list", stmts(&f.body))])),
            ],
        ),
        LibraryElementKind::FunctionBlockDeclaration(f) => n(
            "FunctionBlock",
            vec![
                ("name", id(&f.name)),
                ("vars", l(f.variables.iter().map(var_decl).collect())),
                ("edge_vars", l(f.edge_variables.iter().map(edge_var).collect())),
                ("body", body(&f.body)),
            ],
        ),
        LibraryElementKind::ProgramDeclaration(p) => n(
            "Program",
            vec![
                ("name", id(&p.name)),
                ("vars", l(p.variables.iter().map(var_decl).collect())),
                (
                    "access",
                    l(p.access_variables
                        .iter()
                        .map(|a| {
                            n(
                                "Access",
                                vec![
                                    ("name", id(&a.access_name)),
                                    ("var", symbolic(&a.symbolic_variable)),
                                    ("type", ty(&a.type_name)),
                                    ("direction", a.direction.as_ref().map(|d| s(&format!("{:?}", d))).unwrap_or(NT::Nil)),
                                ],
                            )
                        })
                        .collect()),
                ),
                ("body", body(&p.body)),
            ],
        ),
        LibraryElementKind::ConfigurationDeclaration(c) => configuration(c),
    }
}

pub fn library(lib: &Library) -> NT {
    l(lib.elements.iter().map(element).collect())
}

thread_local! {
    static EXACT: std::cell::Cell<bool> = const { std::cell::Cell::new(false) };
}

/// Like `library`, with every time-of-day / date-and-time literal carrying its complete Debug rendering
/// as well: their fields are private and the only accessors are the ones the renderer uses, so a tree
/// built through the accessors alone cannot see what the accessors lose. Used to compare two libraries
/// of the implementation with each other (C10), never against a harness-built tree.
pub fn library_exact(lib: &Library) -> NT {
    EXACT.with(|e| e.set(true));
    let r = library(lib);
    EXACT.with(|e| e.set(false));
    r
}
