//! Lexeme programs: generators never build strings directly, they build a list
//! of lexemes; text, position tables, respellings and trivia insertion are
//! operations on that list.

#[derive(Clone, Copy, PartialEq, Eq, Debug, Hash, PartialOrd, Ord)]
pub enum Class {
    Keyword,
    Ident,
    /// digits, based integers, reals (one lexer token)
    Number,
    /// quoted character string
    Str,
    Op,
    Punct,
    Addr,
    /// a piece of a literal that is not a number: `T`, `ms`, `D`, … (hard-glued to its neighbours)
    LitPart,
    // trivia (only in spelled programs)
    Comment,
    Ws,
    Nl,
}

#[derive(Clone, Copy, PartialEq, Eq, Debug, Hash)]
pub enum Glue {
    /// inside one lexical unit: nothing may ever be inserted
    Hard,
    /// conventionally tight: canonical text has nothing here, trivia is legal
    Soft,
    /// canonical text has one blank here
    Blank,
}

#[derive(Clone, Debug, PartialEq, Eq)]
pub struct Lexeme {
    pub text: String,
    pub class: Class,
    /// overrides the computed gap to the next lexeme
    pub glue: Option<Glue>,
    /// free-form role used by checks (e.g. "decl:x", "use:x", "fault")
    pub role: String,
}

impl Lexeme {
    pub fn new(text: &str, class: Class) -> Lexeme {
        Lexeme {
            text: text.to_string(),
            class,
            glue: None,
            role: String::new(),
        }
    }
    pub fn hard(mut self) -> Lexeme {
        self.glue = Some(Glue::Hard);
        self
    }
    pub fn soft(mut self) -> Lexeme {
        self.glue = Some(Glue::Soft);
        self
    }
    pub fn blank(mut self) -> Lexeme {
        self.glue = Some(Glue::Blank);
        self
    }
    pub fn role(mut self, r: &str) -> Lexeme {
        self.role = r.to_string();
        self
    }
}

pub const TYPE_KEYWORDS: &[&str] = &[
    "BOOL", "SINT", "INT", "DINT", "LINT", "USINT", "UINT", "UDINT", "ULINT", "REAL", "LREAL", "TIME",
    "DATE", "TIME_OF_DAY", "TOD", "DATE_AND_TIME", "DT", "STRING", "WSTRING", "BYTE", "WORD", "DWORD",
    "LWORD",
];

pub const KEYWORDS: &[&str] = &[
    "ACTION", "END_ACTION", "ARRAY", "OF", "AT", "CASE", "ELSE", "END_CASE", "CONSTANT", "CONFIGURATION",
    "END_CONFIGURATION", "EN", "ENO", "EXIT", "FALSE", "F_EDGE", "FOR", "TO", "BY", "DO", "END_FOR",
    "FUNCTION", "END_FUNCTION", "FUNCTION_BLOCK", "END_FUNCTION_BLOCK", "IF", "THEN", "ELSIF", "END_IF",
    "INITIAL_STEP", "END_STEP", "PROGRAM", "WITH", "END_PROGRAM", "R_EDGE", "READ_ONLY", "READ_WRITE",
    "REPEAT", "UNTIL", "END_REPEAT", "RESOURCE", "ON", "END_RESOURCE", "RETAIN", "NON_RETAIN", "RETURN",
    "STEP", "STRUCT", "END_STRUCT", "TASK", "END_TASK", "TRANSITION", "FROM", "END_TRANSITION", "TRUE",
    "TYPE", "END_TYPE", "VAR", "END_VAR", "VAR_INPUT", "VAR_OUTPUT", "VAR_IN_OUT", "VAR_TEMP",
    "VAR_EXTERNAL", "VAR_ACCESS", "VAR_CONFIG", "VAR_GLOBAL", "WHILE", "END_WHILE", "OR", "XOR", "AND",
    "MOD", "NOT",
];

pub fn is_reserved(word: &str) -> bool {
    let u = word.to_ascii_uppercase();
    KEYWORDS.contains(&u.as_str()) || TYPE_KEYWORDS.contains(&u.as_str())
}

/// Builder for lexeme lists.
#[derive(Default, Clone, Debug)]
pub struct Lx {
    pub v: Vec<Lexeme>,
}

impl Lx {
    pub fn new() -> Lx {
        Lx { v: vec![] }
    }
    pub fn push(&mut self, l: Lexeme) -> &mut Lx {
        self.v.push(l);
        self
    }
    /// keyword (also word operators AND/OR/XOR/MOD/NOT get class Op)
    pub fn kw(&mut self, t: &str) -> &mut Lx {
        let class = match t.to_ascii_uppercase().as_str() {
            "AND" | "OR" | "XOR" | "MOD" | "NOT" => Class::Op,
            _ => Class::Keyword,
        };
        self.push(Lexeme::new(t, class))
    }
    pub fn id(&mut self, t: &str) -> &mut Lx {
        self.push(Lexeme::new(t, Class::Ident))
    }
    pub fn idr(&mut self, t: &str, role: &str) -> &mut Lx {
        self.push(Lexeme::new(t, Class::Ident).role(role))
    }
    pub fn num(&mut self, t: &str) -> &mut Lx {
        self.push(Lexeme::new(t, Class::Number))
    }
    pub fn str_(&mut self, t: &str) -> &mut Lx {
        self.push(Lexeme::new(t, Class::Str))
    }
    pub fn op(&mut self, t: &str) -> &mut Lx {
        self.push(Lexeme::new(t, Class::Op))
    }
    pub fn p(&mut self, t: &str) -> &mut Lx {
        self.push(Lexeme::new(t, Class::Punct))
    }
    pub fn addr(&mut self, t: &str) -> &mut Lx {
        self.push(Lexeme::new(t, Class::Addr))
    }
    /// A literal made of hard-glued pieces, e.g. ["T","#","5","ms"] or ["INT","#","5"] or ["-","5"].
    pub fn lit(&mut self, pieces: &[&str]) -> &mut Lx {
        let n = pieces.len();
        for (i, t) in pieces.iter().enumerate() {
            // alphabetic pieces of a literal that are not reserved words (T, D, ms, h, …) are literal parts
            let class = match classify_piece(t) {
                Class::Ident if n > 1 => Class::LitPart,
                c => c,
            };
            let mut l = Lexeme::new(t, class);
            if i + 1 < n {
                l.glue = Some(Glue::Hard);
            }
            self.v.push(l);
        }
        self
    }
    /// Generic word sequence: splits on blanks and classifies each word; handy for fixed skeletons.
    /// Words: reserved → kw, identifier → id, digits → num, everything else punctuation/operator.
    pub fn words(&mut self, s: &str) -> &mut Lx {
        for w in s.split_whitespace() {
            self.word(w);
        }
        self
    }
    pub fn word(&mut self, w: &str) -> &mut Lx {
        let b: Vec<char> = w.chars().collect();
        if b.len() > 1 && (b[0] == '-' || b[0] == '+') && b[1].is_ascii_digit() {
            // signed number: sign is part of the literal
            let sign = b[0].to_string();
            let rest: String = b[1..].iter().collect();
            return self.lit(&[sign.as_str(), rest.as_str()]);
        }
        if w.contains('#') && w.len() > 1 && !w.starts_with('\'') && !w.starts_with('"') {
            // literal with pieces: split around '#', keep sign
            let mut pieces: Vec<String> = vec![];
            let mut cur = String::new();
            for c in w.chars() {
                if c == '#' {
                    if !cur.is_empty() {
                        pieces.push(std::mem::take(&mut cur));
                    }
                    pieces.push("#".into());
                } else {
                    cur.push(c);
                }
            }
            if !cur.is_empty() {
                pieces.push(cur);
            }
            // based integers are a single lexer token (16#FF)
            if pieces.len() == 3 && ["2", "8", "16"].contains(&pieces[0].as_str()) {
                return self.num(w);
            }
            // split digit runs from unit letters: 5ms -> 5, ms ; 1h30m -> 1, h, 30, m ; -5 -> -, 5
            let mut fine: Vec<String> = vec![];
            for p in pieces {
                let cs: Vec<char> = p.chars().collect();
                let starts_num = cs[0].is_ascii_digit() || ((cs[0] == '-' || cs[0] == '+') && cs.len() > 1);
                let is_real = cs[0].is_ascii_digit()
                    && p.contains('.')
                    && cs.iter().all(|c| c.is_ascii_digit() || matches!(c, '.' | '_' | 'E' | 'e' | '+' | '-'));
                if p == "#" || !starts_num || is_real {
                    fine.push(p);
                    continue;
                }
                let mut cur = String::new();
                let mut in_num = true;
                for (i, c) in cs.iter().enumerate() {
                    if i == 0 && (*c == '-' || *c == '+') {
                        fine.push(c.to_string());
                        continue;
                    }
                    let numish = c.is_ascii_digit() || *c == '.' || (*c == '_' && in_num && !cur.is_empty());
                    if numish != in_num && !cur.is_empty() {
                        fine.push(std::mem::take(&mut cur));
                    }
                    in_num = numish;
                    cur.push(*c);
                }
                if !cur.is_empty() {
                    fine.push(cur);
                }
            }
            let pieces = fine;
            let refs: Vec<&str> = pieces.iter().map(|s| s.as_str()).collect();
            return self.lit(&refs);
        }
        let c = classify_piece(w);
        self.push(Lexeme::new(w, c))
    }
    pub fn extend(&mut self, other: &Lx) -> &mut Lx {
        self.v.extend(other.v.iter().cloned());
        self
    }
    pub fn last_mut(&mut self) -> &mut Lexeme {
        self.v.last_mut().expect("non-empty")
    }
}

pub fn classify_piece(t: &str) -> Class {
    let first = t.chars().next().unwrap_or(' ');
    if t.starts_with('%') {
        Class::Addr
    } else if t.starts_with('\'') || t.starts_with('"') {
        Class::Str
    } else if first.is_ascii_digit() {
        Class::Number
    } else if first.is_ascii_alphabetic() || first == '_' {
        let u = t.to_ascii_uppercase();
        match u.as_str() {
            "AND" | "OR" | "XOR" | "MOD" | "NOT" => Class::Op,
            _ if is_reserved(t) => Class::Keyword,
            _ => Class::Ident,
        }
    } else {
        match t {
            ":=" | "=>" | "+" | "-" | "*" | "/" | "**" | "=" | "<>" | "<" | ">" | "<=" | ">=" | "&" | ".." => Class::Op,
            _ => Class::Punct,
        }
    }
}

/// The gap between two adjacent lexemes in the canonical ("tight") spelling.
pub fn gap(left: &Lexeme, right: &Lexeme) -> Glue {
    if let Some(g) = left.glue {
        return g;
    }
    let r = right.text.as_str();
    let l = left.text.as_str();
    if matches!(r, ";" | "," | ")" | "]" | "." | ".." | "#") || matches!(l, "(" | "[" | "." | ".." | "#") {
        return Glue::Soft;
    }
    if matches!(r, "(" | "[") {
        let name_like = left.class == Class::Ident
            || (left.class == Class::Keyword && TYPE_KEYWORDS.contains(&l.to_ascii_uppercase().as_str()));
        if name_like {
            return Glue::Soft;
        }
    }
    Glue::Blank
}

#[derive(Clone, Debug)]
pub struct Placed {
    /// index into the lexeme list; None for trivia
    pub lex: Option<usize>,
    pub text: String,
    pub class: Class,
    pub byte: usize,
    pub chr: usize,
    /// 0-based line: number of line terminators (\n, \r\n, lone \r) before the start
    pub line: usize,
    pub col_bytes: usize,
    pub col_chars: usize,
    pub col_utf16: usize,
}

impl Placed {
    pub fn end_byte(&self) -> usize {
        self.byte + self.text.len()
    }
    pub fn len_utf16(&self) -> usize {
        self.text.encode_utf16().count()
    }
    pub fn len_chars(&self) -> usize {
        self.text.chars().count()
    }
}

#[derive(Clone, Debug)]
pub struct Spelled {
    pub text: String,
    /// every segment of the text in order (lexemes and trivia); concatenation == text
    pub items: Vec<Placed>,
}

impl Spelled {
    pub fn lexeme(&self, index: usize) -> Option<&Placed> {
        self.items.iter().find(|p| p.lex == Some(index))
    }
    pub fn lexemes(&self) -> impl Iterator<Item = &Placed> {
        self.items.iter().filter(|p| p.lex.is_some())
    }
}

/// Splits a trivia string into whitespace runs, line terminators and comments.
pub fn split_trivia(t: &str) -> Vec<(String, Class)> {
    let b: Vec<char> = t.chars().collect();
    let mut out = vec![];
    let mut i = 0;
    while i < b.len() {
        let c = b[i];
        if c == '(' && i + 1 < b.len() && b[i + 1] == '*' {
            // comment up to the first "*)"
            let mut j = i + 2;
            let mut end = b.len();
            while j + 1 < b.len() {
                if b[j] == '*' && b[j + 1] == ')' {
                    end = j + 2;
                    break;
                }
                j += 1;
            }
            out.push((b[i..end].iter().collect(), Class::Comment));
            i = end;
        } else if c == '\r' && i + 1 < b.len() && b[i + 1] == '\n' {
            out.push(("\r\n".into(), Class::Nl));
            i += 2;
        } else if c == '\n' || c == '\r' || c == '\u{c}' {
            out.push((c.to_string(), Class::Nl));
            i += 1;
        } else {
            let mut j = i;
            while j < b.len() && (b[j] == ' ' || b[j] == '\t') {
                j += 1;
            }
            if j == i {
                // unknown trivia character: keep as whitespace item
                j = i + 1;
            }
            out.push((b[i..j].iter().collect(), Class::Ws));
            i = j;
        }
    }
    out
}

/// Spells the lexemes with the given trivia at every gap. `trivia(i, glue)` is the text between
/// lexeme i and i+1; `lead`/`trail` go before the first and after the last lexeme.
pub fn spell_with(lexemes: &[Lexeme], lead: &str, trail: &str, trivia: &dyn Fn(usize, Glue) -> String) -> Spelled {
    let mut segs: Vec<(Option<usize>, String, Class)> = vec![];
    for (t, c) in split_trivia(lead) {
        segs.push((None, t, c));
    }
    for (i, l) in lexemes.iter().enumerate() {
        segs.push((Some(i), l.text.clone(), l.class));
        if i + 1 < lexemes.len() {
            let g = gap(l, &lexemes[i + 1]);
            let t = trivia(i, g);
            for (t, c) in split_trivia(&t) {
                segs.push((None, t, c));
            }
        }
    }
    for (t, c) in split_trivia(trail) {
        segs.push((None, t, c));
    }
    place(segs)
}

pub fn place(segs: Vec<(Option<usize>, String, Class)>) -> Spelled {
    let mut text = String::new();
    let mut items = vec![];
    let (mut byte, mut chr, mut line, mut cb, mut cc, mut cu) = (0usize, 0usize, 0usize, 0usize, 0usize, 0usize);
    for (lex, t, class) in segs {
        items.push(Placed {
            lex,
            text: t.clone(),
            class,
            byte,
            chr,
            line,
            col_bytes: cb,
            col_chars: cc,
            col_utf16: cu,
        });
        let chars: Vec<char> = t.chars().collect();
        let mut i = 0;
        while i < chars.len() {
            let c = chars[i];
            let is_crlf = c == '\r' && i + 1 < chars.len() && chars[i + 1] == '\n';
            if is_crlf {
                byte += 2;
                chr += 2;
                line += 1;
                cb = 0;
                cc = 0;
                cu = 0;
                i += 2;
                continue;
            }
            byte += c.len_utf8();
            chr += 1;
            if c == '\n' || c == '\r' {
                line += 1;
                cb = 0;
                cc = 0;
                cu = 0;
            } else {
                cb += c.len_utf8();
                cc += 1;
                cu += c.len_utf16();
            }
            i += 1;
        }
        text.push_str(&t);
    }
    Spelled { text, items }
}

/// Canonical ("tight") spelling: one blank at Blank gaps, nothing elsewhere.
pub fn spell(lexemes: &[Lexeme]) -> Spelled {
    spell_with(lexemes, "", "", &|_, g| match g {
        Glue::Blank => " ".to_string(),
        _ => String::new(),
    })
}

/// Canonical spelling with a line break after every `;` and block keyword, for readable multi-line texts.
pub fn spell_lines(lexemes: &[Lexeme]) -> Spelled {
    spell_with(lexemes, "", "\n", &|i, g| {
        let t = lexemes[i].text.as_str();
        let up = t.to_ascii_uppercase();
        let brk = t == ";"
            || matches!(
                up.as_str(),
                "VAR" | "VAR_INPUT" | "VAR_OUTPUT" | "VAR_IN_OUT" | "VAR_EXTERNAL" | "VAR_GLOBAL" | "END_VAR" | "TYPE" | "END_TYPE" | "THEN" | "ELSE" | "DO" | "REPEAT" | "END_FUNCTION_BLOCK" | "END_PROGRAM" | "END_FUNCTION" | "END_CONFIGURATION" | "END_RESOURCE" | "END_STRUCT" | "STRUCT"
            );
        match g {
            Glue::Hard => String::new(),
            _ if brk => "\n".to_string(),
            Glue::Blank => " ".to_string(),
            Glue::Soft => String::new(),
        }
    })
}

/// Case variants of a word.
pub fn case_variants(w: &str) -> Vec<(String, &'static str)> {
    let lower = w.to_lowercase();
    let upper = w.to_uppercase();
    let mut cap = String::new();
    for (i, c) in w.chars().enumerate() {
        if i == 0 {
            cap.extend(c.to_uppercase());
        } else {
            cap.extend(c.to_lowercase());
        }
    }
    let mut alt = String::new();
    for (i, c) in w.chars().enumerate() {
        if i % 2 == 0 {
            alt.extend(c.to_lowercase());
        } else {
            alt.extend(c.to_uppercase());
        }
    }
    let mut out = vec![];
    for (s, n) in [(lower, "lower"), (upper, "UPPER"), (cap, "Capitalised"), (alt, "aLtErNaTiNg")] {
        if s != w && !out.iter().any(|(x, _): &(String, &str)| *x == s) {
            out.push((s, n));
        }
    }
    out
}

#[cfg(test)]
mod tests {
    use super::*;
    #[test]
    fn tight() {
        let mut l = Lx::new();
        l.words("PROGRAM p VAR x : INT := INT#5 ; arr : ARRAY [ 1 .. 2 ] OF INT ; END_VAR x := f ( 1 , T#5ms ) ; END_PROGRAM");
        let s = spell(&l.v);
        assert_eq!(s.text, "PROGRAM p VAR x : INT := INT#5; arr : ARRAY [1..2] OF INT; END_VAR x := f(1, T#5ms); END_PROGRAM");
        let joined: String = s.items.iter().map(|p| p.text.as_str()).collect();
        assert_eq!(joined, s.text);
    }
    #[test]
    fn positions() {
        let segs = vec![(Some(0), "a".to_string(), Class::Ident), (None, "\r\n".into(), Class::Nl), (None, "(* é *)".into(), Class::Comment), (Some(1), "b".into(), Class::Ident)];
        let s = place(segs);
        let b = s.lexeme(1).unwrap();
        assert_eq!((b.line, b.col_chars, b.col_bytes, b.byte), (1, 7, 8, 11));
    }
}
