//! Slot world (E3): a fixed skeleton of declarations in which every interesting position is a slot
//! with a finite menu of valid options and planted faults, plus the reference semantic model that
//! says which documented rules a world violates. Nothing here calls the analyzer.

use crate::explore::Chooser;
use crate::lex::*;
use std::collections::BTreeSet;

#[derive(Clone, Debug)]
pub struct Decl {
    /// name of the top-level declaration (for TYPE blocks: the first type name)
    pub name: String,
    pub kind: &'static str,
    /// the declaration as blank-separated lexemes
    pub words: String,
    /// marks the declaration that carries the planted fault (if any)
    pub faulty: bool,
}

impl Decl {
    /// The text of the declaration: its lexemes separated by single blanks, ended by a line break.
    pub fn text(&self) -> String {
        format!("{}\n", self.words)
    }
    pub fn lx(&self) -> Lx {
        let mut lx = Lx::new();
        lx.words(&self.words);
        lx
    }
}

#[derive(Clone, Debug, Default)]
pub struct World {
    pub decls: Vec<Decl>,
    /// codes of the documented rules this world violates (reference model)
    pub violated: BTreeSet<&'static str>,
    pub labels: Vec<String>,
    /// constructs in the world for which the analyzer answers "not implemented" by design
    pub notes: Vec<String>,
}

impl World {
    pub fn text(&self) -> String {
        self.decls.iter().map(|d| d.text()).collect::<Vec<_>>().join("")
    }
}

pub fn d(name: &str, kind: &'static str, words: &str) -> Decl {
    Decl { name: name.into(), kind, words: words.split_whitespace().collect::<Vec<_>>().join(" "), faulty: false }
}

pub const SITES: [(&str, &str, bool); 44] = [
    // (label, template with one hole, hole is an assignment target)
    ("assign-rhs", "y := {} ;", false),
    ("assign-lhs", "{} := 1 ;", true),
    ("if-cond", "IF {} > 0 THEN y := 1 ; END_IF ;", false),
    ("if-then", "IF y > 0 THEN y := {} ; END_IF ;", false),
    ("elsif-cond", "IF y > 0 THEN y := 1 ; ELSIF {} > 0 THEN y := 2 ; END_IF ;", false),
    ("elsif-body", "IF y > 0 THEN y := 1 ; ELSIF y < 0 THEN y := {} ; END_IF ;", false),
    ("else-body", "IF y > 0 THEN y := 1 ; ELSE y := {} ; END_IF ;", false),
    ("case-selector", "CASE {} OF 1 : y := 1 ; END_CASE ;", false),
    ("case-arm", "CASE y OF 1 : y := {} ; END_CASE ;", false),
    ("case-else", "CASE y OF 1 : y := 1 ; ELSE y := {} ; END_CASE ;", false),
    ("for-control", "FOR {} := 1 TO 3 DO y := y ; END_FOR ;", true),
    ("for-from", "FOR y := {} TO 3 DO x := x ; END_FOR ;", false),
    ("for-to", "FOR y := 1 TO {} DO x := x ; END_FOR ;", false),
    ("for-by", "FOR y := 1 TO 3 BY {} DO x := x ; END_FOR ;", false),
    ("for-body", "FOR y := 1 TO 3 DO x := {} ; END_FOR ;", false),
    ("while-cond", "WHILE {} < 3 DO y := y + 1 ; END_WHILE ;", false),
    ("while-body", "WHILE y < 3 DO y := {} ; END_WHILE ;", false),
    ("repeat-body", "REPEAT y := {} ; UNTIL y > 3 END_REPEAT ;", false),
    ("repeat-until", "REPEAT y := y + 1 ; UNTIL {} > 3 END_REPEAT ;", false),
    ("nested-if-in-while", "WHILE y < 3 DO IF y > 0 THEN y := {} ; END_IF ; END_WHILE ;", false),
    ("nested-case-in-for", "FOR y := 1 TO 3 DO CASE x OF 1 : x := {} ; END_CASE ; END_FOR ;", false),
    ("fn-arg", "y := Fn ( {} ) ;", false),
    ("fn-named-arg", "y := Fn ( a := {} ) ;", false),
    ("subscript", "y := arr [ {} ] ;", false),
    ("paren", "y := ( {} + 1 ) * 2 ;", false),
    ("unary-minus", "y := - {} ;", false),
    ("binary-right", "y := 1 + {} ;", false),
    ("comparison", "y := y * 2 ; IF y = {} THEN y := 0 ; END_IF ;", false),
    ("fb-arg-formal", "inst ( a := {} , b := TRUE , q => y ) ;", false),
    ("fb-arg-positional", "inst ( {} , TRUE ) ;", false),
    ("fb-output-target", "inst ( a := x , q => {} ) ;", true),
    // the same name deeper inside an access path or an argument
    ("subscript-below-field", "y := pts [ {} ] . x ;", false),
    ("subscript-below-field-in-target", "pts [ {} ] . x := 1 ;", false),
    ("target-subscript", "arr [ {} ] := 1 ;", false),
    ("subscript-in-subscript", "y := arr [ arr [ {} ] ] ;", false),
    ("record-of-a-field", "y := {} . x ;", true),
    ("subscripted-name", "y := {} [ 1 ] ;", true),
    ("nested-call-arg", "y := Fn ( Fn ( {} ) ) ;", false),
    ("unary-on-parenthesis", "y := - ( {} + 1 ) ;", false),
    ("fb-arg-expression", "inst ( a := 1 + {} , b := TRUE ) ;", false),
    // a condition that is evaluated after a body whose last statement assigns an enumeration value
    ("elsif-cond-after-enum-body", "IF y > 0 THEN lv := Low ; ELSIF {} > 0 THEN y := 2 ; END_IF ;", false),
    ("second-elsif-cond-after-enum-body", "IF y > 0 THEN y := 1 ; ELSIF y < 0 THEN lv := Low ; ELSIF {} > 0 THEN y := 2 ; END_IF ;", false),
    ("until-after-enum-body", "REPEAT lv := Low ; UNTIL {} > 3 END_REPEAT ;", false),
    ("else-body-after-enum-body", "IF y > 0 THEN lv := Low ; ELSE y := {} ; END_IF ;", false),
];

thread_local! {
    /// when not 0, the use-site menu is cut to its first members
    pub static SITE_LIMIT: std::cell::Cell<usize> = std::cell::Cell::new(0);
}

/// Generates one world. `site_cost`: cost of choosing a non-default use site.
pub fn world(ch: &mut Chooser) -> World {
    let mut w = World::default();
    // ---------------- types
    let enum_opts = [
        "( Low , High )",
        "( Low )",
        "( Low , Mid , High )",
        "( Low , Low )",
        "( Low , High , LOW )",
        "( Low , High , Low )",
        "( Low , High , Level#High )",
        "( Level#Low , High , Low )",
        "( Level#Low , Level#High )",
        "( Low , High , Low , Mid , Low )",
    ];
    let e = ch.pick("enum", &["Low,High", "Low", "Low,Mid,High", "dup:Low,Low", "dup-case:Low,High,LOW", "dup-nonadjacent:Low,High,Low", "dup-typed-second:Low,High,Level#High", "dup-typed-first:Level#Low,High,Low", "typed:Level#Low,Level#High", "dup-thrice:Low,High,Low,Mid,Low"], 1);
    if matches!(e, 3..=7 | 9) {
        w.violated.insert("P0005");
    }
    let has_high = matches!(e, 0 | 2 | 4 | 5 | 6 | 7 | 8 | 9);
    let sub_opts = ["( -10 .. 10 )", "( 0 .. 1 )", "( -10 .. -5 )", "( 10 .. -10 )", "( 5 .. 5 )", "( -5 .. -10 )", "( 1 .. 0 )"];
    let sb = ch.pick("subrange", &["-10..10", "0..1", "-10..-5", "inv:10..-10", "inv:5..5", "inv:-5..-10", "inv:1..0"], 1);
    if sb >= 3 {
        w.violated.insert("P0004");
    }
    let st_opts = [
        "x : INT ; lv : Level ;",
        "x : INT ;",
        "x : INT ; y : BOOL ; z : INT ;",
        "x : INT ; x : BOOL ;",
        "x : INT ; X : BOOL ;",
        "x : INT ; y : INT ; x : INT ;",
        "x : INT ; lv : Level := High ;",
        "x : INT ; lv : Level := Nope ;",
        "x : INT ; m : Missing ;",
        "x : INT ; y : INT ; x : BOOL ; z : INT ; x : INT ;",
    ];
    let st = ch.pick("struct", &["x,lv", "x", "x,y,z", "dup:x,x", "dup-case:x,X", "dup-nonadjacent:x,y,x", "lv:=High", "lv:=undeclared-value", "element-of-unknown-type", "dup-thrice:x,y,x,z,x"], 1);
    if matches!(st, 3 | 4 | 5 | 9) {
        w.violated.insert("P0003");
    }
    if st == 7 || (st == 6 && !has_high) {
        w.violated.insert("P0014");
    }
    if st == 8 {
        w.violated.insert("P0022");
    }
    let alias_k = ch.pick("alias", &["none", "LevelAlias", "LevelAlias:=High", "LevelAlias:=undeclared-value", "alias-of-unknown-type"], 1);
    let alias = matches!(alias_k, 1 | 2 | 3);
    if alias_k == 3 || (alias_k == 2 && !has_high) {
        w.violated.insert("P0014");
    }
    if alias_k == 4 {
        w.violated.insert("P0022");
    }
    let arr = ch.pick("array", &["1..3", "0..0-and-1..2", "inv:3..1"], 1);
    let arr_s = ["ARRAY [ 1 .. 3 ] OF INT", "ARRAY [ 0 .. 1 , 1 .. 2 ] OF INT", "ARRAY [ 3 .. 1 ] OF INT"][arr];
    if arr == 2 {
        w.violated.insert("P0004");
    }
    let mut types = format!("TYPE Level : {} := Low ; Rng : INT {} ; Pt : STRUCT {} END_STRUCT ; Arr : {} ; Pts : ARRAY [ 1 .. 3 ] OF Pt ; Str10 : STRING [ 10 ] := 'abc' ; Str5 : STRING [ 5 ] ;", enum_opts[e], sub_opts[sb], st_opts[st], arr_s);
    if alias {
        types += [" LevelAlias : Level ;", " LevelAlias : Level := High ;", " LevelAlias : Level := Nope ;"][alias_k - 1];
    }
    if alias_k == 4 {
        types += " BadAlias : Missing ;";
    }
    types += " END_TYPE";
    let mut tdecl = d("Level", "type", &types);
    tdecl.faulty = matches!(e, 3..=7 | 9) || sb >= 3 || st >= 3 || arr == 2 || alias_k >= 3 || ((st == 6 || alias_k == 2) && !has_high);

    // ---------------- callee and function
    let callee = d(
        "Callee",
        "fb",
        "FUNCTION_BLOCK Callee VAR_INPUT a : INT ; b : BOOL ; END_VAR VAR_OUTPUT q : INT ; END_VAR VAR_IN_OUT io : INT ; END_VAR q := a ; END_FUNCTION_BLOCK",
    );
    let fnret = ch.pick("fnresult", &["INT", "enumeration"], 1);
    // constants of a function: the rules about constants hold in every kind of unit
    let fnk = ch.pick("fnconst", &["none", "INT:=5", "INT-no-init", "fb-instance", "enum-no-init"], 1);
    let fnk_s = ["", " VAR CONSTANT fk : INT := 5 ; END_VAR", " VAR CONSTANT fk : INT ; END_VAR", " VAR CONSTANT fk : Callee ; END_VAR", " VAR CONSTANT fk : Level ; END_VAR"][fnk];
    match fnk {
        2 | 4 => {
            w.violated.insert("P0016");
        }
        3 => {
            w.violated.insert("P0017");
        }
        _ => {}
    }
    let mut func = if fnret == 0 {
        d("Fn", "function", &format!("FUNCTION Fn : INT VAR_INPUT a : INT ; END_VAR{} Fn := a + 1 ; END_FUNCTION", fnk_s))
    } else {
        // a second function whose result is an enumeration value; Fn stays for the use sites
        d("Fn", "function", &format!("FUNCTION Fn : INT VAR_INPUT a : INT ; END_VAR{} Fn := a + 1 ; END_FUNCTION FUNCTION Fe : Level VAR_INPUT a : INT ; END_VAR Fe := Low ; END_FUNCTION", fnk_s))
    };
    func.faulty = fnk >= 2;

    // ---------------- host
    let host_kind = ch.pick("host", &["FB", "PROGRAM"], 0);
    let lv_type = if alias { ["Level", "LevelAlias"][ch.pick("lvtype", &["Level", "LevelAlias"], 1)] } else { "Level" };
    let lv_init = ch.pick("lvinit", &["High", "none", "undeclared-value", "typed:Level#High", "Low"], 1);
    let lv_init_s = [" := High", "", " := Nope", " := Level#High", " := Low"][lv_init];
    if lv_init == 2 || ((lv_init == 0 || lv_init == 3) && !has_high) {
        w.violated.insert("P0014");
    }
    let xtype = ["INT", "Nope", "DINT", "Nope := 5", "INT := 5", "TON"][ch.pick("xtype", &["INT", "unknown-type", "DINT", "unknown-type-with-initial-value", "INT-with-initial-value", "standard-function-block-that-is-not-implemented"], 1)];
    if xtype.starts_with("Nope") {
        w.violated.insert("P0022");
    }
    if xtype == "TON" {
        w.violated.insert("P0029");
    }
    let fbtype = ["Callee", "NoFb"][ch.pick("fbtype", &["Callee", "unknown-fb-type"], 1)];
    let kdecl = ch.pick(
        "const",
        &["INT:=5", "none", "INT-no-init", "enum-no-init", "STRING-no-init", "fb-instance", "enum:=Low", "STRING:='s'", "BOOL-no-init", "two-names-no-init", "string-type-with-default-no-init", "string-type-no-init", "string-type:='s'", "located-no-init", "located:=TRUE", "subrange-type-no-init"],
        1,
    );
    let kdecl_s = [
        "VAR CONSTANT k : INT := 5 ; END_VAR",
        "",
        "VAR CONSTANT k : INT ; END_VAR",
        "VAR CONSTANT k : Level ; END_VAR",
        "VAR CONSTANT k : STRING ; END_VAR",
        "VAR CONSTANT k : Callee ; END_VAR",
        "VAR CONSTANT k : Level := Low ; END_VAR",
        "VAR CONSTANT k : STRING := 's' ; END_VAR",
        "VAR CONSTANT k : BOOL ; END_VAR",
        "VAR CONSTANT k , k2 : INT ; END_VAR",
        "VAR CONSTANT k : Str10 ; END_VAR",
        "VAR CONSTANT k : Str5 ; END_VAR",
        "VAR CONSTANT k : Str5 := 's' ; END_VAR",
        "VAR CONSTANT k AT %IX1.1 : BOOL ; END_VAR",
        "VAR CONSTANT k AT %IX1.1 : BOOL := TRUE ; END_VAR",
        "VAR CONSTANT k : Rng ; END_VAR",
    ][kdecl];
    // located variables exist in programs only: in a function block the option is the default declaration
    let (kdecl, kdecl_s) = if host_kind == 0 && matches!(kdecl, 13 | 14) { (0, "VAR CONSTANT k : INT := 5 ; END_VAR") } else { (kdecl, kdecl_s) };
    match kdecl {
        2 | 3 | 4 | 8 | 9 | 10 | 11 | 13 | 15 => {
            w.violated.insert("P0016");
        }
        5 => {
            w.violated.insert("P0017");
        }
        _ => {}
    }
    let ext = ch.pick("ext", &["CONSTANT", "none", "not-constant"], 1);
    let ext_s = ["VAR_EXTERNAL CONSTANT G : INT ; END_VAR", "", "VAR_EXTERNAL G : INT ; END_VAR"][ext];
    // the global G: a constant or not, with or without an initial value, declared by the configuration or by the resource
    let gopt = ch.pick("global", &["CONSTANT", "plain", "CONSTANT-without-initial-value", "CONSTANT-in-the-resource", "CONSTANT-in-the-resource-without-initial-value", "plain-in-the-resource"], 1);
    let gconst = matches!(gopt, 0 | 2 | 3 | 4);
    if ext == 2 && gconst {
        w.violated.insert("P0018");
    }
    if matches!(gopt, 2 | 4) {
        w.violated.insert("P0016");
    }
    // ---------------- use site
    let site_names: Vec<&str> = SITES.iter().map(|s| s.0).collect();
    // (the deepest tier expands three deviations over the first eight sites only: the complete site menu times three
    // deviations is tens of millions of worlds; two deviations over every site is the quick tier)
    let limit = SITE_LIMIT.with(|f| f.get());
    let site = if limit > 0 { ch.pick("site", &site_names[..limit.min(site_names.len())], 0) } else { ch.pick("site", &site_names, 0) };
    // names that something else declares (a function block, a function, a program, a type) are no variables
    // names that another declaration of the unit declares for itself (an input of Callee, the instance of Main, a value
    // of the enumeration's neighbour, a field of the structure) are not declared here
    let name = ["x", "zz", "k", "G", "1", "a_in", "q_out", "io_v", "Callee", "Fn", "Main", "Level", "b", "c", "io", "Str10"][ch.pick(
        "name",
        &[
            "declared-local", "undeclared", "constant-k", "external-G", "literal", "declared-input", "declared-output", "declared-in-out", "name-of-a-function-block", "name-of-a-function", "name-of-a-program", "name-of-a-type",
            "declared-only-in-the-callee", "declared-only-in-Main", "in-out-of-the-callee", "name-of-a-string-type",
        ],
        1,
    )];
    let (site_label, template, is_target) = SITES[site];
    let name = if is_target && (name == "1" || name == "k" || name == "G" || name == "a_in") { "y" } else { name };
    let stmt = template.replace("{}", name);
    // a statement directly before the use site (resolution state must not leak from one statement to the next)
    let pre = ch.pick("pre", &["none", "enum-assignment", "int-assignment", "fb-call", "string-assignment"], 1);
    let pre_s = ["", "lv := Low ;", "y := 2 ;", "inst ( a := y ) ;", "str := 'abc' ;"][pre];
    let undeclared = name == "zz" || matches!(name, "Callee" | "Fn" | "Main" | "Level" | "b" | "c" | "io" | "Str10") || (name == "k" && kdecl == 1) || (name == "G" && ext == 1);
    if undeclared {
        w.violated.insert("P0015");
    }
    let uses_inst_site = site_label.starts_with("fb-");
    // ---------------- fb invocation
    let inv = ch.pick(
        "invoke",
        &["formal-all", "none", "no-args", "formal-some", "positional-exact", "formal+inout", "unknown-formal", "mixed", "positional-too-few", "positional-too-many", "unknown-output", "output-only", "formal-wrong-case", "positional+output", "positional+unknown-output", "unknown-output-only", "output-named-as-input", "input-named-as-output", "in-out-named-as-output", "output-first+unknown-formal", "unknown-output-first"],
        1,
    );
    let inv_s = [
        "inst ( a := x , b := TRUE , q => y ) ;",
        "",
        "inst ( ) ;",
        "inst ( a := x ) ;",
        "inst ( x , TRUE ) ;",
        "inst ( a := x , io := y ) ;",
        "inst ( zz := x ) ;",
        "inst ( x , b := TRUE ) ;",
        "inst ( x ) ;",
        "inst ( x , TRUE , 3 ) ;",
        "inst ( a := x , zz => y ) ;",
        "inst ( q => y ) ;",
        "inst ( A := x , B := TRUE ) ;",
        "inst ( x , TRUE , q => y ) ;",
        "inst ( x , TRUE , zz => y ) ;",
        "inst ( zz => y ) ;",
        // a name the callee does declare, in the other direction
        "inst ( a := x , q := y ) ;",
        "inst ( a := x , b => y ) ;",
        "inst ( a := x , io => y ) ;",
        // outputs written before inputs
        "inst ( q => y , a := x , zz := x ) ;",
        "inst ( zz => y , a := x ) ;",
    ][inv];
    match inv {
        6 => {
            w.violated.insert("P0007");
        }
        7 => {
            w.violated.insert("P0006");
        }
        8 | 9 => {
            w.violated.insert("P0008");
        }
        10 | 14 | 15 | 17 | 18 | 20 => {
            w.violated.insert("P0009");
        }
        16 | 19 => {
            w.violated.insert("P0007");
        }
        _ => {}
    }
    let nodecl = ch.pick("instdecl", &["declared", "not-declared"], 1) == 1;
    if nodecl && (inv != 1 || uses_inst_site || pre == 3) {
        w.violated.insert("P0021");
    }
    if fbtype == "NoFb" && (inv != 1 || uses_inst_site) {
        // the invocation of an instance whose type is unknown: the rule's documented answer is "function block not declared"
        w.notes.push("invocation-of-unknown-fb-type".into());
    }
    let inst_decl = if nodecl { String::new() } else { format!("inst : {} ; ", fbtype) };
    if fbtype == "NoFb" && !nodecl {
        // the unknown type only occurs in the program when the instance is declared
        w.violated.insert("P0022");
    }
    // identifiers are case-insensitive: the statements of the host may spell every name in upper case
    let refcase = ch.pick("references", &["as-declared", "in-upper-case"], 1);
    let (inv_s, pre_s, stmt) = if refcase == 1 {
        let up = |t: &str| -> String { t.split(' ').map(|w| if w.starts_with('\'') { w.to_string() } else { w.to_uppercase() }).collect::<Vec<_>>().join(" ") };
        (up(inv_s), up(pre_s), up(&stmt))
    } else {
        (inv_s.to_string(), pre_s.to_string(), stmt)
    };
    // a CASE statement with a range as its label (the subrange rule holds for every range that is written)
    let crange = ch.pick("caserange", &["none", "1..3", "inv:3..1", "equal:2..2"], 1);
    let crange_s = ["", "CASE y OF 1 .. 3 : y := 1 ; END_CASE ;", "CASE y OF 3 .. 1 : y := 1 ; END_CASE ;", "CASE y OF 2 .. 2 : y := 1 ; END_CASE ;"][crange];
    if crange >= 2 {
        // the minimum of a range is below its maximum (equal limits are no range either)
        w.violated.insert("P0004");
    }
    let (hopen, hclose) = if host_kind == 0 { ("FUNCTION_BLOCK Host", "END_FUNCTION_BLOCK") } else { ("PROGRAM Host", "END_PROGRAM") };
    let host_words = format!(
        "{} VAR_INPUT a_in : INT ; END_VAR VAR_OUTPUT q_out : INT ; END_VAR VAR_IN_OUT io_v : INT ; END_VAR VAR {}x : {} ; y : INT ; lv : {}{} ; arr : Arr ; pts : Pts ; str : STRING ; END_VAR {} {} {} {} {} {} q_out := y ; {}",
        hopen, inst_decl, xtype, lv_type, lv_init_s, kdecl_s, ext_s, inv_s, crange_s, pre_s, stmt, hclose
    );
    let mut host = d("Host", if host_kind == 0 { "fb" } else { "program" }, &host_words);
    host.faulty = w.violated.iter().any(|c| matches!(*c, "P0014" | "P0022" | "P0016" | "P0017" | "P0018" | "P0015" | "P0006" | "P0007" | "P0008" | "P0009" | "P0021" | "P0029")) || crange >= 2;

    let main = if host_kind == 0 {
        d("Main", "program", "PROGRAM Main VAR c : Host ; END_VAR c ( ) ; END_PROGRAM")
    } else {
        d("Main", "program", "PROGRAM Main VAR c : Callee ; END_VAR c ( ) ; END_PROGRAM")
    };
    // ---------------- configuration
    let task = ch.pick("task", &["defined", "no-task", "undefined-task", "two-tasks-second-used", "wrong-case-task", "second-resource-uses-task-of-the-first", "two-resources-each-with-the-task"], 1);
    // a second resource: task names are local to their resource
    let res2_s = ["", "", "", "", "", " RESOURCE res2 ON PLC PROGRAM inst2 WITH t : Main ; END_RESOURCE", " RESOURCE res2 ON PLC TASK t ( PRIORITY := 2 ) ; PROGRAM inst2 WITH t : Main ; END_RESOURCE"][task];
    let (task_s, with_s) = [
        ("TASK t ( INTERVAL := T#100ms , PRIORITY := 1 ) ;", " WITH t"),
        ("", ""),
        ("", " WITH t"),
        ("TASK t ( INTERVAL := T#100ms , PRIORITY := 1 ) ; TASK t2 ( PRIORITY := 2 ) ;", " WITH t2"),
        ("TASK t ( INTERVAL := T#100ms , PRIORITY := 1 ) ;", " WITH T"),
        ("TASK t ( INTERVAL := T#100ms , PRIORITY := 1 ) ;", " WITH t"),
        ("TASK t ( INTERVAL := T#100ms , PRIORITY := 1 ) ;", " WITH t"),
    ][task];
    if task == 2 || task == 5 {
        w.violated.insert("P0011");
    }
    let g2 = ch.pick("global2", &["none", "of-enumeration-type", "of-structure-type", "of-unknown-type"], 1);
    // a resource holds one VAR_GLOBAL block: when G is declared there, the second global is not written
    let g2 = if gopt >= 3 { 0 } else { g2 };
    let g2_s = ["", "g2 : Level ; ", "g2 : Pt ; ", "g2 : Missing ; "][g2];
    if g2 == 3 {
        w.violated.insert("P0022");
    }
    let mut cfg = d(
        "cfg",
        "configuration",
        &format!(
            "CONFIGURATION cfg {}RESOURCE res ON PLC {}{}{} PROGRAM inst1{} : Main ; END_RESOURCE{} END_CONFIGURATION",
            match gopt {
                0 => "VAR_GLOBAL CONSTANT G : INT := 1 ; END_VAR ",
                1 => "VAR_GLOBAL G : INT := 1 ; END_VAR ",
                2 => "VAR_GLOBAL CONSTANT G : INT ; END_VAR ",
                _ => "",
            },
            match gopt {
                3 => "VAR_GLOBAL CONSTANT G : INT := 1 ; END_VAR ",
                4 => "VAR_GLOBAL CONSTANT G : INT ; END_VAR ",
                5 => "VAR_GLOBAL G : INT := 1 ; END_VAR ",
                _ => "",
            },
            if g2 == 0 { String::new() } else { format!("VAR_GLOBAL {}END_VAR ", g2_s) },
            task_s,
            with_s,
            res2_s
        ),
    );
    cfg.faulty = task == 2 || task == 5 || g2 == 3 || matches!(gopt, 2 | 4);
    let pos = ch.pick("hostpos", &["host-after-its-dependencies", "host-first"], 0);
    w.decls = if pos == 0 { vec![tdecl, callee, func, host, main, cfg] } else { vec![host, main, cfg, tdecl, callee, func] };
    w.labels.extend(ch.labels.iter().cloned());
    w
}

/// Rules whose violation does not depend on other declarations (C03: must never be masked).
pub const INDEPENDENT: [&str; 6] = ["P0003", "P0004", "P0005", "P0016", "P0017", "P0011"];
/// "undeclared" codes: adding declarations may legitimately cure them.
pub const UNDECLARED: [&str; 4] = ["P0015", "P0022", "P0021", "P0012"];
