//! vcheck — bounded exhaustive exploration of ironplc against the properties in /verif/properties.jsonl.
//!
//! usage: vcheck <ID> [--tier quick|thorough] [--replay <file>]
//! exit: 0 held (known findings allowed), 1 VIOLATION, 2 machinery failure

mod checks;
mod explore;
mod cli;
mod corpus;
mod lex;
mod lexseg;
mod front;
mod gram;
mod nt;
mod oscat;
mod lspx;
mod report;
mod util;
mod world;

use report::{Ctx, Tier};

fn usage() -> ! {
    eprintln!("usage: vcheck <ID> [quick|thorough] [--tier quick|thorough] [--replay <file>]");
    std::process::exit(2);
}

fn main() {
    let args: Vec<String> = std::env::args().skip(1).collect();
    if args.is_empty() {
        usage();
    }
    if args[0] == "--worker" {
        // worker sub-process: vcheck --worker C04 <family> <start> <end> <tier>
        let code = match args.get(1).map(|s| s.as_str()) {
            Some("C04") => checks::c04::worker(&args[2..]),
            _ => 2,
        };
        std::process::exit(code);
    }
    let id = args[0].to_uppercase();
    let mut tier = match std::env::var("VERIF_TIER").as_deref() {
        Ok("thorough") => Tier::Thorough,
        _ => Tier::Quick,
    };
    let tier_from_env = std::env::var("VERIF_TIER").is_ok();
    let mut replay: Option<String> = None;
    let mut i = 1;
    while i < args.len() {
        match args[i].as_str() {
            "quick" if !tier_from_env => tier = Tier::Quick,
            "thorough" if !tier_from_env => tier = Tier::Thorough,
            "quick" | "thorough" => {}
            "--tier" => {
                i += 1;
                if !tier_from_env {
                    tier = match args.get(i).map(|s| s.as_str()) {
                        Some("thorough") => Tier::Thorough,
                        Some("quick") => Tier::Quick,
                        _ => usage(),
                    };
                }
            }
            "--replay" => {
                i += 1;
                replay = Some(args.get(i).cloned().unwrap_or_else(|| usage()));
            }
            _ => usage(),
        }
        i += 1;
    }
    util::install_panic_hook();

    if let Some(path) = replay {
        let text = match std::fs::read_to_string(&path) {
            Ok(t) => t,
            Err(e) => {
                eprintln!("cannot read {}: {}", path, e);
                std::process::exit(2);
            }
        };
        let v: serde_json::Value = match serde_json::from_str(&text) {
            Ok(v) => v,
            Err(e) => {
                eprintln!("bad replay file {}: {}", path, e);
                std::process::exit(2);
            }
        };
        let case = if v.get("case").is_some() { v["case"].clone() } else { v };
        let r = match id.as_str() {
            _ if case["mode"] == serde_json::json!("hang") => {
                // a call that did not return: run it again on its own thread and wait 30 s
                let text = case["text"].as_str().unwrap_or("").to_string();
                let (tx, rx) = std::sync::mpsc::channel();
                std::thread::spawn(move || {
                    let parts: Vec<&str> = text.split("\n(* next file *)\n").collect();
                    let v = front::check_texts(&parts);
                    let _ = front::tokenize(&text, "/w/replay.st");
                    let _ = tx.send(v.0.short());
                });
                match rx.recv_timeout(std::time::Duration::from_secs(30)) {
                    Ok(v) => Ok(format!("the call returns: {}", v)),
                    Err(_) => Err("the call has not returned after 30 s".to_string()),
                }
            }
            "C01" => checks::c01::replay(&case),
            "C02" => checks::c02::replay(&case),
            "C03" => checks::c03::replay(&case),
            "C04" => checks::c04::replay(&case),
            "C05" => checks::c05::replay(&case),
            "C06" => checks::c06::replay(&case),
            "C07" => checks::c07::replay(&case),
            "C08" => checks::c08::replay(&case),
            "C09" => checks::c09::replay(&case),
            "C10" => checks::c10::replay(&case),
            "C11" => checks::c11::replay(&case),
            "C12" => checks::c12::replay(&case),
            "C13" => checks::c13::replay(&case),
            "C14" => checks::c14::replay(&case),
            "C15" => checks::c15::replay(&case),
            _ => {
                eprintln!("no replay for {}", id);
                std::process::exit(2);
            }
        };
        match r {
            Ok(msg) => {
                println!("REPLAY {} {}", id, msg);
                std::process::exit(0);
            }
            Err(msg) => {
                println!("REPLAY {} violated: {}", id, msg);
                println!("VIOLATION property={} replay={}", id, path);
                std::process::exit(1);
            }
        }
    }

    let mut ctx = Ctx::new(&id, tier);
    // a call into the implementation that does not return within 30 s is reported and ends the run
    util::watch::start(id.clone(), if tier == Tier::Thorough { "thorough" } else { "quick" }, std::time::Duration::from_secs(30));
    match id.as_str() {
        "C01" => checks::c01::run(&mut ctx),
        "C02" => checks::c02::run(&mut ctx),
        "C03" => checks::c03::run(&mut ctx),
        "C04" => checks::c04::run(&mut ctx),
        "C05" => checks::c05::run(&mut ctx),
        "C06" => checks::c06::run(&mut ctx),
        "C07" => checks::c07::run(&mut ctx),
        "C08" => checks::c08::run(&mut ctx),
        "C09" => checks::c09::run(&mut ctx),
        "C10" => checks::c10::run(&mut ctx),
        "C11" => checks::c11::run(&mut ctx),
        "C12" => checks::c12::run(&mut ctx),
        "C13" => checks::c13::run(&mut ctx),
        "C14" => checks::c14::run(&mut ctx),
        "C15" => checks::c15::run(&mut ctx),
        _ => {
            eprintln!("unknown property {}", id);
            std::process::exit(2);
        }
    }
    std::process::exit(ctx.finish());
}
