//! E4 — drivers for the real language server: in-process (memory connection,
//! probe project publishing the complete server state) and over stdio against
//! the real binary. A probe request is used as a barrier, never a sleep.

use crossbeam_channel::RecvTimeoutError;
use ironplc_dsl::{core::FileId, diagnostic::Diagnostic};
use ironplc_parser::token::Token;
use ironplcc::lsp_project::LspProject;
use ironplcc::project::{FileBackedProject, Project};
use ironplcc::verif::Source;
use lsp_server::{Connection, Message};
use serde_json::{json, Value};
use std::collections::BTreeSet;
use std::io::{BufRead, BufReader, Read, Write};
use std::path::Path;
use std::process::{Child, Command, Stdio};
use std::sync::{Arc, Mutex};
use std::time::Duration;

pub const WATCHDOG: Duration = Duration::from_secs(20);
pub const PROBE_URI: &str = "file:///nonexistent/probe.st";

/// Project wrapper: delegates to the real FileBackedProject, fixes the file
/// iteration order through the H2 seam and publishes the complete state.
struct Probe {
    inner: FileBackedProject,
    cell: Arc<Mutex<String>>,
    texts: Arc<Mutex<std::collections::BTreeMap<String, String>>>,
    order: Option<Vec<usize>>,
}

impl Probe {
    fn publish(&self) {
        let mut v: Vec<String> = self
            .inner
            .sources()
            .iter()
            .map(|s| format!("{:?}", s))
            .collect();
        v.sort();
        *self.cell.lock().unwrap() = v.join("\n");
        *self.texts.lock().unwrap() = self
            .inner
            .sources()
            .iter()
            .map(|s| (s.file_id().to_string(), s.as_string().to_string()))
            .collect();
    }
}

impl Project for Probe {
    fn initialize(&mut self, dir: &Path) -> Vec<Diagnostic> {
        let r = self.inner.initialize(dir);
        self.publish();
        r
    }
    fn change_text_document(&mut self, f: &FileId, c: String) {
        self.inner.change_text_document(f, c);
        self.publish();
    }
    fn tokenize(&self, f: &FileId) -> (Vec<Token>, Vec<Diagnostic>) {
        self.inner.tokenize(f)
    }
    fn semantic(&mut self) -> Result<(), Vec<Diagnostic>> {
        ironplcc::verif::set_order(self.order.clone());
        let r = self.inner.semantic();
        ironplcc::verif::set_order(None);
        self.publish();
        r
    }
    fn sources(&self) -> Vec<&Source> {
        self.inner.sources()
    }
    fn sources_mut(&mut self) -> Vec<&mut Source> {
        self.inner.sources_mut()
    }
    fn find(&self, f: &FileId) -> Option<&Source> {
        self.inner.find(f)
    }
}

#[derive(Debug, Clone, PartialEq, Eq)]
pub enum Status {
    Alive,
    Dead,
    Hung,
}

#[derive(Debug, Clone)]
pub struct StepObs {
    pub status: Status,
    /// every message the server sent before the probe response (JSON-RPC objects)
    pub msgs: Vec<Value>,
}

/// One client event: a JSON-RPC object without the "jsonrpc" member. Requests carry "id".
#[derive(Clone, Debug)]
pub struct Ev {
    pub name: String,
    pub msg: Value,
}

impl Ev {
    pub fn is_request(&self) -> bool {
        self.msg.get("method").is_some() && self.msg.get("id").is_some()
    }
}

pub fn did_open(uri: &str, version: i64, text: &str) -> Value {
    json!({"method":"textDocument/didOpen","params":{"textDocument":{"uri":uri,"languageId":"61131-3-st","version":version,"text":text}}})
}
pub fn did_change(uri: &str, version: i64, texts: &[&str]) -> Value {
    json!({"method":"textDocument/didChange","params":{"textDocument":{"uri":uri,"version":version},
        "contentChanges": texts.iter().map(|t| json!({"text": t})).collect::<Vec<Value>>()}})
}
pub fn tokens_req(id: i64, uri: &str) -> Value {
    json!({"id":id,"method":"textDocument/semanticTokens/full","params":{"textDocument":{"uri":uri}}})
}

/// Well-formed client notifications that are no edit of any document (LSP 3.17): after any of them every
/// document the client has open still has the text the client last sent, so diagnostics and tokens are unchanged.
/// (textDocument/didClose is not in this menu: what a server keeps of a closed document is its own choice.)
pub fn neutral_notifications(uri: &str, other: &str) -> Vec<(&'static str, Value)> {
    vec![
        ("textDocument/didSave", json!({"method":"textDocument/didSave","params":{"textDocument":{"uri":uri}}})),
        ("textDocument/didSave(with text)", json!({"method":"textDocument/didSave","params":{"textDocument":{"uri":uri},"text":"PROGRAM saved END_PROGRAM"}})),
        ("textDocument/willSave", json!({"method":"textDocument/willSave","params":{"textDocument":{"uri":uri},"reason":1}})),
        ("workspace/didChangeWorkspaceFolders(added)", json!({"method":"workspace/didChangeWorkspaceFolders","params":{"event":{"added":[{"uri":"file:///w","name":"w"}],"removed":[]}}})),
        ("workspace/didChangeWorkspaceFolders(added other)", json!({"method":"workspace/didChangeWorkspaceFolders","params":{"event":{"added":[{"uri":"file:///tmp","name":"tmp"}],"removed":[]}}})),
        ("workspace/didChangeWorkspaceFolders(removed)", json!({"method":"workspace/didChangeWorkspaceFolders","params":{"event":{"added":[],"removed":[{"uri":"file:///w","name":"w"}]}}})),
        ("workspace/didChangeWatchedFiles(changed)", json!({"method":"workspace/didChangeWatchedFiles","params":{"changes":[{"uri":uri,"type":2}]}})),
        ("workspace/didChangeWatchedFiles(deleted)", json!({"method":"workspace/didChangeWatchedFiles","params":{"changes":[{"uri":uri,"type":3},{"uri":other,"type":1}]}})),
        ("workspace/didChangeConfiguration", json!({"method":"workspace/didChangeConfiguration","params":{"settings":{"ironplc":{"x":1}}}})),
        ("workspace/didCreateFiles", json!({"method":"workspace/didCreateFiles","params":{"files":[{"uri":other}]}})),
        ("workspace/didRenameFiles", json!({"method":"workspace/didRenameFiles","params":{"files":[{"oldUri":uri,"newUri":other}]}})),
        ("workspace/didDeleteFiles", json!({"method":"workspace/didDeleteFiles","params":{"files":[{"uri":uri}]}})),
        ("$/setTrace", json!({"method":"$/setTrace","params":{"value":"verbose"}})),
        ("$/cancelRequest", json!({"method":"$/cancelRequest","params":{"id":1}})),
        ("$/progress", json!({"method":"$/progress","params":{"token":"t","value":{"kind":"begin","title":"x"}}})),
        ("window/workDoneProgress/cancel", json!({"method":"window/workDoneProgress/cancel","params":{"token":"t"}})),
        ("initialized(again)", json!({"method":"initialized","params":{}})),
        ("notebookDocument/didOpen", json!({"method":"notebookDocument/didOpen","params":{"notebookDocument":{"uri":"file:///w/n.ipynb","notebookType":"x","version":1,"cells":[]},"cellTextDocuments":[]}})),
    ]
}

fn to_message(v: &Value) -> Message {
    let mut v = v.clone();
    if v.get("method").is_some() && v.get("params").is_none() {
        v["params"] = Value::Null;
    }
    serde_json::from_value::<Message>(v).expect("well-formed JSON-RPC message")
}

pub trait Server {
    /// Sends one message, then the probe barrier; returns what arrived in between.
    fn step(&mut self, msg: &Value) -> StepObs;
    /// shutdown + exit; returns Ok(description) when the server terminated cleanly.
    fn finish(self: Box<Self>) -> Result<String, String> {
        self.finish_collect().0
    }
    /// like finish, also returning every message received before the shutdown response.
    fn finish_collect(self: Box<Self>) -> (Result<String, String>, Vec<Value>);
    /// the complete server state rendering, if this driver can observe it
    fn state(&self) -> Option<String>;
    /// file id -> current text held by the server, if this driver can observe it
    fn texts(&self) -> Option<std::collections::BTreeMap<String, String>> {
        None
    }
}

pub struct MemSrv {
    c: Connection,
    h: Option<std::thread::JoinHandle<Result<(), String>>>,
    cell: Arc<Mutex<String>>,
    texts: Arc<Mutex<std::collections::BTreeMap<String, String>>>,
    next: i64,
    /// the shutdown request and exit notification `finish` sends (id 2)
    pub closing: (Value, Value),
}

impl MemSrv {
    pub fn new(order: Option<Vec<usize>>) -> MemSrv {
        let (sc, cc) = Connection::memory();
        let cell = Arc::new(Mutex::new(String::new()));
        let texts = Arc::new(Mutex::new(std::collections::BTreeMap::new()));
        let p = Probe {
            inner: FileBackedProject::new(),
            cell: cell.clone(),
            texts: texts.clone(),
            order,
        };
        let h = std::thread::Builder::new()
            .stack_size(8 << 20)
            .spawn(move || ironplcc::verif::serve(sc, LspProject::new(Box::new(p))))
            .expect("spawn server thread");
        let s = MemSrv {
            c: cc,
            h: Some(h),
            cell,
            texts,
            next: 1_000_000,
            closing: (json!({"id":2,"method":"shutdown","params":null}), json!({"method":"exit","params":null})),
        };
        s.c.sender
            .send(to_message(
                &json!({"id":1,"method":"initialize","params":{"capabilities":{}}}),
            ))
            .unwrap();
        let _ = s.c.receiver.recv_timeout(WATCHDOG);
        s.c.sender
            .send(to_message(&json!({"method":"initialized","params":{}})))
            .unwrap();
        s
    }
}

impl MemSrv {
    /// A client that runs ahead: all messages are sent before anything is read, then the barrier.
    pub fn burst(&mut self, msgs: &[Value]) -> StepObs {
        for m in msgs {
            if self.c.sender.send(to_message(m)).is_err() {
                return StepObs { status: Status::Dead, msgs: vec![] };
            }
        }
        self.next += 1;
        let pid = self.next;
        if self.c.sender.send(to_message(&tokens_req(pid, PROBE_URI))).is_err() {
            return StepObs { status: Status::Dead, msgs: vec![] };
        }
        let mut out = vec![];
        loop {
            match self.c.receiver.recv_timeout(WATCHDOG) {
                Ok(m) => {
                    let v = serde_json::to_value(&m).unwrap();
                    if v.get("method").is_none() && v["id"] == json!(pid) {
                        return StepObs { status: Status::Alive, msgs: out };
                    }
                    out.push(v);
                }
                Err(RecvTimeoutError::Disconnected) => return StepObs { status: Status::Dead, msgs: out },
                Err(RecvTimeoutError::Timeout) => return StepObs { status: Status::Hung, msgs: out },
            }
        }
    }
}

impl MemSrv {
    /// A client that closes at once: the messages, the shutdown request and the exit notification are all
    /// sent before anything is read. Returns how the server ended and everything it sent.
    pub fn close_after(mut self, msgs: &[Value]) -> (Result<String, String>, Vec<Value>) {
        for m in msgs {
            let _ = self.c.sender.send(to_message(m));
        }
        let _ = self.c.sender.send(to_message(&self.closing.0));
        let _ = self.c.sender.send(to_message(&self.closing.1));
        let h = self.h.take().unwrap();
        let t0 = std::time::Instant::now();
        while !h.is_finished() {
            if t0.elapsed() > WATCHDOG {
                return (Err("server thread did not terminate after shutdown+exit".into()), vec![]);
            }
            std::thread::sleep(Duration::from_micros(50));
        }
        let mut shutdown_responses = 0u32;
        let mut out = vec![];
        while let Ok(m) = self.c.receiver.try_recv() {
            let v = serde_json::to_value(&m).unwrap();
            if v.get("method").is_none() && v["id"] == json!(2) {
                shutdown_responses += 1;
            } else {
                out.push(v);
            }
        }
        let r = match h.join() {
            Ok(Ok(())) if shutdown_responses == 1 => Ok("Ok(())".into()),
            Ok(Ok(())) => Err(format!("returned Ok(()) but the shutdown request was answered {} times", shutdown_responses)),
            Ok(Err(e)) => Err(format!("server returned Err({}) (shutdown answered {} times)", e, shutdown_responses)),
            Err(_) => Err("server thread panicked".into()),
        };
        (r, out)
    }
}

impl Server for MemSrv {
    fn step(&mut self, msg: &Value) -> StepObs {
        if self.c.sender.send(to_message(msg)).is_err() {
            return StepObs {
                status: Status::Dead,
                msgs: vec![],
            };
        }
        self.next += 1;
        let pid = self.next;
        if self
            .c
            .sender
            .send(to_message(&tokens_req(pid, PROBE_URI)))
            .is_err()
        {
            return StepObs {
                status: Status::Dead,
                msgs: vec![],
            };
        }
        let mut out = vec![];
        loop {
            match self.c.receiver.recv_timeout(WATCHDOG) {
                Ok(m) => {
                    let v = serde_json::to_value(&m).unwrap();
                    if v.get("method").is_none() && v["id"] == json!(pid) {
                        return StepObs {
                            status: Status::Alive,
                            msgs: out,
                        };
                    }
                    out.push(v);
                }
                Err(RecvTimeoutError::Disconnected) => {
                    return StepObs {
                        status: Status::Dead,
                        msgs: out,
                    }
                }
                Err(RecvTimeoutError::Timeout) => {
                    return StepObs {
                        status: Status::Hung,
                        msgs: out,
                    }
                }
            }
        }
    }

    fn finish_collect(mut self: Box<Self>) -> (Result<String, String>, Vec<Value>) {
        let _ = self.c.sender.send(to_message(&self.closing.0));
        let mut shutdown_responses = 0u32;
        let mut extra = vec![];
        loop {
            match self.c.receiver.recv_timeout(Duration::from_secs(5)) {
                Ok(m) => {
                    let v = serde_json::to_value(&m).unwrap();
                    if v.get("method").is_none() && v["id"] == json!(2) {
                        shutdown_responses += 1;
                        break;
                    }
                    extra.push(v);
                }
                Err(_) => break,
            }
        }
        let _ = self.c.sender.send(to_message(&self.closing.1));
        let h = self.h.take().unwrap();
        // join with a watchdog: poll is_finished
        let t0 = std::time::Instant::now();
        while !h.is_finished() {
            if t0.elapsed() > WATCHDOG {
                return (Err("server thread did not terminate after shutdown+exit".into()), extra);
            }
            std::thread::sleep(Duration::from_micros(50));
        }
        // whatever the server still sent before it ended (a second answer to the shutdown request would be here)
        while let Ok(m) = self.c.receiver.try_recv() {
            let v = serde_json::to_value(&m).unwrap();
            if v.get("method").is_none() && v["id"] == json!(2) {
                shutdown_responses += 1;
            } else {
                extra.push(v);
            }
        }
        let r = match h.join() {
            Ok(Ok(())) if shutdown_responses == 1 => Ok("Ok(())".into()),
            Ok(Ok(())) if shutdown_responses == 0 => Err("returned Ok(()) but shutdown was never answered".into()),
            Ok(Ok(())) => Err(format!("the shutdown request was answered {} times", shutdown_responses)),
            Ok(Err(e)) => Err(format!("server returned Err({})", e)),
            Err(_) => Err("server thread panicked".into()),
        };
        (r, extra)
    }

    fn state(&self) -> Option<String> {
        Some(self.cell.lock().unwrap().clone())
    }

    fn texts(&self) -> Option<std::collections::BTreeMap<String, String>> {
        Some(self.texts.lock().unwrap().clone())
    }
}

impl Drop for MemSrv {
    fn drop(&mut self) {
        // Make sure an unfinished server thread can end: dropping the connection disconnects it.
    }
}

// ---------------------------------------------------------------------------
// stdio driver for the real binary

pub fn ironplcc_path() -> String {
    std::env::var("VERIF_IRONPLCC").unwrap_or_else(|_| "/verif/target/bin-off/release/ironplcc".into())
}

pub struct StdioSrv {
    child: Child,
    rx: crossbeam_channel::Receiver<Value>,
    next: i64,
    _scratch: crate::util::Scratch,
}

fn write_frame(w: &mut dyn Write, v: &Value) -> std::io::Result<()> {
    let mut v = v.clone();
    v["jsonrpc"] = json!("2.0");
    let body = serde_json::to_string(&v).unwrap();
    write!(w, "Content-Length: {}\r\n\r\n{}", body.len(), body)?;
    w.flush()
}

fn read_frame(r: &mut BufReader<impl Read>) -> Option<Value> {
    let mut len: Option<usize> = None;
    loop {
        let mut line = String::new();
        let n = r.read_line(&mut line).ok()?;
        if n == 0 {
            return None;
        }
        let l = line.trim_end();
        if l.is_empty() {
            break;
        }
        if let Some(v) = l.strip_prefix("Content-Length:") {
            len = v.trim().parse().ok();
        }
    }
    let len = len?;
    let mut buf = vec![0u8; len];
    r.read_exact(&mut buf).ok()?;
    serde_json::from_slice(&buf).ok()
}

impl StdioSrv {
    pub fn new() -> Result<StdioSrv, String> {
        StdioSrv::with_flags(&[])
    }
    /// `flags` go before the command (`-vvvv`: logging is no part of the protocol)
    pub fn with_flags(flags: &[&str]) -> Result<StdioSrv, String> {
        StdioSrv::with_init(flags, &json!({"capabilities":{}}))
    }
    /// the parameters of the initialize request are the caller's (workspace folders, client capabilities …)
    pub fn with_init(flags: &[&str], params: &Value) -> Result<StdioSrv, String> {
        let scratch = crate::util::Scratch::new("lsp");
        let mut child = Command::new(ironplcc_path())
            .args(flags)
            .args(["lsp", "--stdio"])
            .env("TMPDIR", &scratch.path)
            .stdin(Stdio::piped())
            .stdout(Stdio::piped())
            .stderr(Stdio::null())
            .spawn()
            .map_err(|e| format!("cannot spawn {}: {}", ironplcc_path(), e))?;
        let stdout = child.stdout.take().unwrap();
        let (tx, rx) = crossbeam_channel::unbounded();
        std::thread::spawn(move || {
            let mut r = BufReader::new(stdout);
            while let Some(v) = read_frame(&mut r) {
                if tx.send(v).is_err() {
                    break;
                }
            }
        });
        let mut s = StdioSrv {
            child,
            rx,
            next: 1_000_000,
            _scratch: scratch,
        };
        s.send(&json!({"id":1,"method":"initialize","params":params}))
            .map_err(|e| e.to_string())?;
        match s.rx.recv_timeout(WATCHDOG) {
            Ok(_) => {}
            Err(_) => return Err("no initialize response from the binary".into()),
        }
        s.send(&json!({"method":"initialized","params":{}}))
            .map_err(|e| e.to_string())?;
        Ok(s)
    }
    fn send(&mut self, v: &Value) -> std::io::Result<()> {
        let stdin = self.child.stdin.as_mut().unwrap();
        write_frame(stdin, v)
    }
}

impl Server for StdioSrv {
    fn step(&mut self, msg: &Value) -> StepObs {
        if self.send(msg).is_err() {
            return StepObs {
                status: Status::Dead,
                msgs: vec![],
            };
        }
        self.next += 1;
        let pid = self.next;
        if self.send(&tokens_req(pid, PROBE_URI)).is_err() {
            return StepObs {
                status: Status::Dead,
                msgs: vec![],
            };
        }
        let mut out = vec![];
        loop {
            match self.rx.recv_timeout(WATCHDOG) {
                Ok(mut v) => {
                    if let Some(o) = v.as_object_mut() {
                        o.remove("jsonrpc");
                    }
                    if v.get("method").is_none() && v["id"] == json!(pid) {
                        return StepObs {
                            status: Status::Alive,
                            msgs: out,
                        };
                    }
                    out.push(v);
                }
                Err(RecvTimeoutError::Disconnected) => {
                    return StepObs {
                        status: Status::Dead,
                        msgs: out,
                    }
                }
                Err(RecvTimeoutError::Timeout) => {
                    return StepObs {
                        status: Status::Hung,
                        msgs: out,
                    }
                }
            }
        }
    }

    fn finish_collect(mut self: Box<Self>) -> (Result<String, String>, Vec<Value>) {
        let _ = self.send(&json!({"id":2,"method":"shutdown","params":null}));
        let mut got = false;
        let mut extra = vec![];
        loop {
            match self.rx.recv_timeout(Duration::from_secs(5)) {
                Ok(mut v) => {
                    if let Some(o) = v.as_object_mut() {
                        o.remove("jsonrpc");
                    }
                    if v.get("method").is_none() && v["id"] == json!(2) {
                        got = true;
                        break;
                    }
                    extra.push(v);
                }
                Err(_) => break,
            }
        }
        let _ = self.send(&json!({"method":"exit","params":null}));
        drop(self.child.stdin.take());
        let t0 = std::time::Instant::now();
        loop {
            match self.child.try_wait() {
                Ok(Some(st)) => {
                    let r = if st.success() && got {
                        Ok("exit status 0".into())
                    } else {
                        Err(format!(
                            "exit status {:?} (shutdown answered: {})",
                            st.code(),
                            got
                        ))
                    };
                    return (r, extra);
                }
                Ok(None) => {
                    if t0.elapsed() > WATCHDOG {
                        let _ = self.child.kill();
                        let _ = self.child.wait();
                        return (Err("binary did not terminate after shutdown+exit".into()), extra);
                    }
                    std::thread::sleep(Duration::from_millis(2));
                }
                Err(e) => return (Err(format!("wait failed: {}", e)), extra),
            }
        }
    }

    fn state(&self) -> Option<String> {
        None
    }
}

impl Drop for StdioSrv {
    fn drop(&mut self) {
        let _ = self.child.kill();
        let _ = self.child.wait();
    }
}

// ---------------------------------------------------------------------------
// normalisation of observations

/// (code, start line, start character) of every diagnostic of a publishDiagnostics notification.
pub fn diag_set(notif: &Value) -> BTreeSet<(String, u64, u64)> {
    let mut s = BTreeSet::new();
    if let Some(a) = notif["params"]["diagnostics"].as_array() {
        for d in a {
            s.insert((
                d["code"].as_str().unwrap_or("?").to_string(),
                d["range"]["start"]["line"].as_u64().unwrap_or(u64::MAX),
                d["range"]["start"]["character"].as_u64().unwrap_or(u64::MAX),
            ));
        }
    }
    s
}

/// A compact, comparable rendering of one server message.
pub fn render_msg(v: &Value) -> String {
    if v.get("method").is_some() {
        if v.get("id").is_some() {
            format!("server-request {}", v["method"].as_str().unwrap_or("?"))
        } else if v["method"] == "textDocument/publishDiagnostics" {
            format!(
                "publishDiagnostics uri={} version={} diags={:?}",
                v["params"]["uri"].as_str().unwrap_or("?"),
                v["params"]["version"],
                diag_set(v)
            )
        } else {
            format!("notification {}", v["method"].as_str().unwrap_or("?"))
        }
    } else if v.get("error").is_some() {
        format!("response id={} error", v["id"])
    } else {
        let r = &v["result"];
        let shape = if r.is_null() {
            "null".to_string()
        } else if let Some(d) = r.get("data").and_then(|d| d.as_array()) {
            format!("tokens[{}]", d.len())
        } else {
            "value".to_string()
        };
        format!("response id={} result={}", v["id"], shape)
    }
}

pub fn render_obs(o: &StepObs) -> String {
    let mut s = format!("{:?}", o.status);
    for m in &o.msgs {
        s.push_str(" | ");
        s.push_str(&render_msg(m));
    }
    s
}
