//! Deviation-bounded exploration of choice sequences (engine core of E1/E3).
//!
//! A generator is an ordinary function that asks a `Chooser` at every choice
//! point. Alternative 0 is the default. `explore(bound, f)` runs `f` on every
//! choice sequence whose accumulated cost (sum of the costs of the non-default
//! alternatives taken) is at most `bound`. Cost-0 points are always fully
//! expanded. This is the iterative-context-bounding loop with "preemption"
//! replaced by "departure from the default alternative".

#[derive(Clone, Debug)]
pub struct Point {
    pub chosen: usize,
    pub n: usize,
    pub cost: u32,
}

pub struct Chooser {
    prefix: Vec<usize>,
    pub trace: Vec<Point>,
    /// `name=alternative` for every non-default choice taken, in order.
    pub labels: Vec<String>,
}

impl Chooser {
    pub fn new(prefix: Vec<usize>) -> Self {
        Chooser {
            prefix,
            trace: vec![],
            labels: vec![],
        }
    }

    /// Choose among `alts.len()` alternatives; alternative 0 is the default;
    /// a non-default alternative costs `cost`.
    pub fn pick(&mut self, name: &str, alts: &[&str], cost: u32) -> usize {
        let n = alts.len();
        assert!(n > 0);
        let i = self.trace.len();
        let c = if i < self.prefix.len() {
            let c = self.prefix[i];
            assert!(
                c < n,
                "replay divergence at point {} ({}): {} !< {}",
                i,
                name,
                c,
                n
            );
            c
        } else {
            0
        };
        self.trace.push(Point { chosen: c, n, cost });
        if c != 0 {
            self.labels.push(format!("{}={}", name, alts[c]));
        }
        c
    }

    /// Numeric alternatives 0..n.
    pub fn num(&mut self, name: &str, n: usize, cost: u32) -> usize {
        let i = self.trace.len();
        let c = if i < self.prefix.len() {
            let c = self.prefix[i];
            assert!(c < n, "replay divergence at point {} ({})", i, name);
            c
        } else {
            0
        };
        self.trace.push(Point { chosen: c, n, cost });
        if c != 0 {
            self.labels.push(format!("{}={}", name, c));
        }
        c
    }

    pub fn cost(&self) -> u32 {
        self.trace
            .iter()
            .map(|p| if p.chosen != 0 { p.cost } else { 0 })
            .sum()
    }

    pub fn choices(&self) -> Vec<usize> {
        self.trace.iter().map(|p| p.chosen).collect()
    }
}

/// Runs `f` on every choice sequence whose total cost is <= bound. Returns the number of runs.
pub fn explore<F: FnMut(&mut Chooser)>(bound: u32, mut f: F) -> u64 {
    let mut runs = 0u64;
    let mut stack: Vec<Vec<usize>> = vec![vec![]];
    while let Some(prefix) = stack.pop() {
        let plen = prefix.len();
        let mut ch = Chooser::new(prefix);
        f(&mut ch);
        runs += 1;
        assert!(
            ch.trace.len() >= plen,
            "replay divergence: generator consumed fewer choices than the prefix"
        );
        let mut acc = 0u32;
        let mut cost_before = Vec::with_capacity(ch.trace.len());
        for p in &ch.trace {
            cost_before.push(acc);
            if p.chosen != 0 {
                acc += p.cost;
            }
        }
        for i in (plen..ch.trace.len()).rev() {
            let p = &ch.trace[i];
            if cost_before[i] + p.cost > bound {
                continue;
            }
            for alt in (1..p.n).rev() {
                let mut np: Vec<usize> = ch.trace[..i].iter().map(|t| t.chosen).collect();
                np.push(alt);
                stack.push(np);
            }
        }
    }
    runs
}

/// Collects all choice sequences (as prefixes) within the bound, so that they
/// can be processed in parallel afterwards. `f` must be deterministic.
pub fn collect<T: Send, F: FnMut(&mut Chooser) -> T>(bound: u32, mut f: F) -> Vec<T> {
    let mut out = vec![];
    explore(bound, |ch| out.push(f(ch)));
    out
}

/// All permutations of 0..n (n! items), in lexicographic order.
pub fn permutations(n: usize) -> Vec<Vec<usize>> {
    fn rec(cur: &mut Vec<usize>, used: &mut Vec<bool>, n: usize, out: &mut Vec<Vec<usize>>) {
        if cur.len() == n {
            out.push(cur.clone());
            return;
        }
        for i in 0..n {
            if !used[i] {
                used[i] = true;
                cur.push(i);
                rec(cur, used, n, out);
                cur.pop();
                used[i] = false;
            }
        }
    }
    let mut out = vec![];
    rec(&mut vec![], &mut vec![false; n], n, &mut out);
    out
}

/// All ways to split a sequence of n items into k >= 1 contiguous non-empty
/// blocks with k <= max_blocks; each result is the list of block lengths.
pub fn compositions(n: usize, max_blocks: usize) -> Vec<Vec<usize>> {
    fn rec(rem: usize, left: usize, cur: &mut Vec<usize>, out: &mut Vec<Vec<usize>>) {
        if rem == 0 {
            if !cur.is_empty() {
                out.push(cur.clone());
            }
            return;
        }
        if left == 0 {
            return;
        }
        for take in 1..=rem {
            cur.push(take);
            rec(rem - take, left - 1, cur, out);
            cur.pop();
        }
    }
    let mut out = vec![];
    rec(n, max_blocks, &mut vec![], &mut out);
    out
}

/// All assignments of n items to at most k labelled-by-first-occurrence files
/// (set partitions into <= k blocks, as restricted growth strings).
pub fn set_partitions(n: usize, k: usize) -> Vec<Vec<usize>> {
    fn rec(i: usize, n: usize, k: usize, maxb: usize, cur: &mut Vec<usize>, out: &mut Vec<Vec<usize>>) {
        if i == n {
            out.push(cur.clone());
            return;
        }
        for b in 0..=maxb.min(k - 1) {
            cur.push(b);
            let nm = if b == maxb { maxb + 1 } else { maxb };
            rec(i + 1, n, k, nm, cur, out);
            cur.pop();
        }
    }
    let mut out = vec![];
    if n == 0 {
        return vec![vec![]];
    }
    rec(0, n, k, 0, &mut vec![], &mut out);
    out
}

#[cfg(test)]
mod tests {
    use super::*;
    #[test]
    fn counts() {
        // two binary choices cost 1 each, bound 1 => 3 runs; bound 2 => 4
        let f = |ch: &mut Chooser| {
            ch.num("a", 2, 1);
            ch.num("b", 2, 1);
        };
        assert_eq!(explore(0, f), 1);
        assert_eq!(explore(1, f), 3);
        assert_eq!(explore(2, f), 4);
        assert_eq!(permutations(4).len(), 24);
        assert_eq!(set_partitions(4, 4).len(), 15);
        assert_eq!(set_partitions(4, 2).len(), 8);
    }
}
