//! Hand-written base programs as lexeme lists (valid, check OK on the pinned tree) that
//! between them contain every lexeme class the lexer distinguishes. Used as hosts by C04, C05,
//! C13, C14 and C15; the grammar-derived programs of C01 are added by those checks themselves.

use crate::lex::*;

pub struct Doc {
    pub name: &'static str,
    pub lx: Lx,
}

pub fn doc_types_and_fb() -> Doc {
    let mut l = Lx::new();
    l.words("TYPE Level : ( Low , High ) := Low ; Pt : STRUCT x : INT ; y : INT := 2 ; END_STRUCT ; Rng : INT ( -10 .. 10 ) ; Arr : ARRAY [ 1 .. 3 ] OF INT ; END_TYPE");
    l.words("FUNCTION_BLOCK Worker VAR_INPUT a : INT ; b : BOOL ; END_VAR VAR_OUTPUT q : INT ; END_VAR VAR i : INT ; r : REAL := 1.5 ; t : TIME := T#5ms ; w : WORD := 16#FF ; s : STRING := 'hi' ; END_VAR");
    l.words("IF a > 1 AND b OR NOT b THEN q := a + 2 * 3 ; ELSIF a <= -1 THEN q := a MOD 2 ; ELSE q := ( a - 1 ) / 2 ; END_IF ;");
    l.words("CASE a OF 1 : q := 1 ; 2 , 3 : q := 2 ; ELSE q := 0 ; END_CASE ;");
    l.words("FOR i := 1 TO 10 BY 2 DO q := q + i ; END_FOR ; WHILE q > 100 DO q := q - 1 ; END_WHILE ; REPEAT q := q + 1 ; UNTIL q >= 5 END_REPEAT ;");
    l.words("END_FUNCTION_BLOCK");
    Doc { name: "types+fb", lx: l }
}

pub fn doc_program_and_config() -> Doc {
    let mut l = Lx::new();
    l.words("FUNCTION_BLOCK Callee VAR_INPUT a : INT ; END_VAR VAR_OUTPUT q : INT ; END_VAR q := a ; END_FUNCTION_BLOCK");
    l.words("PROGRAM Main VAR inst : Callee ; x : INT ; y : INT ; END_VAR VAR CONSTANT k : INT := INT#7 ; END_VAR VAR RETAIN m : INT ; END_VAR VAR_EXTERNAL CONSTANT G : INT ; END_VAR");
    l.words("inst ( a := x , q => y ) ; x := y ** 2 ; y := x XOR k ; m := G ; END_PROGRAM");
    l.words("CONFIGURATION cfg VAR_GLOBAL CONSTANT G : INT := 1 ; END_VAR RESOURCE res ON PLC TASK tsk ( INTERVAL := T#100ms , PRIORITY := 1 ) ; PROGRAM p1 WITH tsk : Main ; END_RESOURCE END_CONFIGURATION");
    Doc { name: "program+config", lx: l }
}

pub fn doc_located() -> Doc {
    let mut l = Lx::new();
    l.words("PROGRAM Io VAR inp AT %IX1 : BOOL ; outp AT %QW2 : INT ; END_VAR VAR cnt : INT ; txt : STRING [ 10 ] ; END_VAR");
    l.words("IF inp THEN cnt := cnt + 1 ; END_IF ; outp := cnt ; END_PROGRAM");
    Doc { name: "located", lx: l }
}

pub fn docs() -> Vec<Doc> {
    vec![doc_types_and_fb(), doc_program_and_config(), doc_located()]
}

/// Trivia menu (C08 / C15 / C05): (label, text). Every member is legal IEC 61131-3 trivia.
pub fn trivia_menu() -> Vec<(&'static str, &'static str)> {
    vec![
        ("blank", " "),
        ("two-blanks", "  "),
        ("tab", "\t"),
        ("lf", "\n"),
        ("crlf", "\r\n"),
        ("comment", " (* c *) "),
        ("comment-tight", "(* c *)"),
        ("empty-comment", " (**) "),
        ("comment-with-stars", " (* a * b *) "),
        ("comment-with-open-paren-star", " (* (* *) "),
        ("comment-three-stars", " (***) "),
        ("comment-starting-with-close-paren", " (*) x *) "),
        ("comment-ending-with-open-paren", " (* x (*) "),
        ("multi-line-comment", " (* a\n   b *) "),
        ("multi-line-comment-crlf", " (* a\r\n   b *)\r\n"),
        ("non-ascii-comment", " (* \u{e9}\u{20ac}\u{1F600} *) "),
        ("multi-line-comment-non-ascii-last-line", " (* a\n \u{e9}\u{20ac} b *) "),
        ("two-comments", " (* a *) (* b *) "),
        ("blank-comment-lf", " (* c *)\n"),
        ("lf-comment", "\n(* c *) "),
        ("form-feed", "\u{c}"),
    ]
}
