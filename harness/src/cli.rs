//! E5 — process driver for the real `ironplcc` binary (hooks off) and a parser
//! for its codespan-formatted stderr.

use std::path::Path;
use std::process::{Command, Stdio};
use std::time::{Duration, Instant};

#[derive(Debug, Clone)]
pub struct CliDiag {
    pub code: String,
    /// the first location block of the diagnostic, if any: (path, 1-based line, 1-based column)
    pub at: Option<(String, u64, u64)>,
    /// every location block of the diagnostic (one per file that has a label), in printed order
    pub all_at: Vec<(String, u64, u64)>,
}

#[derive(Debug, Clone)]
pub struct CliRun {
    /// Some(code) for a normal exit, None when killed by a signal
    pub exit: Option<i32>,
    pub signal: Option<i32>,
    pub timed_out: bool,
    pub stdout: String,
    pub stderr: String,
    pub diags: Vec<CliDiag>,
    pub has_ok_line: bool,
}

impl CliRun {
    pub fn crashed(&self) -> bool {
        self.signal.is_some() || self.exit == Some(101) || self.timed_out
    }
    pub fn codes(&self) -> Vec<String> {
        let mut c: Vec<String> = self.diags.iter().map(|d| d.code.clone()).collect();
        c.sort();
        c
    }
    pub fn summary(&self) -> String {
        format!(
            "exit={} ok_line={} codes={:?}",
            match (self.exit, self.signal, self.timed_out) {
                (_, _, true) => "timeout".to_string(),
                (Some(c), _, _) => c.to_string(),
                (None, Some(s), _) => format!("signal{}", s),
                _ => "?".to_string(),
            },
            self.has_ok_line,
            self.codes()
        )
    }
}

pub fn strip_ansi(s: &str) -> String {
    let mut out = String::with_capacity(s.len());
    let mut it = s.chars().peekable();
    while let Some(c) = it.next() {
        if c == '\u{1b}' {
            if it.peek() == Some(&'[') {
                it.next();
                for d in it.by_ref() {
                    if d.is_ascii_alphabetic() {
                        break;
                    }
                }
            }
        } else {
            out.push(c);
        }
    }
    out
}

pub fn parse_stderr(stderr: &str) -> Vec<CliDiag> {
    let clean = strip_ansi(stderr);
    let mut out: Vec<CliDiag> = vec![];
    for line in clean.lines() {
        let t = line.trim_start();
        if let Some(rest) = t.strip_prefix("error[") {
            if let Some(end) = rest.find(']') {
                out.push(CliDiag {
                    code: rest[..end].to_string(),
                    at: None,
                    all_at: vec![],
                });
            }
        } else if let Some(idx) = t.find("┌─ ") {
            let loc = t[idx + "┌─ ".len()..].trim();
            // path:line:col — split from the right
            let mut parts = loc.rsplitn(3, ':');
            let col = parts.next().and_then(|x| x.parse::<u64>().ok());
            let line_no = parts.next().and_then(|x| x.parse::<u64>().ok());
            let path = parts.next();
            if let (Some(c), Some(l), Some(p), Some(last)) = (col, line_no, path, out.last_mut()) {
                if last.at.is_none() {
                    last.at = Some((p.to_string(), l, c));
                }
                last.all_at.push((p.to_string(), l, c));
            }
        }
    }
    out
}

pub fn ironplcc() -> String {
    crate::lspx::ironplcc_path()
}

/// Runs `ironplcc <args>` with its own TMPDIR (the binary writes a log file there).
pub fn run(args: &[&str], tmpdir: &Path, timeout: Duration) -> CliRun {
    let mut child = Command::new(ironplcc())
        .args(args)
        .env("TMPDIR", tmpdir)
        .stdin(Stdio::null())
        .stdout(Stdio::piped())
        .stderr(Stdio::piped())
        .spawn()
        .expect("spawn ironplcc");
    let mut so = child.stdout.take().unwrap();
    let mut se = child.stderr.take().unwrap();
    let t1 = std::thread::spawn(move || {
        let mut b = Vec::new();
        let _ = std::io::Read::read_to_end(&mut so, &mut b);
        b
    });
    let t2 = std::thread::spawn(move || {
        let mut b = Vec::new();
        let _ = std::io::Read::read_to_end(&mut se, &mut b);
        b
    });
    let t0 = Instant::now();
    let mut timed_out = false;
    let status = loop {
        match child.try_wait() {
            Ok(Some(st)) => break st,
            Ok(None) => {
                if t0.elapsed() > timeout {
                    timed_out = true;
                    let _ = child.kill();
                    break child.wait().expect("wait");
                }
                std::thread::sleep(Duration::from_millis(1));
            }
            Err(e) => panic!("wait: {}", e),
        }
    };
    let stdout = String::from_utf8_lossy(&t1.join().unwrap()).to_string();
    let stderr = String::from_utf8_lossy(&t2.join().unwrap()).to_string();
    use std::os::unix::process::ExitStatusExt;
    let diags = parse_stderr(&stderr);
    let has_ok_line = stdout.lines().any(|l| l.trim_end() == "OK");
    CliRun {
        exit: status.code(),
        signal: if timed_out { None } else { status.signal() },
        timed_out,
        stdout,
        stderr,
        diags,
        has_ok_line,
    }
}
