//! C08 — letter case, layout and comments never change what a program means.
//!
//! Every C01 program that parses x respellings (operations on the lexeme list): each keyword
//! occurrence and all keywords at once in 3 case variants; each identifier occurrence, and all
//! occurrences at once; each non-glued gap x trivia menu (quick: a rotating third), every gap at
//! once x each member; the empty gap where the lexical rules allow it; END_IF with and without `;`.

use crate::corpus::trivia_menu;
use crate::front;
use crate::gram::Case;
use crate::lex::*;
use crate::nt;
use crate::report::Ctx;
use ironplc_dsl::common::Library;
use rayon::prelude::*;
use serde_json::{json, Value};
use std::collections::BTreeMap;

fn trivia_class(member: &str) -> &'static str {
    match member {
        "blank" | "two-blanks" | "tab" => "blanks",
        "form-feed" => "form-feed",
        "lf" | "crlf" => "line-break",
        "empty" => "nothing",
        m if m.contains("multi-line") => "multi-line-comment",
        _ => "comment",
    }
}

fn side(l: &Lexeme) -> String {
    match l.class {
        Class::Ident => "<id>".into(),
        Class::Number => "<num>".into(),
        Class::Str => "<str>".into(),
        Class::Addr => "<addr>".into(),
        Class::LitPart => format!("lit:{}", l.text),
        _ => l.text.to_uppercase(),
    }
}

/// May the two lexemes be written without anything between them?
fn may_abut(a: &Lexeme, b: &Lexeme) -> bool {
    let (x, y) = (a.text.as_str(), b.text.as_str());
    let last = x.chars().last().unwrap_or(' ');
    let first = y.chars().next().unwrap_or(' ');
    let wordish = |c: char| c.is_ascii_alphanumeric() || c == '_';
    if wordish(last) && wordish(first) {
        return false;
    }
    // concatenations that would form another lexeme
    let bad = [("(", "*"), ("*", ")"), ("*", "*"), ("<", ">"), ("<", "="), (">", "="), (":", "="), ("=", ">"), (".", "."), ("&", "&")];
    for (p, q) in bad {
        if x.ends_with(p) && y.starts_with(q) {
            return false;
        }
    }
    if last.is_ascii_digit() && first == '.' {
        return false;
    }
    if last == '.' && first.is_ascii_digit() {
        return false;
    }
    if last == '#' || first == '#' || last == '%' {
        return false;
    }
    // a sign directly after an exponent-capable number or before a number could be read as part of a literal: keep apart
    if (first == '-' || first == '+') && (last.is_ascii_digit() || wordish(last)) && a.class == Class::Number && x.contains(['E', 'e']) {
        return false;
    }
    let delim = |t: &str| matches!(t, ";" | "," | "(" | ")" | "[" | "]" | ":");
    let binop = |l: &Lexeme| l.class == Class::Op && !l.text.chars().next().unwrap().is_ascii_alphabetic();
    delim(x) || delim(y) || binop(a) || binop(b)
}

pub struct Variant {
    pub key: String,
    pub what: String,
    pub text: String,
}

fn canonical_gap(g: Glue) -> String {
    match g {
        Glue::Blank => " ".into(),
        _ => String::new(),
    }
}

/// All respellings of one case. `rot` rotates which third of the menu each gap meets in the quick tier.
pub fn variants(c: &Case, thorough: bool) -> Vec<Variant> {
    let lx = &c.lx.v;
    let menu = trivia_menu();
    let mut out = vec![];
    let spell_lx = |v: &[Lexeme]| spell(v).text;
    // --- keyword case, one occurrence at a time
    let is_kw = |l: &Lexeme| (l.class == Class::Keyword || (l.class == Class::Op && l.text.chars().next().unwrap().is_ascii_alphabetic()) || (l.class == Class::LitPart && l.text.chars().all(|ch| ch.is_ascii_alphabetic() || ch == '_')));
    let mut seen_kw: BTreeMap<String, usize> = BTreeMap::new();
    for (i, l) in lx.iter().enumerate() {
        if !is_kw(l) {
            continue;
        }
        // the same keyword is respelled at its first two occurrences only (later ones add nothing new)
        let cnt = seen_kw.entry(l.text.to_uppercase()).or_insert(0);
        *cnt += 1;
        if *cnt > 2 && !thorough {
            continue;
        }
        for (v, vname) in case_variants(&l.text) {
            let mut m = lx.to_vec();
            m[i].text = v.clone();
            let kind = if l.class == Class::LitPart { "literal-part" } else { "keyword" };
            out.push(Variant { key: format!("case/{}/{}", kind, l.text.to_uppercase()), what: format!("{} `{}` written `{}` ({})", kind, l.text, v, vname), text: spell_lx(&m) });
        }
    }
    // --- all keywords at once
    for vi in 0..3 {
        let mut m = lx.to_vec();
        let mut changed = false;
        let mut which = vec![];
        for l in m.iter_mut() {
            if is_kw(l) && l.class != Class::LitPart {
                let vs = case_variants(&l.text);
                if let Some((v, _)) = vs.get(vi) {
                    which.push(l.text.to_uppercase());
                    l.text = v.clone();
                    changed = true;
                }
            }
        }
        if changed {
            which.sort();
            which.dedup();
            out.push(Variant { key: format!("case/all-keywords/{}", which.join("+")), what: format!("all keywords in case variant {}", vi), text: spell_lx(&m) });
        }
    }
    // --- identifier case, one occurrence at a time and all at once
    for (i, l) in lx.iter().enumerate() {
        if l.class != Class::Ident {
            continue;
        }
        for (v, vname) in case_variants(&l.text) {
            if vname == "Capitalised" && !thorough {
                continue;
            }
            let mut m = lx.to_vec();
            m[i].text = v.clone();
            let special = matches!(l.text.as_str(), "INTERVAL" | "PRIORITY" | "N" | "R" | "S" | "L" | "D" | "P" | "SD" | "DS" | "SL" | "P0" | "P1" | "PLC");
            let k = if special { format!("case/word/{}", l.text) } else { format!("case/identifier/{}", c.group) };
            out.push(Variant { key: k, what: format!("identifier occurrence `{}` (lexeme {}) written `{}`", l.text, i, v), text: spell_lx(&m) });
        }
    }
    for vi in 0..3 {
        let mut m = lx.to_vec();
        let mut changed = false;
        for (k, l) in m.iter_mut().enumerate() {
            if l.class == Class::Ident && !matches!(l.text.as_str(), "INTERVAL" | "PRIORITY" | "N" | "R" | "S" | "L" | "D" | "P" | "SD" | "DS" | "SL" | "P0" | "P1") {
                // different occurrences get different variants
                let vs = case_variants(&l.text);
                if !vs.is_empty() {
                    l.text = vs[(vi + k) % vs.len()].0.clone();
                    changed = true;
                }
            }
        }
        if changed {
            out.push(Variant { key: format!("case/all-identifiers/{}", c.group), what: format!("every identifier occurrence in a different case (rotation {})", vi), text: spell_lx(&m) });
        }
    }
    // --- gaps
    let n = lx.len();
    let gaps: Vec<usize> = (0..n.saturating_sub(1)).filter(|i| gap(&lx[*i], &lx[i + 1]) != Glue::Hard).collect();
    for (gi, &i) in gaps.iter().enumerate() {
        let g = gap(&lx[i], &lx[i + 1]);
        for (mi, (mname, mtext)) in menu.iter().enumerate() {
            if !thorough && (gi + mi) % 3 != 0 {
                continue;
            }
            // the canonical text already has exactly this at the gap
            if (*mtext == " " && g == Glue::Blank) || mtext.is_empty() {
                continue;
            }
            let sp = spell_with(lx, "", "", &|j, gg| if j == i { mtext.to_string() } else { canonical_gap(gg) });
            out.push(Variant {
                key: format!("gap/{}·{}/{}", side(&lx[i]), side(&lx[i + 1]), trivia_class(mname)),
                what: format!("trivia `{}` between lexeme {} `{}` and `{}`", mname, i, lx[i].text, lx[i + 1].text),
                text: sp.text,
            });
        }
        // the `//` comments the lexer also accepts (and the parser option that allows them): to the end of the line
        for (mname, mtext) in [("line-comment", " // c\n"), ("line-comment-crlf", " // (* c\r\n")] {
            if !thorough && gi % 2 != 0 {
                continue;
            }
            let sp = spell_with(lx, "", "", &|j, gg| if j == i { mtext.to_string() } else { canonical_gap(gg) });
            out.push(Variant {
                key: format!("gap/{}·{}/line-comment", side(&lx[i]), side(&lx[i + 1])),
                what: format!("trivia `{}` between lexeme {} `{}` and `{}`", mname, i, lx[i].text, lx[i + 1].text),
                text: sp.text,
            });
        }
        if g == Glue::Blank && may_abut(&lx[i], &lx[i + 1]) {
            let sp = spell_with(lx, "", "", &|j, gg| if j == i { String::new() } else { canonical_gap(gg) });
            out.push(Variant {
                key: format!("gap/{}·{}/nothing", side(&lx[i]), side(&lx[i + 1])),
                what: format!("nothing between lexeme {} `{}` and `{}`", i, lx[i].text, lx[i + 1].text),
                text: sp.text,
            });
        }
    }
    // every gap at once
    for (mname, mtext) in &menu {
        let sp = spell_with(lx, mtext, mtext, &|_, g| match g {
            Glue::Hard => String::new(),
            _ => mtext.to_string(),
        });
        out.push(Variant { key: format!("gap/every-gap/{}", mname), what: format!("trivia `{}` at every gap, before the first and after the last lexeme", mname), text: sp.text });
    }
    // --- END_IF with and without `;`
    for (i, l) in lx.iter().enumerate() {
        if l.text.eq_ignore_ascii_case("END_IF") && i + 1 < n && lx[i + 1].text == ";" {
            let mut m = lx.to_vec();
            m.remove(i + 1);
            let next = m.get(i + 1).map(side).unwrap_or_else(|| "<end>".into());
            out.push(Variant { key: format!("end-if-without-semicolon/before-{}", next), what: format!("END_IF (lexeme {}) written without `;`", i), text: spell_lx(&m) });
        }
    }
    // every END_IF at once without its `;`
    {
        let mut m: Vec<Lexeme> = vec![];
        let mut removed = 0;
        let mut i = 0;
        while i < n {
            m.push(lx[i].clone());
            if lx[i].text.eq_ignore_ascii_case("END_IF") && i + 1 < n && lx[i + 1].text == ";" {
                i += 1; // skip the semicolon
                removed += 1;
            }
            i += 1;
        }
        if removed >= 2 {
            out.push(Variant { key: format!("end-if-without-semicolon/all-{}-at-once", removed.min(3)), what: format!("all {} END_IF written without `;`", removed), text: spell_lx(&m) });
        }
        // --- respelling kinds combined: every keyword in each case variant together with (a) every END_IF
        // written without `;`, (b) a trivia member at every gap
        for vi in 0..3 {
            let recase = |v: &[Lexeme]| -> Vec<Lexeme> {
                let mut r = v.to_vec();
                for l in r.iter_mut() {
                    if is_kw(l) && l.class != Class::LitPart {
                        if let Some((t, _)) = case_variants(&l.text).get(vi) {
                            l.text = t.clone();
                        }
                    }
                }
                r
            };
            if removed >= 1 {
                out.push(Variant { key: format!("combined/end-if-without-semicolon+keyword-case-{}", vi), what: format!("every END_IF without `;` and every keyword in case variant {}", vi), text: spell_lx(&recase(&m)) });
            }
            let r = recase(lx);
            for (mname, mtext) in menu.iter().filter(|(name, _)| matches!(*name, "lf" | "crlf" | "comment-tight" | "tab" | "multi-line-comment")) {
                let sp = spell_with(&r, mtext, mtext, &|_, g| match g {
                    Glue::Hard => String::new(),
                    _ => mtext.to_string(),
                });
                out.push(Variant { key: format!("combined/every-gap-{}+keyword-case-{}", mname, vi), what: format!("trivia `{}` at every gap and every keyword in case variant {}", mname, vi), text: sp.text });
            }
        }
    }
    out
}

struct Base {
    lib: Library,
    folded: nt::NT,
    codes: Vec<String>,
}

fn base_of(text: &str) -> Option<Base> {
    let lib = front::parse(text, "case.st").ok()?;
    let folded = nt::library(&lib).fold_case();
    let (v, _) = front::analyze_libs(&[&lib]);
    let mut codes: Vec<String> = match v {
        front::Verdict::Err(c) => c,
        front::Verdict::Ok => vec![],
        front::Verdict::Panic(l) => vec![format!("PANIC@{}", l)],
    };
    codes.sort();
    Some(Base { lib, folded, codes })
}

/// None = same meaning; Some(description) otherwise.
fn judge(base: &Base, text: &str) -> Option<String> {
    if text.contains("//") {
        // a `//` comment: the same program under the parser option that allows such comments
        let r = crate::util::catch(|| front::parse_allowing_c_style_comments(text, "case.st"));
        match r {
            Err(p) => return Some(format!("with allow_c_style_comments: parser panicked at {}", p.loc)),
            Ok(Err(d)) => return Some(format!("with allow_c_style_comments: rejected with {} at {}..{}", d.code, d.primary.location.start, d.primary.location.end)),
            Ok(Ok(lib)) if lib != base.lib => return Some("with allow_c_style_comments: parses to a different library".to_string()),
            _ => {}
        }
    }
    let r = crate::util::catch(|| front::parse(text, "case.st"));
    match r {
        Err(p) => Some(format!("parser panicked at {}", p.loc)),
        Ok(Err(d)) => Some(format!("rejected with {} at {}..{}", d.code, d.primary.location.start, d.primary.location.end)),
        Ok(Ok(lib)) => {
            if lib != base.lib {
                let d = nt::diff(&base.folded, &nt::library(&lib).fold_case());
                return Some(format!("parses to a different library: {}", d.iter().take(2).map(|x| format!("{}: {}", x.0, x.2)).collect::<Vec<_>>().join(" ;; ")));
            }
            let f = nt::library(&lib).fold_case();
            if f != base.folded {
                let d = nt::diff(&base.folded, &f);
                return Some(format!("projection differs: {}", d.iter().take(2).map(|x| format!("{}: {}", x.0, x.2)).collect::<Vec<_>>().join(" ;; ")));
            }
            let (v, _) = front::analyze_libs(&[&lib]);
            let mut codes: Vec<String> = match v {
                front::Verdict::Err(c) => c,
                front::Verdict::Ok => vec![],
                front::Verdict::Panic(l) => vec![format!("PANIC@{}", l)],
            };
            codes.sort();
            if codes != base.codes {
                return Some(format!("check verdict differs: {:?} instead of {:?}", codes, base.codes));
            }
            None
        }
    }
}

pub fn run(ctx: &mut Ctx) {
    // quick = the former thorough tier (deviation bound 1, complete respelling menu); thorough = deviation bound 2
    let deep = ctx.tier.thorough();
    let thorough = true;
    let mut cases = crate::gram::generate(if deep { 2 } else { 1 });
    if !deep {
        // the placed expressions (one expression in 16 places) are respelled completely in the thorough tier;
        // the quick tier takes every tenth (the respelling of an expression does not depend on where it stands)
        let mut k = 0usize;
        cases.retain(|c| {
            if c.group != "expr.place" {
                return true;
            }
            k += 1;
            k % 10 == 0
        });
    }
    ctx.rule = "every C01 program (deviation bound 1, thorough 2) whose canonical text parses x {each keyword occurrence x 3 case variants, all keywords at once, each identifier occurrence x case variants, all identifier occurrences in different cases, each non-glued gap x trivia menu (all members), nothing at the gap where the lexical rules allow it, every gap at once x each member, END_IF with and without ';', all keywords in each case variant combined with every END_IF without ';' and with trivia at every gap}; plus every string up to length 6 (thorough 7) over ( * ) ' \" $ / LF a blank: comment and string boundaries and lexical validity against a reference scanner; distinct = distinct respelled text".into();
    ctx.bounds.insert("deviation_bound".into(), json!(if deep { 2 } else { 1 }));
    ctx.bounds.insert("trivia_menu".into(), json!(trivia_menu().iter().map(|m| m.0).collect::<Vec<_>>()));
    ctx.assumptions.push("library equality is the repository's own PartialEq (spans compare equal, identifiers compare on lower case) plus equality of the case-folded projection π; verdict = sorted analyze() codes".into());
    ctx.assumptions.push("'nothing at the gap' is only tried where either side is one of ; , ( ) [ ] : or a symbolic operator and the concatenation cannot form another lexeme".into());
    struct Res {
        n: u64,
        skipped: bool,
        fails: Vec<(String, String, String, String)>, // key, what, text, case id
        hashes: Vec<u64>,
        sample: Option<Value>,
    }
    let results: Vec<Res> = cases
        .par_iter()
        .enumerate()
        .map(|(ci, c)| {
            let canon = c.text();
            let base = match base_of(&canon) {
                Some(b) => b,
                None => return Res { n: 0, skipped: true, fails: vec![], hashes: vec![], sample: None },
            };
            let vs = variants(c, thorough);
            let mut fails = vec![];
            let mut hashes = Vec::with_capacity(vs.len());
            let mut sample = None;
            for (k, v) in vs.iter().enumerate() {
                hashes.push(crate::util::fnv(&v.text));
                if let Some(why) = judge(&base, &v.text) {
                    fails.push((v.key.clone(), format!("{}: {} — {}", c.id(), v.what, why), v.text.clone(), c.id()));
                }
                if ci % 1500 == 7 && k == vs.len() / 2 {
                    sample = Some(json!({"case": c.id(), "respelling": v.what, "text": crate::util::short(&v.text, 200)}));
                }
            }
            Res { n: vs.len() as u64, skipped: false, fails, hashes, sample }
        })
        .collect();
    let mut skipped = 0u64;
    for r in results {
        if r.skipped {
            skipped += 1;
            continue;
        }
        ctx.evaluations += r.n;
        ctx.transitions += r.n;
        for h in r.hashes {
            ctx.distinct_hash(h);
        }
        ctx.outcome_n("same meaning", r.n - r.fails.len() as u64);
        for (key, what, text, case) in r.fails {
            ctx.outcome("meaning changed or rejected");
            ctx.fail(&key, &what, json!({"case": case, "respelled_text": text}));
        }
        if let Some(s) = r.sample {
            ctx.sample(s);
        }
    }
    // semantic programs: every C02 world with at most one deviation (default use site and host position): each
    // identifier occurrence in another letter case, one at a time and all at once; the verdict must not move
    {
        use crate::lex::{spell, Class};
        let ws: Vec<crate::world::World> = crate::checks::c02::worlds(1).into_iter().filter(|w| !w.labels.iter().any(|l| l.starts_with("site=") || l.starts_with("hostpos="))).collect();
        let res: Vec<Vec<(String, String, String)>> = ws
            .par_iter()
            .map(|w| {
                let mut lx: Vec<Lexeme> = vec![];
                for d in &w.decls {
                    lx.extend(d.lx().v);
                }
                let base_text = spell(&lx).text;
                let (bv, _) = front::check_texts(&[&base_text]);
                let base = bv.short();
                let mut fails = vec![];
                let idents: Vec<usize> = (0..lx.len()).filter(|i| lx[*i].class == Class::Ident && lx[*i].text.chars().any(|c| c.is_ascii_alphabetic())).collect();
                let flip = |t: &str| -> String { if t.chars().any(|c| c.is_ascii_lowercase()) { t.to_ascii_uppercase() } else { t.to_ascii_lowercase() } };
                for &i in &idents {
                    let mut m = lx.clone();
                    m[i].text = flip(&m[i].text);
                    let text = spell(&m).text;
                    let (v, _) = front::check_texts(&[&text]);
                    if v.short() != base {
                        let prev = if i > 0 { lx[i - 1].text.to_uppercase() } else { "<start>".into() };
                        let next = lx.get(i + 1).map(|l| l.text.to_uppercase()).unwrap_or_else(|| "<end>".into());
                        fails.push((format!("world/identifier-case/{}·<id>·{}", prev, next), format!("identifier `{}` written `{}`: verdict {} instead of {}", lx[i].text, m[i].text, v.short(), base), text));
                    }
                }
                let mut m = lx.clone();
                for &i in &idents {
                    m[i].text = flip(&m[i].text);
                }
                let text = spell(&m).text;
                let (v, _) = front::check_texts(&[&text]);
                if v.short() != base {
                    fails.push(("world/all-identifiers-in-other-case".to_string(), format!("every identifier in the other letter case: verdict {} instead of {}", v.short(), base), text));
                }
                fails
            })
            .collect();
        let mut n = 0u64;
        for (w, fails) in ws.iter().zip(res.iter()) {
            n += 1;
            for (k, what, text) in fails {
                ctx.fail(k, &format!("[{}] {}", w.labels.join(","), what), json!({"mode":"world-text","text": text, "base": w.text()}));
            }
        }
        ctx.evaluations += n;
        ctx.bounds.insert("semantic_programs".into(), json!(format!("{} worlds x every identifier occurrence", n)));
    }
    // the characters of an identifier are a dimension: names that hold every letter, every digit and the underscore,
    // declared in one letter case and used with one character in the other case (every character in turn), with all of
    // them in the other case, and with alternating cases — as a variable, a type, an enumeration value, a function
    // block, an instance, a formal parameter, a structure field, a task and a program instance; library and verdict
    // must be those of the declared spelling
    {
        let alphabet = "abcdefghijklmnopqrstuvwxyz_0123456789";
        let name = |prefix: &str| format!("{}{}", prefix, alphabet);
        let template = |v: &str, t: &str, e: &str, fb: &str, inst: &str, par: &str, fld: &str, task: &str, pinst: &str| -> String {
            format!(
                "TYPE {t} : ( {e} , other_value ) := {e} ; st_{t} : STRUCT {fld} : INT ; END_STRUCT ; END_TYPE\nFUNCTION_BLOCK {fb}\nVAR_INPUT {par} : INT ; END_VAR\nVAR_OUTPUT q : INT ; END_VAR\nq := {par} ;\nEND_FUNCTION_BLOCK\nFUNCTION_BLOCK Host\nVAR {v} : INT ; lv : {t} := {e} ; s : st_{t} ; {inst} : {fb} ; END_VAR\n{v} := {v} + 1 ;\nlv := {e} ;\n{v} := s . {fld} ;\n{inst} ( {par} := {v} , q => {v} ) ;\nEND_FUNCTION_BLOCK\nPROGRAM Main\nVAR h : Host ; END_VAR\nh ( ) ;\nEND_PROGRAM\nCONFIGURATION cfg\nRESOURCE res ON PLC\nTASK {task} ( INTERVAL := T#100ms , PRIORITY := 1 ) ;\nPROGRAM {pinst} WITH {task} : Main ;\nEND_RESOURCE\nEND_CONFIGURATION\n",
                v = v, t = t, e = e, fb = fb, inst = inst, par = par, fld = fld, task = task, pinst = pinst
            )
        };
        let roles = ["variable", "type", "enumeration-value", "function-block", "instance", "formal-parameter", "field", "task", "program-instance"];
        let prefixes = ["v_", "t_", "e_", "fb_", "i_", "p_", "f_", "k_", "g_"];
        let declared: Vec<String> = prefixes.iter().map(|p| name(p)).collect();
        let base_text = template(&declared[0], &declared[1], &declared[2], &declared[3], &declared[4], &declared[5], &declared[6], &declared[7], &declared[8]);
        let (bv, _) = front::check_texts(&[&base_text]);
        let base_lib = base_of(&base_text);
        let mut n = 0u64;
        if bv.short() != "OK" || base_lib.is_none() {
            ctx.fail("identifier-alphabet/declared-spelling-rejected", &format!("the program with the long names is not accepted as written: {}", bv.short()), json!({"mode":"world-text","text": base_text, "base": base_text}));
        } else {
            let base_lib = base_lib.unwrap();
            // spellings of one name: one character flipped (each in turn), all flipped, alternating
            let spellings = |d: &str| -> Vec<(String, String)> {
                let mut out = vec![];
                let chars: Vec<char> = d.chars().collect();
                for (i, c) in chars.iter().enumerate() {
                    if c.is_ascii_alphabetic() {
                        let mut m = chars.clone();
                        m[i] = c.to_ascii_uppercase();
                        out.push((format!("one-character/{}", c), m.iter().collect()));
                    }
                }
                out.push(("all-upper".into(), d.to_ascii_uppercase()));
                out.push(("alternating".into(), chars.iter().enumerate().map(|(i, c)| if i % 2 == 0 { c.to_ascii_uppercase() } else { *c }).collect()));
                out
            };
            // the uses are respelled, the declaration keeps its spelling: occurrences after the first are the uses
            for (r, role) in roles.iter().enumerate() {
                for (sname, sp) in spellings(&declared[r]) {
                    let first = base_text.find(declared[r].as_str()).unwrap() + declared[r].len();
                    let text = format!("{}{}", &base_text[..first], base_text[first..].replace(declared[r].as_str(), &sp));
                    n += 1;
                    ctx.distinct(&text);
                    let (v, _) = front::check_texts(&[&text]);
                    if v.short() != bv.short() {
                        ctx.fail(&format!("identifier-alphabet/{}/{}#verdict", role, sname.split('/').next().unwrap()), &format!("{} `{}` used as `{}`: verdict {} instead of {}", role, declared[r], sp, v.short(), bv.short()), json!({"mode":"world-text","text": text, "base": base_text}));
                    } else if let Some(w) = judge(&base_lib, &text) {
                        ctx.fail(&format!("identifier-alphabet/{}/{}#library", role, sname.split('/').next().unwrap()), &format!("{} `{}` used as `{}`: {}", role, declared[r], sp, w), json!({"mode":"world-text","text": text, "base": base_text}));
                    }
                }
            }
        }
        ctx.evaluations += n;
        ctx.bounds.insert("identifier_alphabet".into(), json!(format!("{} respellings of 9 kinds of name holding every letter, digit and the underscore", n)));
    }
    // names of the standard library (function blocks, functions, elementary-type-like words) used as a type name, and
    // declared by the unit itself and used: the letter case of the declaration and of every use, varied independently,
    // never moves the verdict
    {
        let names = ["TON", "TOF", "TP", "R_TRIG", "F_TRIG", "RS", "SR", "CTU", "CTD", "CTUD", "CTU_DINT", "RTC", "ABS", "SQRT", "MAX", "LEN", "SEL", "MOVE", "TIME", "Counter"];
        let cases_of = |n: &str| -> Vec<String> {
            let cap: String = n.chars().enumerate().map(|(i, c)| if i == 0 { c.to_ascii_uppercase() } else { c.to_ascii_lowercase() }).collect();
            let alt: String = n.chars().enumerate().map(|(i, c)| if i % 2 == 0 { c.to_ascii_lowercase() } else { c.to_ascii_uppercase() }).collect();
            vec![n.to_ascii_uppercase(), n.to_ascii_lowercase(), cap, alt]
        };
        let mut n = 0u64;
        for name in names {
            let sp = cases_of(name);
            // used without being declared
            let text_of = |u: &str| format!("FUNCTION_BLOCK Host\nVAR\n  d : {} ;\n  e : {} ;\nEND_VAR\nEND_FUNCTION_BLOCK\n", u, u);
            let base_text = text_of(&sp[0]);
            let (bv, _) = front::check_texts(&[&base_text]);
            for u in &sp[1..] {
                let text = text_of(u);
                n += 1;
                ctx.distinct(&text);
                let (v, _) = front::check_texts(&[&text]);
                if v.short() != bv.short() {
                    ctx.fail("standard-name/used-as-a-type#verdict", &format!("`{}` as a type gives {}, `{}` gives {}", sp[0], bv.short(), u, v.short()), json!({"mode":"world-text","text": text, "base": base_text}));
                }
            }
            // declared by the unit and used
            let text_of2 = |dcl: &str, u1: &str, u2: &str| format!("FUNCTION_BLOCK {}\nVAR_INPUT\n  go : BOOL ;\nEND_VAR\nVAR_OUTPUT\n  done : BOOL ;\nEND_VAR\n  done := go ;\nEND_FUNCTION_BLOCK\nFUNCTION_BLOCK Host\nVAR\n  d : {} ;\n  e : {} ;\n  b : BOOL ;\nEND_VAR\n  d ( go := TRUE , done => b ) ;\nEND_FUNCTION_BLOCK\n", dcl, u1, u2);
            let base_text = text_of2(&sp[0], &sp[0], &sp[0]);
            let (bv, _) = front::check_texts(&[&base_text]);
            for dcl in &sp {
                for u1 in &sp {
                    for u2 in &sp {
                        let text = text_of2(dcl, u1, u2);
                        if text == base_text {
                            continue;
                        }
                        n += 1;
                        ctx.distinct(&text);
                        let (v, _) = front::check_texts(&[&text]);
                        if v.short() != bv.short() {
                            ctx.fail("standard-name/declared-and-used#verdict", &format!("declared `{}`, used `{}` and `{}`: verdict {} instead of {} (all in upper case)", dcl, u1, u2, v.short(), bv.short()), json!({"mode":"world-text","text": text, "base": base_text}));
                        }
                    }
                }
            }
        }
        ctx.evaluations += n;
        ctx.bounds.insert("standard_names".into(), json!(format!("{} names x 4 letter cases of the declaration and of two uses", names.len())));
    }
    // where commentary and string text begin and end decides what is code: exhaustive differential sweep
    crate::lexseg::run_into(ctx, if deep { 7 } else { 6 });
    ctx.states = cases.len() as u64 - skipped;
    ctx.traces = ctx.evaluations;
    ctx.extra.insert("programs_not_parsing_in_canonical_form_(left_to_C01)".into(), json!(skipped));
}

pub fn replay(case: &Value) -> Result<String, String> {
    if case["mode"] == json!("world-text") {
        let (a, _) = front::check_texts(&[case["base"].as_str().ok_or("base")?]);
        let (b, _) = front::check_texts(&[case["text"].as_str().ok_or("text")?]);
        return if a.short() == b.short() { Ok(format!("same verdict: {}", a.short())) } else { Err(format!("{} vs {}", a.short(), b.short())) };
    }
    if case["mode"] == json!("lexical-structure") {
        return crate::lexseg::replay(case["text"].as_str().ok_or("text")?);
    }
    let id = case["case"].as_str().ok_or("case")?;
    let text = case["respelled_text"].as_str().ok_or("respelled_text")?;
    let c = &crate::gram::find_case(id).ok_or("case id is not in the enumerated space any more")?;
    let base = base_of(&c.text()).ok_or("canonical text does not parse")?;
    match judge(&base, text) {
        None => Ok("same library and verdict as the canonical spelling".into()),
        Some(w) => Err(w),
    }
}
