//! C07 — recursion is rejected exactly when the declaration graph has a cycle.
//!
//! Exhaustive enumeration of all digraphs on n <= 4 nodes (self-loops
//! included) in three realisations, both declaration orders, plus structured
//! families up to 12 nodes; thorough adds n = 5 with <= 7 edges.

use crate::front::{check_texts, Verdict};
use crate::report::Ctx;
use rayon::prelude::*;
use serde_json::{json, Value};
use std::collections::BTreeSet;

#[derive(Clone, Copy, Debug, PartialEq, Eq)]
pub enum Real {
    Fb,
    Struct,
    AliasMix,
    /// node i is a function block when bit i of the mask is set, a structure otherwise
    /// (a function block holds instances / structure variables, a structure holds elements of either kind)
    FbStructMix(u32),
}

impl Real {
    fn name(&self) -> &'static str {
        match self {
            Real::Fb => "fb",
            Real::Struct => "struct",
            Real::AliasMix => "alias-mix",
            Real::FbStructMix(_) => "fb-struct-mix",
        }
    }
    fn from(s: &str) -> Option<Real> {
        match s {
            "fb" => Some(Real::Fb),
            "struct" => Some(Real::Struct),
            "alias-mix" => Some(Real::AliasMix),
            x if x.starts_with("fb-struct-mix") => Some(Real::FbStructMix(x.rsplit(':').next().and_then(|m| m.parse().ok()).unwrap_or(0b0101))),
            _ => None,
        }
    }
}

#[derive(Clone, Debug)]
pub struct Graph {
    pub n: usize,
    /// adjacency: adj[i] = bitmask of successors of i ("i refers to j")
    pub adj: Vec<Vec<u64>>,
}

impl Graph {
    pub fn from_mask(n: usize, mask: u64) -> Graph {
        let mut adj = vec![vec![0u64; n / 64 + 1]; n];
        for i in 0..n {
            for j in 0..n {
                if mask >> (i * n + j) & 1 == 1 {
                    adj[i][j / 64] |= 1u64 << (j % 64);
                }
            }
        }
        Graph { n, adj }
    }
    pub fn from_edges(n: usize, edges: &[(usize, usize)]) -> Graph {
        let mut adj = vec![vec![0u64; n / 64 + 1]; n];
        for (a, b) in edges {
            adj[*a][*b / 64] |= 1u64 << (*b % 64);
        }
        Graph { n, adj }
    }
    pub fn has(&self, i: usize, j: usize) -> bool {
        self.adj[i][j / 64] >> (j % 64) & 1 == 1
    }
    pub fn edges(&self) -> Vec<(usize, usize)> {
        let mut e = vec![];
        for i in 0..self.n {
            for j in 0..self.n {
                if self.has(i, j) {
                    e.push((i, j));
                }
            }
        }
        e
    }
    fn out_degree(&self, i: usize) -> u32 {
        self.adj[i].iter().map(|w| w.count_ones()).sum()
    }
    /// Reference cycle detection: iterative removal of sink nodes (a digraph
    /// is acyclic iff repeatedly deleting nodes without successors empties it).
    pub fn cyclic_with(&self, edge_ok: &dyn Fn(usize, usize) -> bool) -> bool {
        let n = self.n;
        let mut alive: Vec<bool> = vec![true; n];
        loop {
            let mut removed = false;
            for i in 0..n {
                if !alive[i] {
                    continue;
                }
                let has_succ = (0..n).any(|j| alive[j] && self.has(i, j) && edge_ok(i, j));
                if !has_succ {
                    alive[i] = false;
                    removed = true;
                }
            }
            if !removed {
                break;
            }
        }
        alive.iter().any(|a| *a)
    }
    pub fn cyclic(&self) -> bool {
        self.cyclic_with(&|_, _| true)
    }
}

/// Program text for a graph in a realisation. `order` lists the node indices in declaration order.
pub fn realise(g: &Graph, real: Real, order: &[usize]) -> String {
    realise_spelled(g, real, order, false)
}

/// `refs_other_case`: every reference to a declaration is spelled in lower case although the declaration
/// is spelled with an upper-case letter (identifiers are case-insensitive).
pub fn realise_spelled(g: &Graph, real: Real, order: &[usize], refs_other_case: bool) -> String {
    realise_decorated(g, real, order, refs_other_case, "")
}

/// `decoration`: further variables / elements beside the ones that carry the graph's edges — declarations on a
/// cycle are rarely that bare. "init-struct-before" / "init-struct-after": a variable of a structure type with an
/// initialiser before / after the edge variables; "mixed-before": an initialised enumeration variable, an array
/// and a string before them.
pub fn realise_decorated(g: &Graph, real: Real, order: &[usize], refs_other_case: bool, decoration: &str) -> String {
    let (rf, rt) = if refs_other_case { ("f", "t") } else { ("F", "T") };
    let mut s = String::new();
    let (before, after): (&str, &str) = match decoration {
        "init-struct-before" => ("  deco : Pdeco := (x := 1);\n", ""),
        "init-struct-after" => ("", "  deco : Pdeco := (x := 1);\n"),
        "mixed-before" => ("  dlv : Ldeco := Lo;\n  darr : ARRAY [1..2] OF INT;\n  dstr : STRING;\n", ""),
        // references that are no containment: every function block names every function block (itself included)
        // in a VAR_EXTERNAL block — an external refers to an instance that lives elsewhere
        "externals-to-all" => ("", ""),
        _ => ("", ""),
    };
    if let Some(rest) = decoration.strip_prefix("neighbour-") {
        // an unrelated, valid declaration directly before or directly after the declarations of the graph
        let (kind, first) = match rest.rsplit_once('-') {
            Some((k, "first")) => (k, true),
            Some((k, _)) => (k, false),
            None => (rest, true),
        };
        let nb = match kind {
            "in-out-last" => "FUNCTION_BLOCK Nb\nVAR\n  x : INT;\nEND_VAR\nVAR_IN_OUT\n  total : INT;\nEND_VAR\n  x := total;\nEND_FUNCTION_BLOCK\n",
            "input-last" => "FUNCTION_BLOCK Nb\nVAR\n  x : INT;\nEND_VAR\nVAR_INPUT\n  total : INT;\nEND_VAR\n  x := total;\nEND_FUNCTION_BLOCK\n",
            "output-last" => "FUNCTION_BLOCK Nb\nVAR_INPUT\n  x : INT;\nEND_VAR\nVAR_OUTPUT\n  total : INT;\nEND_VAR\n  total := x;\nEND_FUNCTION_BLOCK\n",
            "constant-last" => "FUNCTION_BLOCK Nb\nVAR\n  x : INT;\nEND_VAR\nVAR CONSTANT\n  k : INT := 3;\nEND_VAR\n  x := k;\nEND_FUNCTION_BLOCK\n",
            "function" => "FUNCTION Nf : INT\nVAR_INPUT\n  a : INT;\nEND_VAR\n  Nf := a;\nEND_FUNCTION\n",
            "enumeration-and-array" => "TYPE\n  NbLevel : (NbLo, NbHi) := NbLo;\n  NbArr : ARRAY [1..3] OF INT;\n  NbRng : INT (1..5);\nEND_TYPE\n",
            "initialised-structure-variable-last" => "TYPE\n  NbPt : STRUCT\n    x : INT;\n  END_STRUCT;\nEND_TYPE\nFUNCTION_BLOCK Nb\nVAR\n  p : NbPt := (x := 1);\nEND_VAR\nEND_FUNCTION_BLOCK\n",
            _ => "PROGRAM NbMain\nVAR\n  n : INT;\nEND_VAR\n  n := 1;\nEND_PROGRAM\nCONFIGURATION nbcfg\nRESOURCE nbres ON PLC\nTASK nbt (INTERVAL := T#100ms, PRIORITY := 1);\nPROGRAM nbp WITH nbt : NbMain;\nEND_RESOURCE\nEND_CONFIGURATION\n",
        };
        let inner = realise_decorated(g, real, order, refs_other_case, "");
        return if first { format!("{}{}", nb, inner) } else { format!("{}{}", inner, nb) };
    }
    if !decoration.is_empty() {
        s.push_str("TYPE\n  Pdeco : STRUCT\n    x : INT;\n  END_STRUCT;\n  Ldeco : (Lo, Hi);\nEND_TYPE\n");
    }
    match real {
        Real::Fb => {
            for &i in order {
                s.push_str(&format!("FUNCTION_BLOCK F{}\n", i));
                if decoration == "externals-to-all" {
                    s.push_str("VAR_EXTERNAL\n");
                    for j in 0..g.n {
                        s.push_str(&format!("  x{}_{} : {}{};\n", i, j, rf, j));
                    }
                    s.push_str("END_VAR\n");
                }
                if g.out_degree(i) != 0 {
                    s.push_str("VAR\n");
                    s.push_str(before);
                    for j in 0..g.n {
                        if g.has(i, j) {
                            s.push_str(&format!("  v{}_{} : {}{};\n", i, j, rf, j));
                        }
                    }
                    s.push_str(after);
                    s.push_str("END_VAR\n");
                }
                s.push_str("END_FUNCTION_BLOCK\n");
            }
        }
        Real::FbStructMix(mask) => {
            let is_fb = |i: usize| mask >> (i % 32) & 1 == 1;
            let name = |i: usize, as_ref: bool| -> String {
                let (f, t) = if as_ref { (rf, rt) } else { ("F", "T") };
                if is_fb(i) { format!("{}{}", f, i) } else { format!("{}{}", t, i) }
            };
            for &i in order {
                if is_fb(i) {
                    s.push_str(&format!("FUNCTION_BLOCK {}\n", name(i, false)));
                    if g.out_degree(i) != 0 {
                        s.push_str("VAR\n");
                        for j in 0..g.n {
                            if g.has(i, j) {
                                s.push_str(&format!("  v{}_{} : {};\n", i, j, name(j, true)));
                            }
                        }
                        s.push_str("END_VAR\n");
                    }
                    s.push_str("END_FUNCTION_BLOCK\n");
                } else if g.out_degree(i) == 0 {
                    s.push_str(&format!("TYPE {} : (A{}, B{}); END_TYPE\n", name(i, false), i, i));
                } else {
                    s.push_str(&format!("TYPE {} : STRUCT\n", name(i, false)));
                    for j in 0..g.n {
                        if g.has(i, j) {
                            s.push_str(&format!("    e{}_{} : {};\n", i, j, name(j, true)));
                        }
                    }
                    s.push_str("  END_STRUCT;\nEND_TYPE\n");
                }
            }
        }
        Real::Struct | Real::AliasMix => {
            s.push_str("TYPE\n");
            for &i in order {
                let d = g.out_degree(i);
                if d == 0 {
                    s.push_str(&format!("  T{} : (A{}, B{});\n", i, i, i));
                } else if d == 1 && real == Real::AliasMix {
                    let j = (0..g.n).find(|j| g.has(i, *j)).unwrap_or(0);
                    s.push_str(&format!("  T{} : {}{};\n", i, rt, j));
                } else {
                    s.push_str(&format!("  T{} : STRUCT\n", i));
                    s.push_str(before);
                    for j in 0..g.n {
                        if g.has(i, j) {
                            s.push_str(&format!("    e{}_{} : {}{};\n", i, j, rt, j));
                        }
                    }
                    s.push_str(after);
                    s.push_str("  END_STRUCT;\n");
                }
            }
            s.push_str("END_TYPE\n");
        }
    }
    s
}

/// Structural class of the graph, from the input only (used in finding keys).
fn class(g: &Graph, real: Real) -> String {
    if !g.cyclic() {
        return "acyclic".into();
    }
    let selfloop = (0..g.n).any(|i| g.has(i, i));
    match real {
        Real::Fb | Real::Struct | Real::FbStructMix(_) => {
            if selfloop {
                "has-self-loop".into()
            } else {
                "cycle-length>=2".into()
            }
        }
        Real::AliasMix => {
            let is_alias = |i: usize| g.out_degree(i) == 1;
            let pure_alias = g.cyclic_with(&|i, _| is_alias(i));
            let pure_struct = g.cyclic_with(&|i, _| !is_alias(i));
            match (pure_alias, pure_struct) {
                (true, true) => "has-pure-alias-cycle-and-pure-struct-cycle".into(),
                (true, false) => "has-pure-alias-cycle".into(),
                (false, true) => "has-pure-struct-cycle".into(),
                (false, false) => "every-cycle-mixes-alias-and-struct-edges".into(),
            }
        }
    }
}

struct Case {
    g: Graph,
    real: Real,
    order_name: &'static str,
    family: String,
}

struct Res {
    key: Option<String>,
    what: String,
    verdict: String,
    cyclic: bool,
    replay: Value,
    canon: u64,
}

fn order_of(n: usize, name: &str) -> Vec<usize> {
    match name.split('+').next().unwrap_or(name) {
        "desc" => (0..n).rev().collect(),
        _ => (0..n).collect(),
    }
}

fn judge(g: &Graph, real: Real, order_name: &str, family: &str) -> Res {
    let order = order_of(g.n, order_name);
    let decoration = order_name.split_once('+').map(|x| x.1).unwrap_or("");
    let text = realise_decorated(g, real, &order, order_name.contains("other-case"), decoration);
    let (verdict, _) = check_texts(&[&text]);
    let cyclic = g.cyclic();
    let codes = verdict.codes();
    let recursive_reported = codes.contains("P0010") || codes.contains("P0013");
    let mut key = None;
    let mut what = String::new();
    if let Verdict::Panic(loc) = &verdict {
        key = Some(format!("{}/panic@{}", real.name(), loc));
        what = format!("analysis panicked at {}", loc);
    } else if cyclic && !recursive_reported {
        key = Some(format!("{}/missed-cycle/{}", real.name(), class(g, real)));
        what = format!(
            "cyclic graph {:?} ({}, order {}) not reported as recursive: observed {}",
            g.edges(),
            real.name(),
            order_name,
            verdict.short()
        );
    } else if !cyclic && recursive_reported {
        key = Some(format!("{}/false-cycle/{}", real.name(), family));
        what = format!(
            "acyclic graph {:?} ({}, order {}) reported as recursive: observed {}",
            g.edges(),
            real.name(),
            order_name,
            verdict.short()
        );
    }
    let replay = json!({
        "realisation": match real { Real::FbStructMix(m) => format!("fb-struct-mix:{}", m), r => r.name().to_string() }, "n": g.n, "edges": g.edges(), "order": order_name,
        "family": family, "expected_cyclic": cyclic, "observed": verdict.short(), "program": text,
    });
    let canon = crate::util::fnv(&text);
    Res {
        key,
        what,
        verdict: verdict.short(),
        cyclic,
        replay,
        canon,
    }
}

fn families() -> Vec<(String, Graph)> {
    let mut out = vec![];
    for n in 5..=12usize {
        // chain 0 -> 1 -> ... -> n-1
        let chain: Vec<(usize, usize)> = (0..n - 1).map(|i| (i, i + 1)).collect();
        out.push((format!("chain-{}", n), Graph::from_edges(n, &chain)));
        // reverse chain (references point backwards in declaration order)
        let rchain: Vec<(usize, usize)> = (1..n).map(|i| (i, i - 1)).collect();
        out.push((format!("rchain-{}", n), Graph::from_edges(n, &rchain)));
        // single cycle of every length 1..=n embedded in n nodes (rest isolated)
        for len in 1..=n {
            let cyc: Vec<(usize, usize)> = (0..len).map(|i| (i, (i + 1) % len)).collect();
            out.push((format!("cycle-{}-in-{}", len, n), Graph::from_edges(n, &cyc)));
        }
        // cycle with tail: 0 -> 1 -> ... -> k, and a cycle among the last 3
        let mut tail = chain.clone();
        tail.push((n - 1, n - 3));
        out.push((format!("tail-into-cycle-{}", n), Graph::from_edges(n, &tail)));
        // cycle not reachable from the first declaration: node 0 isolated, cycle among last two
        out.push((
            format!("unreachable-cycle-{}", n),
            Graph::from_edges(n, &[(n - 2, n - 1), (n - 1, n - 2)]),
        ));
        // complete DAG: i -> j for all i < j
        let mut dag = vec![];
        for i in 0..n {
            for j in i + 1..n {
                dag.push((i, j));
            }
        }
        out.push((format!("complete-dag-{}", n), Graph::from_edges(n, &dag)));
        // complete DAG plus one back edge from the last to the first
        let mut dagb = dag.clone();
        dagb.push((n - 1, 0));
        out.push((format!("complete-dag-backedge-{}", n), Graph::from_edges(n, &dagb)));
        // diamond ladder: 0->1,0->2,1->3,2->3,3->4,3->5,...
        let mut dia = vec![];
        let mut i = 0;
        while i + 3 < n {
            dia.push((i, i + 1));
            dia.push((i, i + 2));
            dia.push((i + 1, i + 3));
            dia.push((i + 2, i + 3));
            i += 3;
        }
        out.push((format!("diamonds-{}", n), Graph::from_edges(n, &dia)));
        // wide: node 0 refers to all others
        let wide: Vec<(usize, usize)> = (1..n).map(|j| (0, j)).collect();
        out.push((format!("wide-{}", n), Graph::from_edges(n, &wide)));
        // two components, second one cyclic / acyclic
        let h = n / 2;
        let mut two: Vec<(usize, usize)> = (0..h - 1).map(|i| (i, i + 1)).collect();
        two.extend((h..n - 1).map(|i| (i, i + 1)));
        out.push((format!("two-components-acyclic-{}", n), Graph::from_edges(n, &two)));
        two.push((n - 1, h));
        out.push((format!("two-components-second-cyclic-{}", n), Graph::from_edges(n, &two)));
    }
    // large graphs around the sizes at which fixed-width tables and counters end
    for n in [16usize, 17, 31, 32, 33, 63, 64, 65, 127, 128, 129, 255, 256, 257, 300] {
        let chain: Vec<(usize, usize)> = (0..n - 1).map(|i| (i, i + 1)).collect();
        out.push((format!("large/chain-{}", n), Graph::from_edges(n, &chain)));
        let rchain: Vec<(usize, usize)> = (1..n).map(|i| (i, i - 1)).collect();
        out.push((format!("large/rchain-{}", n), Graph::from_edges(n, &rchain)));
        let mut ring = chain.clone();
        ring.push((n - 1, 0));
        out.push((format!("large/ring-{}", n), Graph::from_edges(n, &ring)));
        // the only cycle is among the last two declarations
        let mut late = chain.clone();
        late.push((n - 1, n - 2));
        out.push((format!("large/chain-with-last-two-cyclic-{}", n), Graph::from_edges(n, &late)));
        // node 0 refers to all others (acyclic), and the same with one reference back from the last
        let wide: Vec<(usize, usize)> = (1..n).map(|j| (0, j)).collect();
        out.push((format!("large/wide-{}", n), Graph::from_edges(n, &wide)));
        let mut wb = wide.clone();
        wb.push((n - 1, 0));
        out.push((format!("large/wide-backedge-{}", n), Graph::from_edges(n, &wb)));
        // all others refer to the last one (acyclic), and the same with the last referring to the first
        let fan: Vec<(usize, usize)> = (0..n - 1).map(|i| (i, n - 1)).collect();
        out.push((format!("large/fan-in-{}", n), Graph::from_edges(n, &fan)));
        let mut fb = fan.clone();
        fb.push((n - 1, 0));
        out.push((format!("large/fan-in-backedge-{}", n), Graph::from_edges(n, &fb)));
    }
    out
}

pub fn run(ctx: &mut Ctx) {
    ctx.rule = "every digraph on n nodes (bitmask over n*n possible edges, self-loops included) x realisations (FB instances; all-struct types; alias for out-degree 1 else struct; function blocks and structures mixed — every assignment of the two kinds for n <= 3, four assignments for n = 4; function blocks and structures also with further variables / elements beside the edge-carrying ones, and with VAR_EXTERNAL references to every function block, which are no containment) x {ascending, descending declaration order, ascending with every reference spelled in the other letter case}; distinct = distinct program text; all are non-trivial (each is a different reference graph)".into();
    ctx.assumptions.push("reference oracle: a digraph is cyclic iff iterated deletion of successor-free nodes leaves a non-empty rest (harness code, independent of petgraph)".into());
    ctx.assumptions.push("recursion is 'reported' iff the codes contain P0010 or P0013; other codes (e.g. P9999 for unsupported constructs) are ignored in the acyclic direction".into());
    let reals = [Real::Fb, Real::Struct, Real::AliasMix];
    let mut cases: Vec<Case> = vec![];
    let max_n = 4;
    for n in 0..=max_n {
        let bits = n * n;
        let orders: &[&'static str] = &["asc", "desc", "asc-references-in-other-case"];
        for mask in 0u64..(1u64 << bits) {
            let g = Graph::from_mask(n, mask);
            for real in reals {
                for o in orders {
                    if n <= 1 && *o == "desc" {
                        continue;
                    }
                    cases.push(Case {
                        g: g.clone(),
                        real,
                        order_name: o,
                        family: format!("all-n{}", n),
                    });
                }
            }
        }
    }
    // decorated declarations: further variables / elements beside the edge-carrying ones
    for n in 1..=max_n {
        let bits = n * n;
        let decos: &[&'static str] = if n <= 3 { &["asc+init-struct-before", "asc+init-struct-after", "asc+mixed-before", "desc+init-struct-before"] } else { &["asc+init-struct-before", "asc+mixed-before"] };
        for mask in 0u64..(1u64 << bits) {
            let g = Graph::from_mask(n, mask);
            for real in [Real::Fb, Real::Struct] {
                for o in decos {
                    cases.push(Case { g: g.clone(), real, order_name: o, family: format!("decorated-n{}", n) });
                }
            }
        }
    }
    // neighbours: an unrelated valid declaration (its last variable of each class, a function, plain types, an
    // initialised structure variable, a program with its configuration) directly before or after the graph's declarations
    {
        const NEIGHBOURS: [&str; 16] = [
            "asc+neighbour-in-out-last-first", "asc+neighbour-in-out-last-last", "asc+neighbour-input-last-first", "asc+neighbour-input-last-last", "asc+neighbour-output-last-first", "asc+neighbour-output-last-last",
            "asc+neighbour-constant-last-first", "asc+neighbour-constant-last-last", "asc+neighbour-function-first", "asc+neighbour-function-last", "asc+neighbour-enumeration-and-array-first",
            "asc+neighbour-enumeration-and-array-last", "asc+neighbour-initialised-structure-variable-last-first", "asc+neighbour-initialised-structure-variable-last-last", "asc+neighbour-program-and-configuration-first",
            "asc+neighbour-program-and-configuration-last",
        ];
        for n in 1..=3usize {
            let bits = n * n;
            for mask in 0u64..(1u64 << bits) {
                let g = Graph::from_mask(n, mask);
                for real in [Real::Fb, Real::Struct, Real::AliasMix] {
                    for o in NEIGHBOURS {
                        cases.push(Case { g: g.clone(), real, order_name: o, family: format!("neighbours-n{}", n) });
                    }
                }
            }
        }
    }
    // function blocks that also name each other in VAR_EXTERNAL blocks (no containment)
    for n in 1..=max_n {
        let bits = n * n;
        for mask in 0u64..(1u64 << bits) {
            let g = Graph::from_mask(n, mask);
            cases.push(Case { g: g.clone(), real: Real::Fb, order_name: "asc+externals-to-all", family: format!("externals-n{}", n) });
            if n <= 3 {
                cases.push(Case { g, real: Real::Fb, order_name: "desc+externals-to-all", family: format!("externals-n{}", n) });
            }
        }
    }
    // mixed function-block / structure graphs: every assignment of kinds with both kinds present (n <= 3),
    // the alternating and the half-half assignment for n = 4
    for n in 2..=max_n {
        let bits = n * n;
        let masks: Vec<u32> = if n <= 3 { (1..(1u32 << n) - 1).collect() } else { vec![0b0101, 0b1010, 0b0011, 0b1100] };
        for mask in 0u64..(1u64 << bits) {
            let g = Graph::from_mask(n, mask);
            for km in &masks {
                cases.push(Case { g: g.clone(), real: Real::FbStructMix(*km), order_name: "asc", family: format!("mix-n{}", n) });
            }
        }
    }
    for (name, g) in families() {
        for real in [Real::Fb, Real::Struct, Real::AliasMix, Real::FbStructMix(0x5555_5555)] {
            for o in ["asc", "desc"] {
                cases.push(Case {
                    g: g.clone(),
                    real,
                    order_name: o,
                    family: name.clone(),
                });
            }
        }
    }
    ctx.bounds.insert("exhaustive_nodes_max".into(), json!(max_n));
    ctx.bounds.insert("family_nodes_max".into(), json!(300));
    let mut n5_edges = 0;
    {
        // n = 5 with at most 7 edges (thorough: 9): enumerate masks by popcount
        n5_edges = if ctx.tier.thorough() { 9 } else { 7 };
        let n = 5usize;
        let bits = 25u32;
        fn rec(start: u32, bits: u32, left: u32, cur: u64, out: &mut Vec<u64>) {
            out.push(cur);
            if left == 0 {
                return;
            }
            for b in start..bits {
                rec(b + 1, bits, left - 1, cur | (1u64 << b), out);
            }
        }
        let mut masks = vec![];
        rec(0, bits, n5_edges, 0, &mut masks);
        for mask in masks {
            let g = Graph::from_mask(n, mask);
            for real in reals {
                cases.push(Case {
                    g: g.clone(),
                    real,
                    order_name: "asc",
                    family: format!("all-n5-le{}", n5_edges),
                });
            }
        }
    }
    ctx.bounds.insert("n5_max_edges".into(), json!(n5_edges));

    let total = cases.len() as u64;
    // process in chunks so that the wall cap can stop between chunks
    let chunk = 200_000;
    let mut done = 0u64;
    let mut cyc = 0u64;
    let mut acyc = 0u64;
    for part in cases.chunks(chunk) {
        if ctx.over_budget("next chunk of graphs") {
            break;
        }
        let results: Vec<Res> = part
            .par_iter()
            .map(|c| judge(&c.g, c.real, c.order_name, &c.family))
            .collect();
        for (i, r) in results.into_iter().enumerate() {
            let idx = done + i as u64;
            ctx.evaluations += 1;
            ctx.transitions += 1;
            ctx.distinct_hash(r.canon);
            if r.cyclic {
                cyc += 1;
            } else {
                acyc += 1;
            }
            ctx.outcome(&format!(
                "{}:{}",
                if r.cyclic { "cyclic" } else { "acyclic" },
                r.verdict
            ));
            if ctx.want_sample(idx, total) {
                ctx.sample(r.replay.clone());
            }
            if let Some(k) = r.key {
                ctx.fail(&k, &r.what, r.replay);
            }
        }
        done += part.len() as u64;
    }
    ctx.states = done;
    ctx.traces = done;
    ctx.extra.insert("cyclic_cases".into(), json!(cyc));
    ctx.extra.insert("acyclic_cases".into(), json!(acyc));
    ctx.extra.insert("cases_planned".into(), json!(total));
}

pub fn replay(case: &Value) -> Result<String, String> {
    let real = Real::from(case["realisation"].as_str().unwrap_or("")).ok_or("bad realisation")?;
    let n = case["n"].as_u64().ok_or("n")? as usize;
    let edges: Vec<(usize, usize)> = case["edges"]
        .as_array()
        .ok_or("edges")?
        .iter()
        .map(|e| (e[0].as_u64().unwrap() as usize, e[1].as_u64().unwrap() as usize))
        .collect();
    let g = Graph::from_edges(n, &edges);
    let order = case["order"].as_str().unwrap_or("asc");
    let r = judge(&g, real, order, case["family"].as_str().unwrap_or("replay"));
    let distinct_codes: BTreeSet<String> = BTreeSet::new();
    let _ = distinct_codes;
    match r.key {
        Some(k) => Err(format!("{} :: {}", k, r.what)),
        None => Ok(format!(
            "holds: cyclic={} observed={}",
            r.cyclic, r.verdict
        )),
    }
}
