//! C02 — the check verdict agrees with the documented semantic rules, in both directions.
//!
//! Deviation-bounded exhaustive exploration of the slot world (quick <= 2 deviations, thorough <= 3;
//! use site, host kind and host position are cost-0 and always fully expanded); the reference model
//! of world.rs says which documented rules a world violates.

use crate::checks::c01::Attribution;
use crate::cli;
use crate::explore::explore;
use crate::front::{self, Verdict};
use crate::report::Ctx;
use crate::util::Scratch;
use crate::world::{self, World};
use rayon::prelude::*;
use serde_json::{json, Value};
use std::collections::BTreeSet;
use std::time::Duration;

pub fn worlds(bound: u32) -> Vec<World> {
    let mut out = vec![];
    let mut seen = std::collections::HashSet::new();
    explore(bound, |ch| {
        let w = world::world(ch);
        if seen.insert(crate::util::fnv(&w.text())) {
            out.push(w);
        }
    });
    out
}

#[derive(Debug, Clone)]
pub struct Judged {
    pub class: &'static str,
    pub sig: Option<String>,
    pub codes: BTreeSet<String>,
    pub detail: String,
}

pub fn judge(w: &World) -> Judged {
    let text = w.text();
    let (verdict, diags) = front::check_texts(&[&text]);
    let codes = verdict.codes();
    let vio: BTreeSet<String> = w.violated.iter().map(|s| s.to_string()).collect();
    let mk = |class: &'static str, sig: Option<String>, detail: String| Judged { class, sig, codes: codes.clone(), detail };
    if let Verdict::Panic(loc) = &verdict {
        return mk("panic", Some(format!("panic@{}", loc)), format!("analysis panicked at {}", loc));
    }
    if codes.contains("P0002") || codes.contains("P0031") {
        return mk("world-does-not-parse", Some(format!("world-does-not-parse:{}", verdict.short())), "the generated world is rejected by the parser".into());
    }
    let only_9999 = !codes.is_empty() && codes.iter().all(|c| c == "P9999");
    // "not implemented" said by a transform stops the analysis (nothing after it is judged); said by a rule it stops
    // that rule only — the other rules have run, and a planted fault they are about must still be reported
    let every_9999_from_a_rule = diags.iter().filter(|d| d.code == "P9999").all(|d| {
        let m = format!("{} {}", d.primary.message, d.described.join(" "));
        m.contains("/rule_") && !m.contains("/xform_")
    });
    if only_9999 && (vio.is_empty() || !every_9999_from_a_rule) {
        return mk("unsupported(P9999)", None, String::new());
    }
    let rule_codes: BTreeSet<String> = codes.iter().filter(|c| *c != "P9999").cloned().collect();
    let codes_seen = codes.clone();
    let codes: BTreeSet<String> = if only_9999 { BTreeSet::new() } else { codes };
    let mk = |class: &'static str, sig: Option<String>, detail: String| Judged { class, sig, codes: codes_seen.clone(), detail };
    if vio.is_empty() {
        if codes.is_empty() {
            mk("agree-ok", None, String::new())
        } else {
            mk("false-rejection", Some(format!("valid->{}", rule_codes.iter().cloned().collect::<Vec<_>>().join("+"))), format!("a world that satisfies every rule is rejected with {:?}", codes))
        }
    } else if vio.len() == 1 {
        let r = vio.iter().next().unwrap();
        if codes.contains(r) {
            mk("agree-single-fault", None, String::new())
        } else if codes.is_empty() {
            mk("missed", Some(format!("{}->OK", r)), format!("the world violates {} but check says OK", r))
        } else {
            mk("wrong-code", Some(format!("{}->{}", r, rule_codes.iter().cloned().collect::<Vec<_>>().join("+"))), format!("the world violates {} only, reported {:?}", r, codes))
        }
    } else if codes.is_empty() {
        mk("missed-multi", Some(format!("{}->OK", vio.iter().cloned().collect::<Vec<_>>().join("+"))), format!("the world violates {:?} but check says OK", vio))
    } else {
        mk("agree-multi-fault", None, String::new())
    }
}

pub fn run(ctx: &mut Ctx) {
    let bound = if ctx.tier.thorough() { 3 } else { 2 };
    // the use site is expanded at no cost; the menu it is expanded over shrinks as the number of deviations grows:
    // one deviation over every use site, two over the first 31 (statement and expression positions; the sites deeper
    // inside access paths and after enumeration bodies vary one slot at a time), three (thorough) over the first eight
    let ws = {
        let mut ws = worlds(1);
        let mut seen: std::collections::HashSet<u64> = ws.iter().map(|w| crate::util::fnv(&w.text())).collect();
        let mut deeper: Vec<(u32, usize)> = vec![(2, 31)];
        if bound == 3 {
            deeper.push((3, 8));
        }
        for (b, limit) in deeper {
            world::SITE_LIMIT.with(|f| f.set(limit));
            let more = worlds(b);
            world::SITE_LIMIT.with(|f| f.set(0));
            for w in more {
                if seen.insert(crate::util::fnv(&w.text())) {
                    ws.push(w);
                }
            }
        }
        ws
    };
    ctx.rule = "slot world (types with enum / subrange / struct / array / alias slots, Callee, Fn, a host POU with variable, constant, external, function-block invocation and use-site slots, Main, a configuration with global / task slots): every assignment of the slots with at most `deviation_bound` costly deviations (valid options and planted faults alike); the use site (31 statement/expression positions), host kind and host position are cost-0 and fully expanded; plus each rule at scale (1 to 1000 elements, valid and with the fault at the first, middle and last element); distinct = distinct world text".into();
    ctx.bounds.insert("deviation_bound".into(), json!(bound));
    ctx.bounds.insert("use_sites".into(), json!(world::SITES.len()));
    ctx.assumptions.push("the reference model decides what each world violates from the slot values (documented Passes/Fails shapes of each rule); P9999-only answers are counted as 'declared unsupported', never as pass or fail".into());
    let judged: Vec<Judged> = ws.par_iter().map(judge).collect();
    let mut order: Vec<usize> = (0..ws.len()).collect();
    order.sort_by_key(|i| (ws[*i].labels.len(), *i));
    let mut attr = Attribution::new();
    let total = ws.len() as u64;
    let mut judged_n = 0u64;
    let mut unsupported = 0u64;
    for (n, i) in order.iter().enumerate() {
        let (w, j) = (&ws[*i], &judged[*i]);
        ctx.evaluations += 1;
        ctx.transitions += 1;
        ctx.distinct_hash(crate::util::fnv(&w.text()));
        ctx.outcome(j.class);
        if j.class == "unsupported(P9999)" {
            unsupported += 1;
        } else {
            judged_n += 1;
        }
        if let Some(sig) = &j.sig {
            let sigs: BTreeSet<String> = [sig.clone()].into_iter().collect();
            // a recorded false rejection (valid->X) of a sub-world stops the analysis with X whatever else
            // the world contains: X alone is then attributed to that failure, not reported per combination
            let masked = match sig.split_once("->") {
                Some((exp, obs)) if exp != "valid" && obs != "OK" => attr.find_root("world", &w.labels, &format!("valid->{}", obs)),
                _ => None,
            };
            let key = match masked {
                Some(k) => k,
                None => attr.key_for("world", &w.labels, &sigs),
            };
            ctx.fail(&key, &format!("[{}] {} ;; violated per reference model: {:?}, reported: {:?}", w.labels.join(","), j.detail, w.violated, j.codes), json!({"labels": w.labels, "text": w.text(), "violated": w.violated.iter().collect::<Vec<_>>()}));
        }
        if ctx.want_sample(n as u64, total) {
            ctx.sample(json!({"labels": w.labels, "violated": w.violated.iter().collect::<Vec<_>>(), "reported": j.codes, "text": crate::util::short(&w.text(), 300)}));
        }
    }
    ctx.states = total;
    ctx.extra.insert("worlds_judged".into(), json!(judged_n));
    ctx.extra.insert("worlds_declared_unsupported_P9999".into(), json!(unsupported));
    if judged_n * 10 < total * 9 {
        ctx.extra.insert("degraded".into(), json!("more than 10% of the worlds were answered with P9999 only"));
    }

    // bind the in-process result to the CLI: a systematic subset through `ironplcc check`
    let stride = (ws.len() / if ctx.tier.thorough() { 400 } else { 120 }).max(1);
    let subset: Vec<usize> = (0..ws.len()).filter(|i| i % stride == 0).collect();
    let scratch = Scratch::new("c02");
    let cli_res: Vec<(usize, Option<String>)> = subset
        .par_iter()
        .map(|i| {
            let w = &ws[*i];
            let dir = scratch.sub(&format!("w{}", i));
            let tmp = scratch.sub(&format!("t{}", i));
            let f = dir.join("world.st");
            std::fs::write(&f, w.text()).unwrap();
            let r = cli::run(&["check", f.to_str().unwrap()], &tmp, Duration::from_secs(30));
            let cli_codes: BTreeSet<String> = r.diags.iter().map(|d| d.code.clone()).collect();
            let j = &judged[*i];
            let ok = (r.exit == Some(0)) == j.codes.is_empty() && cli_codes == j.codes && !r.crashed();
            (*i, if ok { None } else { Some(format!("binary: {} ; in-process codes {:?}", r.summary(), j.codes)) })
        })
        .collect();
    for (i, r) in cli_res {
        ctx.traces += 1;
        if let Some(m) = r {
            ctx.fail("binary-differs-from-in-process", &format!("[{}] {}", ws[i].labels.join(","), m), json!({"labels": ws[i].labels, "text": ws[i].text()}));
        }
    }
    ctx.extra.insert("cli_runs".into(), json!(ctx.traces));
    scale_family(ctx);
    minimal_units(ctx);
}

/// One rule at scale: a program with n elements of the kind the rule looks at, valid or with the rule's
/// fault planted at element `k`. Returns (text, expected code or None for valid).
pub fn scale_case(rule: &str, n: usize, k: Option<usize>) -> (String, Option<&'static str>) {
    let j = |f: &dyn Fn(usize) -> String, sep: &str| (0..n).map(f).collect::<Vec<_>>().join(sep);
    match rule {
        "P0003" => {
            let mut elems = j(&|i| format!("e{} : INT ;", i), " ");
            if let Some(k) = k {
                elems.push_str(&format!(" e{} : BOOL ;", k));
            }
            (format!("TYPE S : STRUCT {} END_STRUCT ; END_TYPE", elems), k.map(|_| "P0003"))
        }
        "P0005" => {
            let mut vals = j(&|i| format!("V{}", i), " , ");
            if let Some(k) = k {
                vals.push_str(&format!(" , V{}", k));
            }
            (format!("TYPE E : ( {} ) := V0 ; END_TYPE", vals), k.map(|_| "P0005"))
        }
        "P0004" => (format!("TYPE {} END_TYPE", j(&|i| if Some(i) == k { format!("R{} : INT ( 10 .. 1 ) ;", i) } else { format!("R{} : INT ( 1 .. 10 ) ;", i) }, " ")), k.map(|_| "P0004")),
        "P0015" => (
            format!(
                "FUNCTION_BLOCK F VAR {} END_VAR {} END_FUNCTION_BLOCK",
                j(&|i| format!("v{} : INT ;", i), " "),
                j(&|i| if Some(i) == k { format!("v{} := zz{} ;", i, i) } else { format!("v{} := v{} + 1 ;", i, (i + 1) % n) }, " ")
            ),
            k.map(|_| "P0015"),
        ),
        "P0014" => (
            format!(
                "TYPE E : ( {} ) := V0 ; END_TYPE FUNCTION_BLOCK F VAR {} END_VAR END_FUNCTION_BLOCK",
                j(&|i| format!("V{}", i), " , "),
                j(&|i| if Some(i) == k { format!("x{} : E := Nope{} ;", i, i) } else { format!("x{} : E := V{} ;", i, i) }, " ")
            ),
            k.map(|_| "P0014"),
        ),
        "P0007" => (
            format!(
                "FUNCTION_BLOCK Callee VAR_INPUT {} END_VAR END_FUNCTION_BLOCK FUNCTION_BLOCK F VAR inst : Callee ; END_VAR inst ( {} ) ; END_FUNCTION_BLOCK",
                j(&|i| format!("a{} : INT ;", i), " "),
                j(&|i| if Some(i) == k { format!("nope{} := {}", i, i) } else { format!("a{} := {}", i, i) }, " , ")
            ),
            k.map(|_| "P0007"),
        ),
        "P0016" => (format!("FUNCTION_BLOCK F VAR CONSTANT {} END_VAR END_FUNCTION_BLOCK", j(&|i| if Some(i) == k { format!("c{} : INT ;", i) } else { format!("c{} : INT := {} ;", i, i) }, " ")), k.map(|_| "P0016")),
        "P0022" => (format!("FUNCTION_BLOCK F VAR {} END_VAR END_FUNCTION_BLOCK", j(&|i| if Some(i) == k { format!("x{} : Missing{} ;", i, i) } else { format!("x{} : INT ;", i) }, " ")), k.map(|_| "P0022")),
        "P0011" => (
            format!(
                "PROGRAM Main VAR n : INT ; END_VAR n := 1 ; END_PROGRAM CONFIGURATION c RESOURCE r ON PLC {} {} END_RESOURCE END_CONFIGURATION",
                j(&|i| format!("TASK t{} ( PRIORITY := 1 ) ;", i), " "),
                j(&|i| if Some(i) == k { format!("PROGRAM p{} WITH nope{} : Main ;", i, i) } else { format!("PROGRAM p{} WITH t{} : Main ;", i, i) }, " ")
            ),
            k.map(|_| "P0011"),
        ),
        "P0021" => (
            format!(
                "FUNCTION_BLOCK Callee VAR_INPUT a : INT ; END_VAR END_FUNCTION_BLOCK FUNCTION_BLOCK F VAR {} END_VAR {} END_FUNCTION_BLOCK",
                j(&|i| format!("i{} : Callee ;", i), " "),
                j(&|i| if Some(i) == k { format!("nope{} ( a := 1 ) ;", i) } else { format!("i{} ( a := {} ) ;", i, i) }, " ")
            ),
            k.map(|_| "P0021"),
        ),
        _ => unreachable!(),
    }
}

pub const SCALE_RULES: [&str; 10] = ["P0003", "P0005", "P0004", "P0015", "P0014", "P0007", "P0016", "P0022", "P0011", "P0021"];
pub const SCALE_SIZES: [usize; 17] = [1, 2, 3, 8, 9, 16, 17, 32, 33, 64, 65, 128, 129, 255, 256, 257, 1000];

fn scale_family(ctx: &mut Ctx) {
    let mut jobs: Vec<(&'static str, usize, Option<usize>)> = vec![];
    for r in SCALE_RULES {
        for &n in SCALE_SIZES.iter() {
            jobs.push((r, n, None));
            let mut ks = vec![0, n / 2, n - 1];
            ks.dedup();
            for k in ks {
                jobs.push((r, n, Some(k)));
            }
        }
    }
    let res: Vec<(BTreeSet<String>, Option<&'static str>)> = jobs
        .par_iter()
        .map(|(r, n, k)| {
            let (text, expect) = scale_case(r, *n, *k);
            let (verdict, _) = front::check_texts(&[&text]);
            (verdict.codes(), expect)
        })
        .collect();
    for ((r, n, k), (codes, expect)) in jobs.iter().zip(res.iter()) {
        ctx.evaluations += 1;
        ctx.transitions += 1;
        ctx.distinct(&format!("scale|{}|{}|{:?}", r, n, k));
        let pos = match k {
            None => "valid",
            Some(0) => "fault-at-first",
            Some(x) if *x == n - 1 => "fault-at-last",
            Some(_) => "fault-in-the-middle",
        };
        let ok = match expect {
            None => codes.is_empty() || codes.iter().all(|c| c == "P9999"),
            Some(c) => codes.contains(*c) || codes.iter().all(|c| c == "P9999") && !codes.is_empty(),
        };
        let unsupported = !codes.is_empty() && codes.iter().all(|c| c == "P9999");
        ctx.outcome(if unsupported { "scale: declared unsupported (P9999)" } else if !ok { "scale: disagrees" } else if expect.is_some() { "scale: fault diagnosed with its code" } else { "scale: valid program accepted" });
        if !ok {
            ctx.fail(
                &format!("scale/{}/{}#{}", r, pos, if codes.is_empty() { "OK".to_string() } else { codes.iter().cloned().collect::<Vec<_>>().join("+") }),
                &format!("{} elements, {}: expected {}, reported {:?}", n, pos, expect.unwrap_or("no diagnostic"), codes),
                json!({"mode":"scale","rule":r,"n":n,"k":k}),
            );
        }
    }
    ctx.bounds.insert("scale_family".into(), json!(format!("{} rules x sizes {:?} x {{valid, fault at first / middle / last element}}", SCALE_RULES.len(), SCALE_SIZES)));
}


/// Units that hold nothing but the construct a rule is about: (name, text, expected code or "" for a valid unit).
/// The worlds always declare an enumeration, a structure, callees, a configuration ...; here nothing else is declared.
pub const MINIMAL_UNITS: &[(&str, &str, &str)] = &[
    ("enum-default-undeclared", "TYPE T : (A, B) := C; END_TYPE", "P0014"),
    ("enum-init-of-undeclared-type/fb", "FUNCTION_BLOCK F VAR lv : LOGLEVEL := CRITICAL; END_VAR END_FUNCTION_BLOCK", "P0012"),
    ("enum-init-of-undeclared-type/program", "PROGRAM F VAR lv : LOGLEVEL := CRITICAL; END_VAR END_PROGRAM", "P0012"),
    ("enum-init-of-undeclared-type/function", "FUNCTION F : INT VAR lv : LOGLEVEL := CRITICAL; END_VAR F := 1; END_FUNCTION", "P0012"),
    ("enum-value-undeclared", "TYPE L : (A, B); END_TYPE FUNCTION_BLOCK F VAR v : L := Z; END_VAR END_FUNCTION_BLOCK", "P0014"),
    ("undeclared-variable", "FUNCTION_BLOCK F VAR x : INT; END_VAR y := 1; END_FUNCTION_BLOCK", "P0015"),
    ("undeclared-variable/no-declarations", "FUNCTION_BLOCK F y := 1; END_FUNCTION_BLOCK", "P0015"),
    ("undeclared-variable/program", "PROGRAM F y := 1; END_PROGRAM", "P0015"),
    ("undeclared-variable/read", "PROGRAM F VAR x : INT; END_VAR x := y; END_PROGRAM", "P0015"),
    ("subrange-inverted", "TYPE R : INT(10..1); END_TYPE", "P0004"),
    ("array-inverted/type", "TYPE A : ARRAY[3..1] OF INT; END_TYPE", "P0004"),
    ("array-inverted/variable", "FUNCTION_BLOCK F VAR a : ARRAY[3..1] OF INT; END_VAR END_FUNCTION_BLOCK", "P0004"),
    ("array-inverted/variable-second-dimension", "FUNCTION_BLOCK F VAR a : ARRAY[1..4, 8..2] OF INT; END_VAR END_FUNCTION_BLOCK", "P0004"),
    ("array-inverted/program-variable", "PROGRAM F VAR a : ARRAY[1..4, 8..2] OF INT; END_VAR END_PROGRAM", "P0004"),
    ("array-inverted/function-input", "FUNCTION F : INT VAR_INPUT a : ARRAY[8..2] OF INT; END_VAR F := 1; END_FUNCTION", "P0004"),
    ("array-inverted/structure-element", "TYPE S : STRUCT a : ARRAY[1..4, 8..2] OF INT; END_STRUCT; END_TYPE", "P0004"),
    ("subrange-inverted/structure-element", "TYPE S : STRUCT a : INT(5..1); END_STRUCT; END_TYPE", "P0004"),
    ("constant-without-initial-value", "FUNCTION_BLOCK F VAR CONSTANT c : INT; END_VAR END_FUNCTION_BLOCK", "P0016"),
    ("constant-function-block-instance", "FUNCTION_BLOCK C END_FUNCTION_BLOCK FUNCTION_BLOCK F VAR CONSTANT i : C; END_VAR END_FUNCTION_BLOCK", "P0017"),
    ("variable-of-unknown-type", "FUNCTION_BLOCK F VAR x : UNKNOWN_T; END_VAR END_FUNCTION_BLOCK", "P0022"),
    ("type-cycle/two", "TYPE A : B; B : A; END_TYPE", "P0010"),
    ("type-cycle/self", "TYPE A : A; END_TYPE", "P0010"),
    ("function-block-contains-itself", "FUNCTION_BLOCK F VAR i : F; END_VAR END_FUNCTION_BLOCK", "P0010"),
    ("duplicate-enumeration-value", "TYPE E : (A, A); END_TYPE", "P0005"),
    ("duplicate-structure-element", "TYPE S : STRUCT a : INT; a : INT; END_STRUCT; END_TYPE", "P0003"),
    ("positional-argument-count", "FUNCTION_BLOCK C VAR_INPUT a : INT; END_VAR END_FUNCTION_BLOCK FUNCTION_BLOCK F VAR i : C; END_VAR i(1, 2); END_FUNCTION_BLOCK", "P0008"),
    ("named-unknown-input", "FUNCTION_BLOCK C VAR_INPUT a : INT; END_VAR END_FUNCTION_BLOCK FUNCTION_BLOCK F VAR i : C; END_VAR i(zz := 1); END_FUNCTION_BLOCK", "P0007"),
    ("mixed-named-and-positional", "FUNCTION_BLOCK C VAR_INPUT a : INT; b : INT; END_VAR END_FUNCTION_BLOCK FUNCTION_BLOCK F VAR i : C; END_VAR i(a := 1, 2); END_FUNCTION_BLOCK", "P0006"),
    ("invocation-of-undeclared-instance", "FUNCTION_BLOCK F i(); END_FUNCTION_BLOCK", "P0021"),
    ("invocation-of-a-variable-that-is-no-instance", "FUNCTION_BLOCK F VAR i : INT; END_VAR i(); END_FUNCTION_BLOCK", "P0021"),
    ("task-undeclared", "CONFIGURATION c RESOURCE r ON PLC PROGRAM p WITH t : Prog; END_RESOURCE END_CONFIGURATION PROGRAM Prog END_PROGRAM", "P0011"),
    ("external-of-constant-global-not-constant", "CONFIGURATION c VAR_GLOBAL CONSTANT g : INT := 1; END_VAR RESOURCE r ON PLC PROGRAM p : Prog; END_RESOURCE END_CONFIGURATION PROGRAM Prog VAR_EXTERNAL g : INT; END_VAR END_PROGRAM", "P0018"),
    ("valid/empty-function-block", "FUNCTION_BLOCK F END_FUNCTION_BLOCK", ""),
    ("valid/empty-program", "PROGRAM P END_PROGRAM", ""),
    ("valid/function", "FUNCTION F : INT F := 1; END_FUNCTION", ""),
    ("valid/one-enumeration", "TYPE L : (A, B) := A; END_TYPE", ""),
    ("valid/one-subrange", "TYPE R : INT(1..10); END_TYPE", ""),
    ("valid/one-array-variable", "FUNCTION_BLOCK F VAR a : ARRAY[1..4, 2..8] OF INT; END_VAR END_FUNCTION_BLOCK", ""),
    ("valid/one-constant", "FUNCTION_BLOCK F VAR CONSTANT c : INT := 1; END_VAR END_FUNCTION_BLOCK", ""),
    ("valid/one-invocation", "FUNCTION_BLOCK C VAR_INPUT a : INT; END_VAR END_FUNCTION_BLOCK FUNCTION_BLOCK F VAR i : C; END_VAR i(1); i(a := 2); i(); END_FUNCTION_BLOCK", ""),
    ("valid/one-configuration", "CONFIGURATION c RESOURCE r ON PLC TASK t(INTERVAL := T#100ms, PRIORITY := 1); PROGRAM p WITH t : Prog; END_RESOURCE END_CONFIGURATION PROGRAM Prog END_PROGRAM", ""),
    ("valid/external-of-constant-global", "CONFIGURATION c VAR_GLOBAL CONSTANT g : INT := 1; END_VAR RESOURCE r ON PLC PROGRAM p : Prog; END_RESOURCE END_CONFIGURATION PROGRAM Prog VAR_EXTERNAL CONSTANT g : INT; END_VAR END_PROGRAM", ""),
];

fn minimal_units(ctx: &mut Ctx) {
    // each unit as written, in lower case, and after an unrelated valid declaration
    let mut n = 0u64;
    for (name, text, expect) in MINIMAL_UNITS {
        for (sname, spelled) in [("as-written", text.to_string()), ("lower-case", text.to_lowercase()), ("after-an-unrelated-function", format!("FUNCTION Unrelated : INT Unrelated := 1; END_FUNCTION {}", text))] {
            n += 1;
            ctx.evaluations += 1;
            ctx.transitions += 1;
            ctx.distinct(&format!("minimal|{}|{}", name, sname));
            let (verdict, _) = front::check_texts(&[&spelled]);
            let codes = verdict.codes();
            let ok = match (&verdict, expect.is_empty()) {
                (front::Verdict::Panic(_), _) => false,
                (_, true) => codes.is_empty(),
                (_, false) => codes.contains(*expect),
            };
            ctx.outcome(if !ok { "minimal unit: disagrees" } else if expect.is_empty() { "minimal unit: valid unit accepted" } else { "minimal unit: fault diagnosed with its code" });
            if !ok {
                ctx.fail(
                    &format!("minimal/{}/{}#{}", name, sname, verdict.short()),
                    &format!("`{}`: expected {}, reported {}", spelled, if expect.is_empty() { "no diagnostic" } else { expect }, verdict.short()),
                    json!({"mode":"minimal","text": spelled, "expect": expect}),
                );
            }
        }
    }
    ctx.bounds.insert("minimal_units".into(), json!(format!("{} units x 3 spellings = {} programs that hold nothing but the construct one rule is about", MINIMAL_UNITS.len(), n)));
}

pub fn replay(case: &Value) -> Result<String, String> {
    if case["mode"] == json!("minimal") {
        let text = case["text"].as_str().ok_or("text")?;
        let expect = case["expect"].as_str().unwrap_or("");
        let (v, _) = front::check_texts(&[text]);
        let ok = if expect.is_empty() { v.is_ok() } else { v.codes().contains(expect) };
        return if ok { Ok(format!("verdict {}", v.short())) } else { Err(format!("expected {}, reported {}", if expect.is_empty() { "no diagnostic" } else { expect }, v.short())) };
    }
    if case["mode"] == json!("scale") {
        let r = SCALE_RULES.iter().find(|x| Some(**x) == case["rule"].as_str()).ok_or("rule")?;
        let (text, expect) = scale_case(r, case["n"].as_u64().ok_or("n")? as usize, case["k"].as_u64().map(|x| x as usize));
        let (verdict, _) = front::check_texts(&[&text]);
        let codes = verdict.codes();
        let ok = match expect {
            None => codes.is_empty(),
            Some(c) => codes.contains(c),
        };
        return if ok { Ok(format!("agrees: {:?}", codes)) } else { Err(format!("expected {:?}, reported {:?}", expect, codes)) };
    }
    let labels: Vec<String> = case["labels"].as_array().ok_or("labels")?.iter().map(|x| x.as_str().unwrap_or("").to_string()).collect();
    let ws = worlds(3);
    let w = ws.iter().find(|w| w.labels == labels).ok_or("world is not in the enumerated space any more")?;
    let j = judge(w);
    match j.sig {
        None => Ok(format!("agrees: {} (violated {:?}, reported {:?})", j.class, w.violated, j.codes)),
        Some(s) => Err(format!("{} :: {}", s, j.detail)),
    }
}

// ---------------------------------------------------------------------------
// C05(c): labels of diagnostics for planted faults

fn label_problems(w: &World) -> Vec<(String, String)> {
    let mut out = label_problems_in_order(w, &w.decls.iter().collect::<Vec<_>>());
    // the same world with the callee as the very first text of the file (a span that starts at offset 0 is a span
    // like any other), when a diagnostic may point at it
    if w.violated.iter().any(|c| matches!(*c, "P0006" | "P0007" | "P0008" | "P0009")) {
        let mut order: Vec<&crate::world::Decl> = w.decls.iter().filter(|d| d.name == "Callee").collect();
        order.extend(w.decls.iter().filter(|d| d.name != "Callee"));
        for (k, what) in label_problems_in_order(w, &order) {
            let k = format!("{}/callee-first", k);
            if !out.iter().any(|(k0, _)| format!("{}/callee-first", k0) == k) {
                out.push((k, what));
            }
        }
    }
    out
}

fn label_problems_in_order(w: &World, decls: &[&crate::world::Decl]) -> Vec<(String, String)> {
    let mut out = vec![];
    // one file; remember where each declaration sits
    let mut text = String::new();
    let mut ranges = vec![];
    let mut boundaries: BTreeSet<usize> = BTreeSet::new();
    for d in decls {
        let base = text.len();
        let t = d.text();
        let mut off = 0usize;
        for word in t.split(' ') {
            let wtrim = word.trim_end_matches('\n');
            boundaries.insert(base + off);
            boundaries.insert(base + off + wtrim.len());
            // pieces of composite words (Level#High, T#100ms) are lexemes of their own
            for (k, c) in wtrim.char_indices() {
                if c == '#' {
                    boundaries.insert(base + off + k);
                    boundaries.insert(base + off + k + 1);
                }
            }
            off += word.len() + 1;
        }
        text.push_str(&t);
        ranges.push((base, text.len(), d.faulty, d.name.clone()));
    }
    let (_, diags) = front::check_texts(&[&text]);
    for dg in diags {
        if dg.code == "P9999" {
            continue;
        }
        // every label, primary or secondary: it names a file, lies in the text, and when it runs up to the closing
        // keyword of a construct it holds the construct's opening keyword too (a label covers what it is about,
        // not the tail of it)
        for (li, lb) in std::iter::once(&dg.primary).chain(dg.secondary.iter()).enumerate() {
            let which = if li == 0 { "primary" } else { "secondary" };
            if li > 0 && lb.file_id.to_string().is_empty() {
                out.push((format!("{}/secondary-label-without-file", dg.code), format!("a secondary label ({:?}) of {} names no file", lb.message, dg.code)));
                continue;
            }
            let (a, b) = (lb.location.start, lb.location.end);
            if !(a <= b && b <= text.len()) || !text.is_char_boundary(a) || !text.is_char_boundary(b) {
                if li > 0 {
                    out.push((format!("{}/secondary-label-outside-text", dg.code), format!("label {}..{} ({:?}) of {} in a text of {} bytes", a, b, lb.message, dg.code, text.len())));
                }
                continue;
            }
            let covered = text[a..b].trim();
            for (open, close) in [("FUNCTION_BLOCK", "END_FUNCTION_BLOCK"), ("FUNCTION", "END_FUNCTION"), ("PROGRAM", "END_PROGRAM"), ("TYPE", "END_TYPE"), ("CONFIGURATION", "END_CONFIGURATION"), ("STRUCT", "END_STRUCT"), ("RESOURCE", "END_RESOURCE")] {
                let up = covered.to_ascii_uppercase();
                if up.ends_with(close) && !(close == "END_FUNCTION" && up.ends_with("END_FUNCTION_BLOCK")) {
                    let head = &up[..up.len() - close.len()];
                    let has_open = head.split(|c: char| !(c.is_ascii_alphanumeric() || c == '_')).any(|wd| wd == open);
                    if !has_open {
                        out.push((format!("{}/{}-label-covers-the-end-of-a-construct-without-its-beginning", dg.code, which), format!("label {}..{} ({:?}: {:?}) of {} ends with {} but does not hold {}", a, b, lb.message, crate::util::short(covered, 30), dg.code, close, open)));
                    }
                }
            }
        }
        let l = &dg.primary;
        let f = l.file_id.to_string();
        if f.is_empty() {
            out.push((format!("{}/primary-label-without-file", dg.code), format!("the primary label of {} names no file", dg.code)));
            continue;
        }
        let (s, e) = (l.location.start, l.location.end);
        if !(s <= e && e <= text.len()) || !text.is_char_boundary(s) || !text.is_char_boundary(e) {
            out.push((format!("{}/primary-label-outside-text", dg.code), format!("label {}..{} of {} in a text of {} bytes", s, e, dg.code, text.len())));
            continue;
        }
        if !w.violated.contains(dg.code.as_str()) || w.violated.len() != 1 {
            continue;
        }
        // planted single fault: the label must lie inside the faulty declaration, on lexeme boundaries
        let inside = ranges.iter().any(|(a, b, faulty, _)| *faulty && *a <= s && e <= *b);
        if s == e {
            out.push((format!("{}/primary-label-is-empty", dg.code), format!("label {}..{} of {} covers no text", s, e, dg.code)));
        } else if !inside {
            let at = ranges.iter().find(|(a, b, _, _)| *a <= s && s < *b).map(|r| r.3.clone()).unwrap_or_else(|| "?".into());
            out.push((
                format!("{}/primary-label-outside-the-faulty-declaration", dg.code),
                format!("label {}..{} ({:?}) of {} lies in declaration {} which is not the faulty one", s, e, crate::util::short(&text[s..e], 20), dg.code, at),
            ));
        } else if (dg.code == "P0005" || dg.code == "P0003") && l.message.to_lowercase().contains("first") && {
            // a label that calls itself the "first instance" is on the first place the name is written
            // (a label that says nothing of the kind may sit on any of the instances)
            let word = text[s..e].to_lowercase();
            let decl_start = ranges.iter().find(|(a, b, _, _)| *a <= s && e <= *b).map(|r| r.0).unwrap_or(0);
            // the duplicated name written earlier in the same list (between the opening of the list and the label)
            let before = text[decl_start..s].to_lowercase();
            let list_start = before.rfind(['(', 'T']).unwrap_or(0); // '(' of the value list, or the T of STRUCT
            before[list_start..].split(|c: char| !(c.is_ascii_alphanumeric() || c == '_' || c == '#')).any(|w| w == word || w.ends_with(&format!("#{}", word)))
        } {
            out.push((format!("{}/primary-label-not-on-the-first-instance", dg.code), format!("label {}..{} ({:?}) of {}: the same name is written earlier in the list", s, e, crate::util::short(&text[s..e], 20), dg.code)));
        } else if !boundaries.contains(&s) || !boundaries.contains(&e) {
            out.push((format!("{}/primary-label-splits-a-lexeme", dg.code), format!("label {}..{} ({:?}) of {} does not begin and end on lexeme boundaries", s, e, crate::util::short(&text[s..e], 20), dg.code)));
        } else {
            // "covers the spelling of the construct the message talks about": when the message names
            // a variable (`variable=Limit`) that is written in the faulty declaration, one of the labels
            // covers that spelling
            let decl = ranges.iter().find(|(a, b, _, _)| *a <= s && e <= *b).map(|r| text[r.0..r.1].to_lowercase()).unwrap_or_default();
            let words: Vec<&str> = decl.split(|c: char| !(c.is_ascii_alphanumeric() || c == '_')).collect();
            let named: Vec<String> = dg
                .described
                .iter()
                // a message may also name things that are not where the fault is (the type of an instance, a count):
                // only the variable it is about is demanded
                .filter_map(|d| {
                    d.split_once('=')
                        .filter(|(k, _)| {
                            let k = k.trim().to_ascii_lowercase();
                            k == "variable" || k.starts_with("undefined") || k == "source"
                        })
                        .map(|(_, v)| v.trim().to_lowercase())
                })
                .filter(|v| !v.is_empty() && words.contains(&v.as_str()))
                .collect();
            if !named.is_empty() {
                let mut covered = vec![text[s..e].to_lowercase()];
                for sl in &dg.secondary {
                    let (a, b) = (sl.location.start, sl.location.end);
                    if a <= b && b <= text.len() && text.is_char_boundary(a) && text.is_char_boundary(b) {
                        covered.push(text[a..b].to_lowercase());
                    }
                }
                let hit = named.iter().any(|v| covered.iter().any(|c| c.split(|ch: char| !(ch.is_ascii_alphanumeric() || ch == '_')).any(|w| w == v)));
                if !hit {
                    out.push((
                        format!("{}/no-label-covers-what-the-message-names", dg.code),
                        format!("{} names {:?}, written in the faulty declaration, but its labels cover {:?}", dg.code, named, covered),
                    ));
                }
            }
        }
    }
    out
}

/// Called by C05: runs the label oracle over the single-fault worlds and records under C05 keys.
pub fn label_oracle_into(ctx: &mut Ctx) {
    let ws: Vec<World> = worlds(1).into_iter().filter(|w| w.violated.len() == 1).collect();
    let res: Vec<Vec<(String, String)>> = ws.par_iter().map(label_problems).collect();
    let mut n = 0u64;
    for (w, probs) in ws.iter().zip(res.iter()) {
        n += 1;
        for (k, what) in probs {
            // key: code + defect class + use site when the fault is a use-site fault
            let site = w.labels.iter().find(|l| l.starts_with("site=")).cloned().unwrap_or_default();
            let key = if k.starts_with("P0015") { format!("world-label/{}/{}", k, site) } else { format!("world-label/{}", k) };
            ctx.fail(&key, &format!("[{}] {}", w.labels.join(","), what), json!({"mode":"world-label","labels": w.labels, "text": w.text()}));
        }
    }
    ctx.evaluations += n;
    ctx.transitions += n;
    ctx.outcome_n("planted-fault label checks", n);
    ctx.extra.insert("single_fault_worlds_with_label_check".into(), json!(n));
}

// ---------------------------------------------------------------------------
// C05(d): ranges of published LSP diagnostics for planted faults

pub const LSP_SPELLINGS: [&str; 6] = ["one-line-per-declaration", "one-lexeme-per-line", "one-lexeme-per-line-crlf", "non-ascii-comment-before-every-lexeme", "two-documents", "changed-to-one-lexeme-per-line-with-a-lower-version"];

fn lsp_docs(w: &World, spelling: usize) -> Vec<(String, String, String)> {
    use crate::lex::{spell_with, Glue};
    let sp = |d: &crate::world::Decl| -> String {
        let lx = d.lx();
        match spelling {
            1 | 5 => spell_with(&lx.v, "", "\n", &|_, g| if g == Glue::Hard { String::new() } else { "\n".to_string() }).text,
            2 => spell_with(&lx.v, "", "\r\n", &|_, g| if g == Glue::Hard { String::new() } else { "\r\n".to_string() }).text,
            3 => spell_with(&lx.v, "  ", "\n", &|_, g| if g == Glue::Hard { String::new() } else { " (* \u{e9}\u{1F600} *) ".to_string() }).text,
            _ => d.text(),
        }
    };
    if spelling == 4 {
        let (mut a, mut b) = (String::new(), String::new());
        for d in &w.decls {
            if matches!(d.name.as_str(), "Host" | "Main" | "cfg") {
                b.push_str(&d.text());
            } else {
                a.push_str(&d.text());
            }
        }
        vec![("file:///w/a.st".into(), "/w/a.st".into(), a), ("file:///w/b.st".into(), "/w/b.st".into(), b)]
    } else {
        vec![("file:///w/a.st".into(), "/w/a.st".into(), w.decls.iter().map(sp).collect::<String>())]
    }
}

/// (line, UTF-16 column) of a byte offset; lines end at LF.
fn lsp_position(text: &str, off: usize) -> (u64, u64) {
    let (mut line, mut col) = (0u64, 0u64);
    for (i, ch) in text.char_indices() {
        if i >= off {
            break;
        }
        if ch == '\n' {
            line += 1;
            col = 0;
        } else {
            col += ch.len_utf16() as u64;
        }
    }
    (line, col)
}

fn lsp_range_problems(w: &World, spelling: usize) -> Vec<(String, String)> {
    let docs = lsp_docs(w, spelling);
    lsp_range_core(&docs, if spelling == 5 { Some(w.text()) } else { None })
}

/// The published range of every diagnostic of the documents (uri, path, text) against the label's position
/// counted independently (line = line feeds before it, column = UTF-16 units since the last one).
/// `opened_before`: the first document was open before with this text and higher version numbers.
pub fn lsp_range_core(docs: &[(String, String, String)], opened_before: Option<String>) -> Vec<(String, String)> {
    use crate::lspx::{did_change, did_open, MemSrv, Server, Status};
    use ironplcc::project::{FileBackedProject, Project};
    let order: Vec<usize> = (0..docs.len()).collect();
    // expected: the labels of Project::semantic() on the same documents, converted independently
    let mut p = FileBackedProject::new();
    for (_, path, text) in docs {
        p.change_text_document(&front::fid(path), text.clone());
    }
    ironplcc::verif::set_order(Some(order.clone()));
    let r = crate::util::catch(|| p.semantic());
    ironplcc::verif::set_order(None);
    let diags = match r {
        Ok(Err(ds)) => ds,
        Ok(Ok(())) => vec![],
        Err(pn) => return vec![("semantic-panicked".into(), format!("Project::semantic panicked at {}", pn.loc))],
    };
    let mut out = vec![];
    let mut srv = MemSrv::new(Some(order));
    let mut last: Vec<Option<Value>> = vec![None; docs.len()];
    let mut steps: Vec<(usize, Value)> = docs.iter().enumerate().map(|(i, d)| (i, did_open(&d.0, 1, &d.2))).collect();
    if let Some(before) = opened_before {
        // the document was open before with another text and a higher version (version numbers are the client's)
        steps = vec![(0, did_open(&docs[0].0, 7, &before)), (0, did_change(&docs[0].0, 9, &[before.as_str()])), (0, did_open(&docs[0].0, 1, &before)), (0, did_change(&docs[0].0, 2, &[docs[0].2.as_str()]))];
    }
    if docs.len() > 1 {
        steps.push((0, did_change(&docs[0].0, 2, &[docs[0].2.as_str()])));
    }
    for (i, m) in steps {
        let obs = srv.step(&m);
        if obs.status != Status::Alive {
            out.push(("server-died".to_string(), format!("the server is {:?} after the notification for {}", obs.status, docs[i].1)));
            return out;
        }
        match obs.msgs.iter().filter(|v| v["method"] == "textDocument/publishDiagnostics" && v["params"]["uri"].as_str() == Some(docs[i].0.as_str())).last() {
            Some(v) => last[i] = Some(v.clone()),
            None => out.push(("nothing-published".to_string(), format!("no publishDiagnostics for {}", docs[i].1))),
        }
    }
    let _ = Box::new(srv).finish();
    for (i, (_, path, text)) in docs.iter().enumerate() {
        let Some(pubd) = &last[i] else { continue };
        let mut published: Vec<(String, u64, u64, u64, u64)> = pubd["params"]["diagnostics"]
            .as_array()
            .map(|a| {
                a.iter()
                    .map(|d| {
                        (
                            d["code"].as_str().unwrap_or("?").to_string(),
                            d["range"]["start"]["line"].as_u64().unwrap_or(u64::MAX),
                            d["range"]["start"]["character"].as_u64().unwrap_or(u64::MAX),
                            d["range"]["end"]["line"].as_u64().unwrap_or(u64::MAX),
                            d["range"]["end"]["character"].as_u64().unwrap_or(u64::MAX),
                        )
                    })
                    .collect()
            })
            .unwrap_or_default();
        let involved = diags.iter().filter(|d| d.file_ids().iter().any(|f| f.to_string() == *path)).count();
        if published.len() != involved {
            out.push(("number-of-published-diagnostics".to_string(), format!("{} diagnostics involve {} but {} are published", involved, path, published.len())));
        }
        for d in diags.iter().filter(|d| d.primary.file_id.to_string() == *path) {
            let (s, e) = (d.primary.location.start.min(text.len()), d.primary.location.end.min(text.len()));
            let (sl, sc) = lsp_position(text, s);
            let (el, ec) = lsp_position(text, e.max(s));
            let want = (d.code.clone(), sl, sc, el, ec);
            match published.iter().position(|x| *x == want) {
                Some(k) => {
                    published.remove(k);
                }
                None => out.push((
                    format!("{}/range", d.code),
                    format!("the label {}..{} ({:?}) of {} is line {} column {} to line {} column {}; published for {}: {:?}", s, e, crate::util::short(&text[s..e.max(s)], 20), d.code, sl, sc, el, ec, path, published),
                )),
            }
        }
    }
    out
}

/// Called by C05: the published range of every diagnostic must be the label's position in the document.
pub fn lsp_range_oracle_into(ctx: &mut Ctx) {
    let ws: Vec<World> = worlds(1).into_iter().filter(|w| w.violated.len() == 1).collect();
    let jobs: Vec<(usize, usize)> = (0..ws.len()).flat_map(|i| (0..LSP_SPELLINGS.len()).map(move |s| (i, s))).collect();
    let res: Vec<Vec<(String, String)>> = jobs.par_iter().map(|(i, s)| lsp_range_problems(&ws[*i], *s)).collect();
    let mut n = 0u64;
    for ((i, sp), probs) in jobs.iter().zip(res.iter()) {
        n += 1;
        let w = &ws[*i];
        ctx.distinct(&format!("lsp-range|{}|{}", w.labels.join(","), sp));
        for (k, what) in probs {
            ctx.fail(&format!("lsp-range/{}/{}", k, LSP_SPELLINGS[*sp]), &format!("[{}] {}", w.labels.join(","), what), json!({"mode":"lsp-range","labels": w.labels, "spelling": sp}));
        }
    }
    ctx.evaluations += n;
    ctx.transitions += 3 * n;
    ctx.outcome_n("published-range checks", n);
    ctx.extra.insert("published_range_checks".into(), json!(n));
}

pub fn replay_lsp_range(case: &Value) -> Result<String, String> {
    let labels: Vec<String> = case["labels"].as_array().ok_or("labels")?.iter().map(|x| x.as_str().unwrap_or("").to_string()).collect();
    let sp = case["spelling"].as_u64().ok_or("spelling")? as usize;
    let ws = worlds(1);
    let w = ws.iter().find(|w| w.labels == labels).ok_or("world is not in the enumerated space any more")?;
    let p = lsp_range_problems(w, sp);
    if p.is_empty() {
        Ok("every published range is the position of its label".into())
    } else {
        Err(format!("{:?}", p))
    }
}

pub fn replay_label(case: &Value) -> Result<String, String> {
    let labels: Vec<String> = case["labels"].as_array().ok_or("labels")?.iter().map(|x| x.as_str().unwrap_or("").to_string()).collect();
    let ws = worlds(1);
    let w = ws.iter().find(|w| w.labels == labels).ok_or("world is not in the enumerated space any more")?;
    let p = label_problems(w);
    if p.is_empty() {
        Ok("labels lie inside the faulty declaration on lexeme boundaries".into())
    } else {
        Err(format!("{:?}", p))
    }
}
