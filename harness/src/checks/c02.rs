//! C02 — placeholder until the slot world is built (see world.rs).
use crate::report::Ctx;
use serde_json::Value;

pub fn label_oracle_into(_ctx: &mut Ctx) {}

pub fn replay_label(_case: &Value) -> Result<String, String> {
    Err("not built".into())
}
