//! C12 — the language server answers every request exactly once and survives any message sequence.
//!
//! Explicit-state BFS over the real server on the property's event alphabet
//! (state = complete server state rendering + set of unanswered methods), plus
//! every sequence up to a length without de-duplication, each followed by
//! shutdown + exit; stdio conformance replays against the real binary.

use crate::lspx::*;
use crate::report::Ctx;
use rayon::prelude::*;
use serde_json::{json, Value};
use std::collections::{BTreeMap, BTreeSet, VecDeque};

const A: &str = "file:///w/a.st";
const B: &str = "file:///w/b.st";
const NONFILE: &str = "untitled:Untitled-1";
const V: &str = "PROGRAM p\nVAR\n  x : INT;\nEND_VAR\n  x := 1;\nEND_PROGRAM\n";
const X: &str = "PROGRAM p\n  ? \nEND_PROGRAM\n";

#[derive(Clone, Copy, PartialEq, Eq, Debug)]
enum Expect {
    /// a request for an implemented method: exactly one response (result or error)
    Answer,
    /// a request for a method the server does not implement: exactly one error response
    ErrorAnswer,
    /// a notification (or a client response): no response at all
    Silent,
}

struct Spec {
    name: &'static str,
    msg: Value,
    expect: Expect,
}

/// A short document declaring a function block, and a long one that invokes it with a formal parameter
/// it does not have: the diagnostic has its primary label far into the long document and a secondary
/// label in the short one, so it is published for both.
const CALLEE: &str = "FUNCTION_BLOCK Counter\nVAR_INPUT Reset : BOOL; END_VAR\nEND_FUNCTION_BLOCK\n";
fn caller() -> String {
    format!("(* {} *)\n(* \u{e9}\u{20ac} *) PROGRAM Main\nVAR c : Counter; END_VAR\n  c(Rst := TRUE);\nEND_PROGRAM\n", "x".repeat(300))
}

fn alphabet() -> Vec<Spec> {
    let n = |name, msg| Spec { name, msg, expect: Expect::Silent };
    let caller = caller();
    vec![
        n("didOpen(a,callee)", did_open(A, 1, CALLEE)),
        n("didOpen(b,caller-with-unknown-formal)", did_open(B, 1, &caller)),
        n("didOpen(a,caller-with-unknown-formal)", did_open(A, 1, &caller)),
        n("didOpen(b,callee)", did_open(B, 1, CALLEE)),
        n("didOpen(a,empty)", did_open(A, 1, "")),
        n("didOpen(b,no-highlighted-lexeme)", did_open(B, 1, "\n ( 1 , 2 ) ;\n")),
        n("didOpen(a,V)", did_open(A, 1, V)),
        n("didOpen(a,X)", did_open(A, 1, X)),
        n("didOpen(b,V)", did_open(B, 1, V)),
        n("didChange(a,[V])", did_change(A, 2, &[V])),
        n("didChange(a,[X])", did_change(A, 2, &[X])),
        n("didChange(a,[])", did_change(A, 2, &[])),
        n("didChange(a,[X,V])", did_change(A, 2, &[X, V])),
        Spec { name: "semanticTokens(a)", msg: tokens_req(0, A), expect: Expect::Answer },
        Spec { name: "semanticTokens(b)", msg: tokens_req(0, B), expect: Expect::Answer },
        Spec { name: "semanticTokens(unopened)", msg: tokens_req(0, "file:///w/zz.st"), expect: Expect::Answer },
        Spec { name: "semanticTokens(non-file uri)", msg: tokens_req(0, NONFILE), expect: Expect::Answer },
        Spec {
            name: "request textDocument/hover",
            msg: json!({"id":0,"method":"textDocument/hover","params":{"textDocument":{"uri":A},"position":{"line":0,"character":0}}}),
            expect: Expect::ErrorAnswer,
        },
        Spec { name: "request foo/bar", msg: json!({"id":0,"method":"foo/bar","params":{}}), expect: Expect::ErrorAnswer },
        n("notification $/cancelRequest", json!({"method":"$/cancelRequest","params":{"id":5}})),
        n("notification workspace/didChangeConfiguration", json!({"method":"workspace/didChangeConfiguration","params":{"settings":{}}})),
        n("client response (result)", json!({"id":5,"result":null})),
        n("client response (error)", json!({"id":6,"error":{"code":-32601,"message":"no"}})),
        n("didOpen(non-file uri)", did_open(NONFILE, 1, V)),
        n("didChange(non-file uri)", did_change(NONFILE, 2, &[V])),
        n("didChange(unopened b)", did_change(B, 2, &[V])),
        Spec { name: "semanticTokens with malformed params", msg: json!({"id":0,"method":"textDocument/semanticTokens/full","params":{"nope":1}}), expect: Expect::Answer },
        n("didOpen with malformed params", json!({"method":"textDocument/didOpen","params":{"nope":1}})),
        n("didChange with malformed params", json!({"method":"textDocument/didChange","params":{"textDocument":{"uri":A}}})),
        n("client response (null result)", json!({"id":7,"result":null})),
        n("client response (string id)", json!({"id":"abc","result":{"x":1}})),
        n("didClose(a)", json!({"method":"textDocument/didClose","params":{"textDocument":{"uri":A}}})),
    ]
    .into_iter()
    .chain(crate::lspx::neutral_notifications(A, B).into_iter().map(|(name, msg)| Spec { name, msg, expect: Expect::Silent }))
    .collect()
}

struct HistResult {
    /// per step: (status, rendered observation)
    steps: Vec<(Status, String)>,
    failures: Vec<(String, String)>,
    state_key: Option<String>,
    finish: String,
}

/// Runs a history on a server, checking the invariants after every event and at the end.
fn run_history(alpha: &[Spec], hist: &[usize], mut srv: Box<dyn Server>) -> HistResult {
    let mut failures: Vec<(String, String)> = vec![];
    let mut steps = vec![];
    // request id -> (event name, expectation, number of responses seen)
    let mut requests: BTreeMap<i64, (usize, u32)> = BTreeMap::new();
    let mut alive = true;
    let mut account = |msgs: &[Value], requests: &mut BTreeMap<i64, (usize, u32)>, failures: &mut Vec<(String, String)>, during: &str| {
        for m in msgs {
            if m.get("method").is_some() {
                continue; // notifications / server requests are not regulated here
            }
            let id = m["id"].as_i64();
            match id.and_then(|i| requests.get_mut(&i).map(|r| (i, r))) {
                Some((_i, r)) => {
                    r.1 += 1;
                    let spec = &alpha[r.0];
                    if r.1 > 1 {
                        failures.push((format!("answered-more-than-once/{}", spec.name), format!("request '{}' got {} responses", spec.name, r.1)));
                    }
                    if spec.expect == Expect::ErrorAnswer && m.get("error").is_none() {
                        failures.push((format!("unimplemented-method-got-result/{}", spec.name), format!("request '{}' for an unimplemented method was answered with a result: {}", spec.name, m)));
                    }
                }
                None => {
                    failures.push((format!("unsolicited-response/{}", during), format!("response {} does not answer any request sent (during '{}')", m, during)));
                }
            }
        }
    };
    for (i, &ei) in hist.iter().enumerate() {
        let spec = &alpha[ei];
        let mut msg = spec.msg.clone();
        if spec.expect != Expect::Silent {
            let id = 100 + i as i64;
            msg["id"] = json!(id);
            requests.insert(id, (ei, 0));
        }
        let obs = srv.step(&msg);
        steps.push((obs.status.clone(), render_obs(&obs)));
        account(&obs.msgs, &mut requests, &mut failures, spec.name);
        if obs.status != Status::Alive {
            failures.push((
                format!("server-{}/{}", if obs.status == Status::Dead { "died" } else { "hung" }, spec.name),
                format!("after '{}' (history {:?}) the server is {:?}", spec.name, hist.iter().map(|h| alpha[*h].name).collect::<Vec<_>>(), obs.status),
            ));
            alive = false;
            break;
        }
    }
    let mut state_key = None;
    let mut finish = "not-run".to_string();
    if alive {
        let st = srv.state();
        let (r, extra) = srv.finish_collect();
        account(&extra, &mut requests, &mut failures, "shutdown");
        match r {
            Ok(s) => finish = s,
            Err(e) => {
                finish = format!("ERR {}", e);
                failures.push(("unclean-termination-after-shutdown-exit".into(), e));
            }
        }
        let mut unanswered: BTreeSet<&str> = BTreeSet::new();
        for (_id, (ei, n)) in &requests {
            if *n == 0 {
                unanswered.insert(alpha[*ei].name);
                failures.push((format!("request-never-answered/{}", alpha[*ei].name), format!("request '{}' was not answered by the time shutdown was answered", alpha[*ei].name)));
            }
        }
        if let Some(st) = st {
            state_key = Some(format!("{}\n#unanswered={:?}", st, unanswered));
        }
    }
    HistResult { steps, failures, state_key, finish }
}

pub fn run(ctx: &mut Ctx) {
    let alpha = alphabet();
    let thorough = ctx.tier.thorough();
    let max_len = if thorough { 4 } else { 3 };
    ctx.rule = "state = (Debug rendering of every Source held by the real server, set of request kinds still unanswered); transition = one client message sent to a fresh real server that replayed the shortest history of the source state, followed by the probe barrier; every history ends with shutdown + exit; distinct = distinct (state, event) pairs and distinct histories".into();
    ctx.bounds.insert("events".into(), json!(alpha.iter().map(|s| s.name).collect::<Vec<_>>()));
    ctx.bounds.insert("sequence_length_without_dedup".into(), json!(max_len));
    ctx.assumptions.push("requests are answered by the time the next request (the probe / shutdown) is answered: the server loop is sequential".into());
    ctx.assumptions.push("messages are well-formed JSON-RPC; LSP-level malformed params are part of the alphabet".into());

    // BFS with de-duplication
    let mut seen: BTreeMap<String, Vec<usize>> = BTreeMap::new();
    let mut q: VecDeque<Vec<usize>> = VecDeque::new();
    let mut spanning: Vec<Vec<usize>> = vec![];
    q.push_back(vec![]);
    seen.insert("<initial>".into(), vec![]);
    let mut transitions = 0u64;
    let mut outcomes: BTreeMap<String, u64> = BTreeMap::new();
    let record = |ctx: &mut Ctx, alpha: &[Spec], h: &[usize], r: &HistResult, mode: &str| {
        for (k, w) in &r.failures {
            ctx.fail(k, w, json!({"mode": mode, "history": h.iter().map(|i| alpha[*i].name).collect::<Vec<_>>()}));
        }
    };
    while let Some(h) = q.pop_front() {
        let results: Vec<(usize, HistResult)> = (0..alpha.len())
            .into_par_iter()
            .map(|e| {
                let mut hist = h.clone();
                hist.push(e);
                (e, run_history(&alpha, &hist, Box::new(MemSrv::new(Some(vec![0, 1])))))
            })
            .collect();
        for (e, r) in results {
            transitions += 1;
            let mut hist = h.clone();
            hist.push(e);
            ctx.distinct(&format!("bfs|{:?}", hist));
            if let Some((_, o)) = r.steps.last() {
                *outcomes.entry(format!("{} => {}", alpha[e].name, o.replace(|c: char| c.is_ascii_digit(), "#"))).or_insert(0) += 1;
            }
            record(ctx, &alpha, &hist, &r, "memory");
            if let Some(k) = r.state_key {
                if !seen.contains_key(&k) {
                    seen.insert(k, hist.clone());
                    spanning.push(hist.clone());
                    q.push_back(hist);
                }
            }
        }
    }
    ctx.states = seen.len() as u64;
    ctx.transitions = transitions;

    // all sequences up to max_len without de-duplication
    let mut count = 0u64;
    let mut level: Vec<Vec<usize>> = vec![vec![]];
    for len in 1..=max_len {
        if ctx.over_budget(&format!("sequences of length {}", len)) {
            break;
        }
        let mut next = vec![];
        // lengths up to 3: the whole alphabet; length 4 (thorough): the first 30 events (documents, requests,
        // responses, malformed messages) — 49^4 sequences would not finish
        let width = if len >= 4 { alpha.len().min(30) } else { alpha.len() };
        for h in &level {
            if len >= 4 && h.iter().any(|e| *e >= width) {
                continue;
            }
            for e in 0..width {
                let mut n = h.clone();
                n.push(e);
                next.push(n);
            }
        }
        let rs: Vec<(Vec<usize>, HistResult)> = next
            .par_iter()
            .map(|h| (h.clone(), run_history(&alpha, h, Box::new(MemSrv::new(Some(vec![0, 1]))))))
            .collect();
        for (h, r) in rs {
            count += 1;
            ctx.distinct(&format!("seq|{:?}", h));
            record(ctx, &alpha, &h, &r, "memory");
        }
        ctx.bounds.insert("sequence_length_completed".into(), json!(len));
        level = next;
    }
    // long periodic sequences: every event and every ordered pair of events repeated up to length 60
    // (counters, caches and tables that only misbehave after many messages)
    let mut periodic: Vec<Vec<usize>> = vec![];
    for a in 0..alpha.len() {
        periodic.push(vec![a; 60]);
        for b in 0..alpha.len() {
            if a != b {
                periodic.push((0..60).map(|i| if i % 2 == 0 { a } else { b }).collect());
            }
        }
    }
    let rs: Vec<(Vec<usize>, HistResult)> = periodic.par_iter().map(|h| (h.clone(), run_history(&alpha, h, Box::new(MemSrv::new(Some(vec![0, 1])))))).collect();
    for (h, r) in rs {
        count += 1;
        ctx.distinct(&format!("periodic|{}|{}", h[0], h[1]));
        record(ctx, &alpha, &h, &r, "memory");
    }
    // document sweep: every world of C02 with at most one deviation (valid ones and every planted fault) as the text
    // of a document: open, token request, change to the same text, shutdown — whatever a document says, the
    // server lives and answers
    {
        let ws = crate::checks::c02::worlds(1);
        let res: Vec<Option<String>> = ws
            .par_iter()
            .map(|w| {
                let text = w.text();
                let alpha2 = vec![
                    Spec { name: "didOpen(a,world)", msg: did_open(A, 1, &text), expect: Expect::Silent },
                    Spec { name: "semanticTokens(a)", msg: tokens_req(0, A), expect: Expect::Answer },
                    Spec { name: "didChange(a,[world])", msg: did_change(A, 2, &[text.as_str()]), expect: Expect::Silent },
                ];
                let r = run_history(&alpha2, &[0, 1, 2, 1], Box::new(MemSrv::new(Some(vec![0, 1]))));
                r.failures.first().map(|(k, wh)| format!("{} :: {}", k, wh))
            })
            .collect();
        for (w, r) in ws.iter().zip(res.iter()) {
            count += 1;
            ctx.distinct(&format!("world|{}", w.labels.join(",")));
            if let Some(m) = r {
                let key = m.split(" :: ").next().unwrap_or("failure").split('/').next().unwrap_or("failure").to_string();
                ctx.fail(&format!("document-sweep/{}", key), &format!("[{}] {}", w.labels.join(","), m), json!({"mode":"document","text": w.text()}));
            }
        }
        ctx.bounds.insert("document_sweep".into(), json!(format!("{} documents (every C02 world with at most one deviation)", ws.len())));
    }
    // documents with a character that text handling likes to treat specially (byte-order mark, other line ends,
    // invisible, replacement, control and supplementary-plane characters, characters whose case mapping changes their
    // length) as the first character, twice, as the last one, alone, after the first word and inside a comment, of a
    // valid and of a faulty text: the same history
    {
        let specials = [
            "\u{FEFF}", "\u{A0}", "\u{85}", "\u{2028}", "\u{2029}", "\u{200B}", "\u{FFFD}", "\u{B}", "\u{C}", "\u{1A}", "\u{7F}", "\u{1}", "\u{0}", "\u{1F600}", "\u{10400}", "\u{fb01}", "\u{131}", "\u{130}",
            "\u{e9}", "\u{20ac}", "\r", "\t",
        ];
        let mut docs: Vec<(String, String)> = vec![];
        for sp in specials {
            let code = format!("U+{:04X}", sp.chars().next().unwrap() as u32);
            for (bname, base) in [("valid", V), ("faulty", X)] {
                docs.push((format!("{}/first/{}", code, bname), format!("{}{}", sp, base)));
                docs.push((format!("{}/first-twice/{}", code, bname), format!("{}{}{}", sp, sp, base)));
                docs.push((format!("{}/last/{}", code, bname), format!("{}{}", base, sp)));
                docs.push((format!("{}/after-the-first-word/{}", code, bname), base.replacen(' ', &format!("{} ", sp), 1)));
                docs.push((format!("{}/in-a-comment-first/{}", code, bname), format!("(*{}*){}", sp, base)));
                docs.push((format!("{}/in-a-comment-before-a-lexeme/{}", code, bname), base.replacen(' ', &format!(" (* {} *) ", sp), 2)));
            }
            docs.push((format!("{}/alone", code), sp.to_string()));
            docs.push((format!("{}/alone-thrice", code), sp.repeat(3)));
        }
        let res: Vec<Option<String>> = docs
            .par_iter()
            .map(|(_, text)| {
                let alpha2 = vec![
                    Spec { name: "didOpen(a,document)", msg: did_open(A, 1, text), expect: Expect::Silent },
                    Spec { name: "semanticTokens(a)", msg: tokens_req(0, A), expect: Expect::Answer },
                    Spec { name: "didChange(a,[document])", msg: did_change(A, 2, &[text.as_str()]), expect: Expect::Silent },
                    Spec { name: "didOpen(b,V)", msg: did_open(B, 1, V), expect: Expect::Silent },
                    Spec { name: "semanticTokens(b)", msg: tokens_req(0, B), expect: Expect::Answer },
                ];
                let r = run_history(&alpha2, &[0, 1, 2, 1, 3, 4, 1], Box::new(MemSrv::new(Some(vec![0, 1]))));
                r.failures.first().map(|(k, wh)| format!("{} :: {}", k, wh))
            })
            .collect();
        for ((name, text), r) in docs.iter().zip(res.iter()) {
            count += 1;
            ctx.distinct(&format!("special|{}", name));
            if let Some(m) = r {
                let key = m.split(" :: ").next().unwrap_or("failure").split('/').next().unwrap_or("failure").to_string();
                let place = name.split('/').nth(1).unwrap_or("");
                ctx.fail(&format!("special-character-document/{}/{}", key, place), &format!("[{}] {}", name, m), json!({"mode":"document","text": text}));
            }
        }
        ctx.bounds.insert("special_character_documents".into(), json!(docs.len()));
    }
    // a client that runs ahead: every ordered pair of events, and every pair followed by each request, sent before
    // anything is read (the server finds them queued): every request is still answered exactly once and the server lives
    {
        let reqs: Vec<usize> = (0..alpha.len()).filter(|i| alpha[*i].expect != Expect::Silent).collect();
        let mut bursts: Vec<Vec<usize>> = vec![];
        for a in 0..alpha.len() {
            for b in 0..alpha.len() {
                bursts.push(vec![a, b]);
                for &r in &reqs[..2.min(reqs.len())] {
                    bursts.push(vec![a, b, r]);
                }
            }
        }
        let res: Vec<Vec<(String, String)>> = bursts
            .par_iter()
            .map(|h| {
                let mut failures = vec![];
                let mut srv = MemSrv::new(Some(vec![0, 1]));
                let mut ids: BTreeMap<i64, (usize, u32)> = BTreeMap::new();
                let msgs: Vec<Value> = h
                    .iter()
                    .enumerate()
                    .map(|(i, &ei)| {
                        let mut m = alpha[ei].msg.clone();
                        if alpha[ei].expect != Expect::Silent {
                            m["id"] = json!(100 + i as i64);
                            ids.insert(100 + i as i64, (ei, 0));
                        }
                        m
                    })
                    .collect();
                let o = srv.burst(&msgs);
                let names: Vec<&str> = h.iter().map(|e| alpha[*e].name).collect();
                if o.status != Status::Alive {
                    failures.push((format!("sent-ahead/server-{}", if o.status == Status::Dead { "died" } else { "hung" }), format!("after {:?} sent without waiting the server is {:?}", names, o.status)));
                    return failures;
                }
                let (r, extra) = Box::new(srv).finish_collect();
                for m in o.msgs.iter().chain(extra.iter()) {
                    if m.get("method").is_some() {
                        continue;
                    }
                    match m["id"].as_i64().and_then(|i| ids.get_mut(&i)) {
                        Some(x) => x.1 += 1,
                        None => failures.push(("sent-ahead/unsolicited-response".to_string(), format!("{:?}: response {} answers no request", names, m))),
                    }
                }
                for (_, (ei, n)) in &ids {
                    if *n != 1 {
                        failures.push((format!("sent-ahead/request-answered-{}-times/{}", n, alpha[*ei].name), format!("{:?} sent without waiting: request '{}' got {} responses", names, alpha[*ei].name, n)));
                    }
                }
                if let Err(e) = r {
                    failures.push(("sent-ahead/unclean-termination".to_string(), format!("{:?}: {}", names, e)));
                }
                failures
            })
            .collect();
        for (h, fs) in bursts.iter().zip(res.iter()) {
            count += 1;
            ctx.distinct(&format!("burst|{:?}", h));
            for (k, w) in fs {
                ctx.fail(k, w, json!({"mode":"burst","history": h.iter().map(|e| alpha[*e].name).collect::<Vec<_>>()}));
            }
        }
        ctx.bounds.insert("sent_ahead".into(), json!(format!("{} bursts (every ordered pair of {} events, alone and followed by a token request)", bursts.len(), alpha.len())));
    }
    // a client that closes at once: every event, and every ordered pair of events, directly followed by the shutdown
    // request and the exit notification, everything sent before anything is read (an editor that is closed right after
    // a keystroke): every request is answered once, the shutdown request too, and the server ends cleanly
    {
        let mut hs: Vec<Vec<usize>> = (0..alpha.len()).map(|a| vec![a]).collect();
        for a in 0..alpha.len() {
            for b in 0..alpha.len() {
                hs.push(vec![a, b]);
            }
        }
        let res: Vec<Vec<(String, String)>> = hs
            .par_iter()
            .map(|h| {
                let mut failures = vec![];
                let srv = MemSrv::new(Some(vec![0, 1]));
                let mut ids: BTreeMap<i64, (usize, u32)> = BTreeMap::new();
                let msgs: Vec<Value> = h
                    .iter()
                    .enumerate()
                    .map(|(i, &ei)| {
                        let mut m = alpha[ei].msg.clone();
                        if alpha[ei].expect != Expect::Silent {
                            m["id"] = json!(100 + i as i64);
                            ids.insert(100 + i as i64, (ei, 0));
                        }
                        m
                    })
                    .collect();
                let names: Vec<&str> = h.iter().map(|e| alpha[*e].name).collect();
                let last = *names.last().unwrap();
                let (r, out) = srv.close_after(&msgs);
                for m in out.iter().filter(|m| m.get("method").is_none()) {
                    match m["id"].as_i64().and_then(|i| ids.get_mut(&i)) {
                        Some(x) => x.1 += 1,
                        None => failures.push(("closed-at-once/unsolicited-response".to_string(), format!("{:?} then shutdown and exit: response {} answers no request", names, m))),
                    }
                }
                for (_, (ei, n)) in &ids {
                    if *n != 1 {
                        failures.push((format!("closed-at-once/request-answered-{}-times/{}", n, alpha[*ei].name), format!("{:?} then shutdown and exit, sent without waiting: request '{}' got {} responses", names, alpha[*ei].name, n)));
                    }
                }
                if let Err(e) = r {
                    failures.push((format!("closed-at-once/unclean-termination/after-{}", last.split('(').next().unwrap_or(last)), format!("{:?} then shutdown and exit, sent without waiting: {}", names, e)));
                }
                failures
            })
            .collect();
        for (h, fs) in hs.iter().zip(res.iter()) {
            count += 1;
            ctx.distinct(&format!("closed-at-once|{:?}", h));
            for (k, w) in fs {
                ctx.fail(k, w, json!({"mode":"closed-at-once","history": h.iter().map(|e| alpha[*e].name).collect::<Vec<_>>()}));
            }
        }
        ctx.bounds.insert("closed_at_once".into(), json!(format!("{} histories (every event and every ordered pair of {} events) followed at once by shutdown and exit", hs.len(), alpha.len())));
    }
    // the closing handshake in every shape JSON-RPC allows: the shutdown request with its params absent, null, an empty
    // object, an empty array or some other value, and the same for the exit notification, after four kinds of session
    {
        let shapes: Vec<(&str, Option<Value>)> = vec![("absent", None), ("null", Some(Value::Null)), ("empty-object", Some(json!({}))), ("empty-array", Some(json!([]))), ("object", Some(json!({"x":1}))), ("string", Some(json!("x"))), ("number", Some(json!(0)))];
        let sessions: Vec<(&str, Vec<usize>)> = vec![
            ("nothing-before", vec![]),
            ("after-a-valid-document", vec![alpha.iter().position(|s| s.name == "didOpen(a,V)").unwrap()]),
            ("after-a-faulty-document-and-a-request", vec![alpha.iter().position(|s| s.name == "didOpen(a,X)").unwrap(), alpha.iter().position(|s| s.name == "semanticTokens(a)").unwrap()]),
            ("after-an-unimplemented-request", vec![alpha.iter().position(|s| s.name == "request foo/bar").unwrap()]),
        ];
        let mut jobs = vec![];
        for (si, _) in sessions.iter().enumerate() {
            for (a, _) in shapes.iter().enumerate() {
                for (b, _) in shapes.iter().enumerate() {
                    jobs.push((si, a, b));
                }
            }
        }
        let res: Vec<Vec<(String, String)>> = jobs
            .par_iter()
            .map(|(si, a, b)| {
                let mut srv = MemSrv::new(Some(vec![0, 1]));
                let mut sd = json!({"id":2,"method":"shutdown"});
                if let Some(p) = &shapes[*a].1 {
                    sd["params"] = p.clone();
                }
                let mut ex = json!({"method":"exit"});
                if let Some(p) = &shapes[*b].1 {
                    ex["params"] = p.clone();
                }
                srv.closing = (sd, ex);
                run_history(&alpha, &sessions[*si].1, Box::new(srv)).failures
            })
            .collect();
        for ((si, a, b), fs) in jobs.iter().zip(res.iter()) {
            count += 1;
            ctx.distinct(&format!("closing|{}|{}|{}", si, a, b));
            for (k, w) in fs {
                ctx.fail(&format!("closing-handshake/{}/shutdown-params-{}/exit-params-{}", k, shapes[*a].0, shapes[*b].0), &format!("session {}: {}", sessions[*si].0, w), json!({"mode":"closing","session": sessions[*si].0, "shutdown": shapes[*a].0, "exit": shapes[*b].0}));
            }
        }
        ctx.bounds.insert("closing_handshakes".into(), json!(format!("{} sessions x {} shapes of the shutdown params x {} shapes of the exit params", sessions.len(), shapes.len(), shapes.len())));
    }
    // the method name is client-chosen data: every method name of the protocol (and names in each of its
    // name spaces that no protocol version defines), sent as a request (with a number or a string as id)
    // and as a notification, with its params absent, empty or null, before and after a document is opened.
    // A request gets exactly one response carrying its id (an error when the server does not implement
    // the method); a notification gets none; the server lives and the session ends cleanly.
    {
        let methods: Vec<&str> = vec![
            "textDocument/willSaveWaitUntil", "textDocument/declaration", "textDocument/definition", "textDocument/typeDefinition",
            "textDocument/implementation", "textDocument/references", "textDocument/prepareCallHierarchy", "callHierarchy/incomingCalls",
            "callHierarchy/outgoingCalls", "textDocument/prepareTypeHierarchy", "typeHierarchy/supertypes", "typeHierarchy/subtypes",
            "textDocument/documentHighlight", "textDocument/documentLink", "documentLink/resolve", "textDocument/hover", "textDocument/codeLens",
            "codeLens/resolve", "workspace/codeLens/refresh", "textDocument/foldingRange", "textDocument/selectionRange",
            "textDocument/documentSymbol", "textDocument/semanticTokens/full/delta", "textDocument/semanticTokens/range",
            "workspace/semanticTokens/refresh", "textDocument/inlineValue", "workspace/inlineValue/refresh", "textDocument/inlayHint",
            "inlayHint/resolve", "workspace/inlayHint/refresh", "textDocument/moniker", "textDocument/completion", "completionItem/resolve",
            "textDocument/publishDiagnostics", "textDocument/diagnostic", "workspace/diagnostic", "workspace/diagnostic/refresh",
            "textDocument/signatureHelp", "textDocument/codeAction", "codeAction/resolve", "textDocument/documentColor",
            "textDocument/colorPresentation", "textDocument/formatting", "textDocument/rangeFormatting", "textDocument/onTypeFormatting",
            "textDocument/rename", "textDocument/prepareRename", "textDocument/linkedEditingRange", "workspace/symbol",
            "workspaceSymbol/resolve", "workspace/configuration", "workspace/workspaceFolders", "workspace/willCreateFiles",
            "workspace/willRenameFiles", "workspace/willDeleteFiles", "workspace/executeCommand", "workspace/applyEdit",
            "window/showMessageRequest", "window/showDocument", "window/workDoneProgress/create", "client/registerCapability",
            "client/unregisterCapability", "textDocument/didClose", "textDocument/didSave", "textDocument/willSave",
            "workspace/didChangeConfiguration", "workspace/didChangeWatchedFiles", "workspace/didChangeWorkspaceFolders",
            "workspace/didCreateFiles", "workspace/didRenameFiles", "workspace/didDeleteFiles", "window/showMessage", "window/logMessage",
            "telemetry/event", "notebookDocument/didOpen", "notebookDocument/didChange", "notebookDocument/didSave",
            "notebookDocument/didClose", "$/cancelRequest", "$/progress", "$/setTrace", "$/logTrace", "$/unknown", "$/ironplc/status", "$",
            "$/", "initialized", "textDocument/unknown", "workspace/unknown", "window/unknown", "unknown", "foo/bar", "ironplc/status",
            "textDocument/semanticTokens", "textDocument/semanticTokens/full/", "TEXTDOCUMENT/SEMANTICTOKENS/FULL", "textDocument/didopen",
            "", " ", "/", "rpc.discover", "\u{e9}\u{20ac}", "a/very/long/method/name/that/no/version/of/the/protocol/defines/and/that/goes/on/for/a/while",
        ];
        let params: Vec<(&str, Option<Value>)> = vec![("absent", None), ("empty-object", Some(json!({}))), ("null", Some(Value::Null)), ("text-document", Some(json!({"textDocument":{"uri":A},"position":{"line":0,"character":0}})))];
        let ids: Vec<(&str, Option<Value>)> = vec![("notification", None), ("number-id", Some(json!(77))), ("string-id", Some(json!("seventy-seven"))), ("zero-id", Some(json!(0))), ("negative-id", Some(json!(-5)))];
        let mut jobs = vec![];
        for opened in [false, true] {
            for (mi, _) in methods.iter().enumerate() {
                for (pi, _) in params.iter().enumerate() {
                    for (ii, _) in ids.iter().enumerate() {
                        jobs.push((opened, mi, pi, ii));
                    }
                }
            }
        }
        let res: Vec<Vec<(String, String)>> = jobs
            .par_iter()
            .map(|(opened, mi, pi, ii)| method_case(*opened, methods[*mi], params[*pi].0, &params[*pi].1, ids[*ii].0, &ids[*ii].1))
            .collect();
        for ((opened, mi, pi, ii), fs) in jobs.iter().zip(res.iter()) {
            count += 1;
            ctx.distinct(&format!("method|{}|{}|{}|{}", opened, mi, pi, ii));
            for (k, w) in fs {
                ctx.fail(k, w, {
                    let mut c = json!({"mode":"method-sweep","opened":opened,"method":methods[*mi],"params":params[*pi].0,"id":ids[*ii].0});
                    if let Some(p) = &params[*pi].1 {
                        c["params_value"] = p.clone();
                    }
                    if let Some(i) = &ids[*ii].1 {
                        c["id_value"] = i.clone();
                    }
                    c
                });
            }
        }
        ctx.bounds.insert("method_sweep".into(), json!(format!("{} method names x {} params shapes x {} ways of sending (notification, request with 4 id shapes) x 2 sessions", methods.len(), params.len(), ids.len())));
    }
    // a client with a workspace: the real binary initialised with a folder on disk (every content menu member x every
    // way of naming it) and then used: whatever the folder holds, the server lives and answers every request once
    {
        let scratch = crate::util::Scratch::new("c12ws");
        let contents: Vec<(&str, Vec<(&str, Vec<u8>)>)> = vec![
            ("empty", vec![]),
            ("one-valid-file", vec![("callee.st", CALLEE.as_bytes().to_vec())]),
            ("one-faulty-file", vec![("bad.st", X.as_bytes().to_vec())]),
            ("valid-and-faulty", vec![("callee.st", CALLEE.as_bytes().to_vec()), ("bad.st", X.as_bytes().to_vec())]),
            ("caller-and-callee", vec![("callee.st", CALLEE.as_bytes().to_vec()), ("main.st", caller().into_bytes())]),
            ("bytes-that-are-no-utf8", vec![("bytes.st", vec![0xff, 0xfe, 0x00, 0xd8, 0x41, 0x80, 0x81])]),
            ("empty-file", vec![("empty.st", vec![])]),
            ("other-extensions", vec![("UPPER.ST", V.as_bytes().to_vec()), ("x.iec", CALLEE.as_bytes().to_vec()), ("notes.txt", b"not a program ?".to_vec())]),
            ("sub-directory-named-like-a-source", vec![("sub.st/", vec![]), ("callee.st", CALLEE.as_bytes().to_vec())]),
            ("duplicate-declarations", vec![("one.st", V.as_bytes().to_vec()), ("two.st", V.as_bytes().to_vec())]),
            ("many-files", (0..300).map(|_| ("", vec![])).collect()),
        ];
        let mut jobs = vec![];
        for (ci, (cname, _)) in contents.iter().enumerate() {
            for shape in ["workspaceFolders", "rootUri-only", "workspaceFolders+rootUri", "two-folders", "missing-folder", "folder-uri-that-is-no-file", "workspaceFolders-null", "empty-workspaceFolders"] {
                for verbose in [false, true] {
                    jobs.push((ci, *cname, shape, verbose));
                }
            }
        }
        let res: Vec<Option<(String, String)>> = jobs
            .par_iter()
            .enumerate()
            .map(|(n, (ci, cname, shape, verbose))| {
                let dir = scratch.sub(&format!("w{}", n));
                let other = scratch.sub(&format!("o{}", n));
                if *cname == "many-files" {
                    for k in 0..300 {
                        std::fs::write(dir.join(format!("f{:03}.st", k)), format!("FUNCTION_BLOCK Fb{} VAR n : INT ; END_VAR n := {} ; END_FUNCTION_BLOCK\n", k, k)).unwrap();
                    }
                } else {
                    for (name, bytes) in &contents[*ci].1 {
                        if let Some(d) = name.strip_suffix('/') {
                            std::fs::create_dir_all(dir.join(d)).unwrap();
                        } else {
                            std::fs::write(dir.join(name), bytes).unwrap();
                        }
                    }
                }
                let uri = |p: &std::path::Path| format!("file://{}", p.to_string_lossy());
                let folder = |p: &std::path::Path| json!({"uri": uri(p), "name": "w"});
                let params = match *shape {
                    "workspaceFolders" => json!({"capabilities":{}, "workspaceFolders":[folder(&dir)]}),
                    "rootUri-only" => json!({"capabilities":{}, "rootUri": uri(&dir)}),
                    "workspaceFolders+rootUri" => json!({"processId": 4711, "clientInfo": {"name":"c"}, "capabilities":{"textDocument":{"semanticTokens":{"requests":{"full":true},"tokenTypes":[],"tokenModifiers":[],"formats":["relative"]}}}, "rootUri": uri(&dir), "workspaceFolders":[folder(&dir)]}),
                    "two-folders" => json!({"capabilities":{}, "workspaceFolders":[folder(&dir), folder(&other)]}),
                    "missing-folder" => json!({"capabilities":{}, "workspaceFolders":[folder(&dir.join("does-not-exist"))]}),
                    "folder-uri-that-is-no-file" => json!({"capabilities":{}, "workspaceFolders":[{"uri":"untitled:w","name":"w"}]}),
                    "workspaceFolders-null" => json!({"capabilities":{}, "workspaceFolders": null}),
                    _ => json!({"capabilities":{}, "workspaceFolders": []}),
                };
                let flags: &[&str] = if *verbose { &["-vvvv"] } else { &[] };
                let mut srv = match StdioSrv::with_init(flags, &params) {
                    Ok(s) => s,
                    Err(e) => return Some(("workspace/no-initialize-response".to_string(), e)),
                };
                let in_dir = |f: &str| uri(&dir.join(f));
                let hist: Vec<(&str, Value, bool)> = vec![
                    ("didOpen(main.st in the folder)", did_open(&in_dir("main.st"), 1, &caller()), false),
                    ("semanticTokens(main.st)", tokens_req(101, &in_dir("main.st")), true),
                    ("semanticTokens(callee.st, on disk only)", tokens_req(102, &in_dir("callee.st")), true),
                    ("didChange(callee.st)", did_change(&in_dir("callee.st"), 2, &[X]), false),
                    ("semanticTokens(callee.st)", tokens_req(103, &in_dir("callee.st")), true),
                    ("didChangeWorkspaceFolders", json!({"method":"workspace/didChangeWorkspaceFolders","params":{"event":{"added":[folder(&other)],"removed":[folder(&dir)]}}}), false),
                    ("didOpen(a.st outside)", did_open(A, 1, V), false),
                    ("semanticTokens(a.st)", tokens_req(104, A), true),
                ];
                let mut answered: BTreeMap<i64, u32> = BTreeMap::new();
                for (name, msg, is_req) in &hist {
                    if *is_req {
                        answered.insert(msg["id"].as_i64().unwrap(), 0);
                    }
                    let o = srv.step(msg);
                    for m in &o.msgs {
                        if m.get("method").is_none() {
                            if let Some(c) = m["id"].as_i64().and_then(|i| answered.get_mut(&i)) {
                                *c += 1;
                            }
                        }
                    }
                    if o.status != Status::Alive {
                        return Some((format!("workspace/server-{}", if o.status == Status::Dead { "died" } else { "hung" }), format!("folder {}, initialize {}{}: after '{}' the server is {:?}", cname, shape, if *verbose { ", -vvvv" } else { "" }, name, o.status)));
                    }
                }
                let (r, extra) = Box::new(srv).finish_collect();
                for m in &extra {
                    if m.get("method").is_none() {
                        if let Some(c) = m["id"].as_i64().and_then(|i| answered.get_mut(&i)) {
                            *c += 1;
                        }
                    }
                }
                if let Some((id, c)) = answered.iter().find(|(_, c)| **c != 1) {
                    return Some(("workspace/request-not-answered-once".to_string(), format!("folder {}, initialize {}: request {} got {} responses", cname, shape, id, c)));
                }
                if let Err(e) = r {
                    return Some(("workspace/unclean-termination".to_string(), format!("folder {}, initialize {}: {}", cname, shape, e)));
                }
                None
            })
            .collect();
        for ((_, cname, shape, verbose), r) in jobs.iter().zip(res.iter()) {
            count += 1;
            ctx.traces += 1;
            ctx.distinct(&format!("workspace|{}|{}|{}", cname, shape, verbose));
            if let Some((k, w)) = r {
                ctx.fail(&format!("{}/{}", k, shape), w, json!({"mode":"workspace","folder":cname,"initialize":shape,"verbose":verbose}));
            }
        }
        ctx.bounds.insert("workspaces".into(), json!(format!("{} folder contents x 8 initialize shapes x {{quiet, -vvvv}} on the real binary, 8 messages each", contents.len())));
    }
    ctx.bounds.insert("periodic_sequences".into(), json!(format!("{} sequences of length 60 (period 1 and 2)", periodic.len())));
    ctx.evaluations = transitions + count;
    ctx.extra.insert("sequences_without_dedup".into(), json!(count));

    // stdio conformance: every single event and every spanning-tree history against the real binary
    let mut replay_hists: Vec<Vec<usize>> = (0..alpha.len()).map(|e| vec![e]).collect();
    for h in &spanning {
        if h.len() > 1 {
            replay_hists.push(h.clone());
        }
    }
    {
        for a in 0..alpha.len() {
            for b in 0..alpha.len() {
                replay_hists.push(vec![a, b]);
            }
        }
    }
    let conf: Vec<(Vec<usize>, Option<String>, Vec<(String, String)>)> = replay_hists
        .par_iter()
        .map(|h| {
            let mem = run_history(&alpha, h, Box::new(MemSrv::new(Some(vec![0, 1]))));
            // the single events run with full logging (the pairs cover them without): logging is no part of the protocol
            match StdioSrv::with_flags(if h.len() == 1 { &["-vvvv"] } else { &[] }) {
                Err(e) => (h.clone(), Some(format!("machinery: {}", e)), vec![]),
                Ok(b) => {
                    let bin = run_history(&alpha, h, Box::new(b));
                    // C12 is about liveness and request/response pairing: the diagnostic contents (which may
                    // legitimately depend on the binary's hash-ordered file iteration) are not compared here
                    let strip = |v: &Vec<(Status, String)>| -> Vec<(Status, String)> {
                        v.iter()
                            .map(|(st, r)| {
                                let mut out = String::new();
                                let mut rest = r.as_str();
                                while let Some(i) = rest.find("diags={") {
                                    out.push_str(&rest[..i]);
                                    let after = &rest[i..];
                                    // skip to the matching closing brace of the set rendering
                                    let mut depth = 0;
                                    let mut end = after.len();
                                    for (k, c) in after.char_indices() {
                                        if c == '{' {
                                            depth += 1;
                                        } else if c == '}' {
                                            depth -= 1;
                                            if depth == 0 {
                                                end = k + 1;
                                                break;
                                            }
                                        }
                                    }
                                    out.push_str("diags=…");
                                    rest = &after[end..];
                                }
                                out.push_str(rest);
                                (st.clone(), out)
                            })
                            .collect()
                    };
                    let same = strip(&mem.steps) == strip(&bin.steps) && (mem.finish.starts_with("ERR") == bin.finish.starts_with("ERR")) && (mem.finish == "not-run") == (bin.finish == "not-run");
                    let diff = if same {
                        None
                    } else {
                        Some(format!("in-process: {:?} finish={}; binary: {:?} finish={}", mem.steps, mem.finish, bin.steps, bin.finish))
                    };
                    (h.clone(), diff, bin.failures)
                }
            }
        })
        .collect();
    let mut replays = 0u64;
    for (h, diff, binfails) in conf {
        replays += 1;
        let names: Vec<&str> = h.iter().map(|i| alpha[*i].name).collect();
        if let Some(d) = diff {
            ctx.fail(&format!("binary-differs-from-in-process/{}", names.last().unwrap_or(&"")), &d, json!({"mode":"stdio","history": names}));
        }
        for (k, w) in binfails {
            ctx.fail(&k, &format!("[binary] {}", w), json!({"mode":"stdio","history": names}));
        }
    }
    ctx.traces = replays;
    ctx.extra.insert("stdio_replays".into(), json!(replays));
    ctx.extra.insert("distinct_observations".into(), json!(outcomes.len()));
    for (o, n) in outcomes.iter() {
        ctx.outcome_n(o, *n);
    }
    for h in spanning.iter().take(5) {
        ctx.sample(json!({"history": h.iter().map(|i| alpha[*i].name).collect::<Vec<_>>(), "then": ["shutdown", "exit"]}));
    }
}

/// One case of the method sweep: a fresh server, optionally a document, the message, the next request, the closing handshake.
fn method_case(opened: bool, method: &str, params_name: &str, params: &Option<Value>, id_name: &str, id: &Option<Value>) -> Vec<(String, String)> {
    let mut failures = vec![];
    let mut srv = MemSrv::new(Some(vec![0, 1]));
    if opened {
        let o = srv.step(&did_open(A, 1, V));
        if o.status != Status::Alive {
            return vec![("method-sweep/server-died/didOpen".to_string(), "the server died opening the valid document".to_string())];
        }
    }
    let what = format!("method {:?} as {} with params {}", method, id_name, params_name);
    let mut msg = json!({"method": method});
    if let Some(p) = params {
        msg["params"] = p.clone();
    }
    if let Some(id) = id {
        msg["id"] = id.clone();
    }
    let o = srv.step(&msg);
    if o.status != Status::Alive {
        failures.push((format!("method-sweep/server-{}/{}", if o.status == Status::Dead { "died" } else { "hung" }, id_name), format!("{}: the server is {:?}", what, o.status)));
        return failures;
    }
    let responses: Vec<&Value> = o.msgs.iter().filter(|m| m.get("method").is_none()).collect();
    match id {
        None => {
            if !responses.is_empty() {
                failures.push(("method-sweep/notification-answered".to_string(), format!("{}: {} response(s), first {}", what, responses.len(), responses[0])));
            }
        }
        Some(id) => {
            let mine = responses.iter().filter(|m| &m["id"] == id).count();
            if mine != 1 {
                failures.push((format!("method-sweep/request-answered-{}-times/{}", mine, id_name), format!("{}: {} response(s) carry its id; all responses: {:?}", what, mine, responses)));
            }
            if responses.len() != mine {
                failures.push(("method-sweep/unsolicited-response".to_string(), format!("{}: responses {:?}", what, responses)));
            }
            if let Some(r) = responses.iter().find(|m| &m["id"] == id) {
                if r.get("error").is_none() && r.get("result").is_none() {
                    failures.push(("method-sweep/response-without-result-or-error".to_string(), format!("{}: {}", what, r)));
                }
            }
        }
    }
    // the session goes on: a token request is answered, the closing handshake works
    let o2 = srv.step(&tokens_req(4242, A));
    let answered = o2.msgs.iter().filter(|m| m.get("method").is_none() && m["id"] == json!(4242)).count();
    if o2.status != Status::Alive || answered != 1 {
        failures.push(("method-sweep/next-request-not-answered-once".to_string(), format!("after {}: status {:?}, {} answers to the next request", what, o2.status, answered)));
        return failures;
    }
    if let Err(e) = Box::new(srv).finish() {
        failures.push(("method-sweep/unclean-termination".to_string(), format!("after {}: {}", what, e)));
    }
    failures
}

pub fn replay(case: &Value) -> Result<String, String> {
    if case["mode"] == json!("method-sweep") {
        let params = case.get("params_value").cloned();
        let id = case.get("id_value").cloned();
        let fs = method_case(case["opened"].as_bool().unwrap_or(false), case["method"].as_str().ok_or("method")?, case["params"].as_str().unwrap_or(""), &params, case["id"].as_str().unwrap_or(""), &id);
        return match fs.first() {
            None => Ok("answered as the protocol demands, the session goes on and ends cleanly".into()),
            Some((k, w)) => Err(format!("{} :: {}", k, w)),
        };
    }
    if case["mode"] == json!("document") {
        let text = case["text"].as_str().ok_or("text")?.to_string();
        let alpha2 = vec![
            Spec { name: "didOpen(a,world)", msg: did_open(A, 1, &text), expect: Expect::Silent },
            Spec { name: "semanticTokens(a)", msg: tokens_req(0, A), expect: Expect::Answer },
            Spec { name: "didChange(a,[world])", msg: did_change(A, 2, &[text.as_str()]), expect: Expect::Silent },
        ];
        let r = run_history(&alpha2, &[0, 1, 2, 1], Box::new(MemSrv::new(Some(vec![0, 1]))));
        return match r.failures.first() {
            None => Ok("the server lives and answers".into()),
            Some((k, w)) => Err(format!("{} :: {}", k, w)),
        };
    }
    let alpha = alphabet();
    let hist: Vec<usize> = case["history"]
        .as_array()
        .ok_or("history")?
        .iter()
        .map(|n| alpha.iter().position(|s| Some(s.name) == n.as_str()).ok_or_else(|| format!("unknown event {}", n)))
        .collect::<Result<_, _>>()?;
    if case["mode"] == "closed-at-once" {
        let srv = MemSrv::new(Some(vec![0, 1]));
        let mut want = 0usize;
        let msgs: Vec<Value> = hist
            .iter()
            .enumerate()
            .map(|(i, &ei)| {
                let mut m = alpha[ei].msg.clone();
                if alpha[ei].expect != Expect::Silent {
                    m["id"] = json!(100 + i as i64);
                    want += 1;
                }
                m
            })
            .collect();
        let (r, out) = srv.close_after(&msgs);
        let got = out.iter().filter(|m| m.get("method").is_none() && m["id"].as_i64().map(|i| i >= 100).unwrap_or(false)).count();
        return if got == want && r.is_ok() { Ok(format!("{} requests, {} responses, clean termination", want, got)) } else { Err(format!("{} requests, {} responses, termination {:?}", want, got, r)) };
    }
    if case["mode"] == "burst" {
        // all messages sent before anything is read
        let mut srv = MemSrv::new(Some(vec![0, 1]));
        let mut want = 0usize;
        let msgs: Vec<Value> = hist
            .iter()
            .enumerate()
            .map(|(i, &ei)| {
                let mut m = alpha[ei].msg.clone();
                if alpha[ei].expect != Expect::Silent {
                    m["id"] = json!(100 + i as i64);
                    want += 1;
                }
                m
            })
            .collect();
        let o = srv.burst(&msgs);
        if o.status != Status::Alive {
            return Err(format!("the server is {:?}", o.status));
        }
        let (r, extra) = Box::new(srv).finish_collect();
        let got = o.msgs.iter().chain(extra.iter()).filter(|m| m.get("method").is_none() && m["id"].as_i64().map(|i| i >= 100).unwrap_or(false)).count();
        return if got == want && r.is_ok() { Ok(format!("{} requests, {} responses, clean termination", want, got)) } else { Err(format!("{} requests, {} responses, termination {:?}", want, got, r)) };
    }
    let srv: Box<dyn Server> = if case["mode"] == "stdio" {
        Box::new(StdioSrv::new()?)
    } else {
        Box::new(MemSrv::new(Some(vec![0, 1])))
    };
    let r = run_history(&alpha, &hist, srv);
    if r.failures.is_empty() {
        Ok(format!("holds: steps {:?}, finish {}", r.steps, r.finish))
    } else {
        Err(r.failures.iter().map(|(k, w)| format!("{} :: {}", k, w)).collect::<Vec<_>>().join(" ;; "))
    }
}
