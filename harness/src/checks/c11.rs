//! C11 — LSP diagnostics depend only on current document contents and equal `check`.
//!
//! Explicit-state BFS over the real server (state = Debug rendering of all
//! Sources = complete server state), plus all histories up to a length without
//! de-duplication, both file iteration orders, fresh-server oracle, CLI oracle,
//! stdio conformance replays against the real binary.

use crate::cli;
use crate::lspx::*;
use crate::report::Ctx;
use crate::util::Scratch;
use ironplcc::project::{FileBackedProject, Project};
use rayon::prelude::*;
use serde_json::{json, Value};
use std::collections::{BTreeMap, BTreeSet, HashMap, VecDeque};
use std::sync::Mutex;
use std::time::Duration;

pub const URI_A: &str = "file:///w/a.st";
pub const URI_B: &str = "file:///w/b.st";

pub const TEXTS: [(&str, &str); 8] = [
    ("V", "TYPE Level : (Low, High) := Low; END_TYPE\nFUNCTION_BLOCK FbV\nVAR\n  a : INT;\nEND_VAR\n  a := 1;\nEND_FUNCTION_BLOCK\n"),
    ("X", "FUNCTION_BLOCK FbX\nVAR\n  a : INT;\nEND_VAR\n  (* \u{e9} *) a := ?;\n  a := a ! 1;\nEND_FUNCTION_BLOCK\n"),
    ("S", "FUNCTION_BLOCK FbS\nVAR\n  a : INT;\nEND_VAR\n\n  a := ;\nEND_FUNCTION_BLOCK\n"),
    ("M", "FUNCTION_BLOCK FbM\nVAR\n  a : INT;\nEND_VAR\n  a := 1;\n  (* \u{e9}\u{20ac} *) undeclared := 2;\nEND_FUNCTION_BLOCK\n"),
    ("D", "FUNCTION_BLOCK FbD\nVAR\n  lv : Level := Low;\nEND_VAR\nEND_FUNCTION_BLOCK\n"),
    // the same program as M in another layout and with CRLF line ends (same tree, every offset different)
    ("L", "(* moved *)\r\n\r\nFUNCTION_BLOCK FbM VAR a : INT; END_VAR\r\n\r\n      a := 1;\r\n   undeclared   :=   2;\r\nEND_FUNCTION_BLOCK\r\n"),
    // S again with white space in front of it (every line number differs): what a server that compares texts "modulo
    // white space at the ends" would take for S
    ("W", "\n\n  FUNCTION_BLOCK FbS\nVAR\n  a : INT;\nEND_VAR\n\n  a := ;\nEND_FUNCTION_BLOCK\n"),
    // T is S up to and including the line of its fault, with a fault of another kind (an invalid character) on the next
    // line: what a server that re-uses "everything before the first error" would take for S
    ("T", "FUNCTION_BLOCK FbS\nVAR\n  a : INT;\nEND_VAR\n\n  a := ;\n  a := 1 ? 2;\nEND_FUNCTION_BLOCK\n"),
];

fn text_of(k: usize) -> &'static str {
    TEXTS[k].1
}
fn kind_of(k: usize) -> &'static str {
    TEXTS[k].0
}

#[derive(Clone, Debug, PartialEq, Eq, Hash, PartialOrd, Ord)]
pub enum Kind {
    Open,
    Change1,
    Change2,
}

#[derive(Clone, Debug, PartialEq, Eq, Hash, PartialOrd, Ord)]
pub struct Event {
    pub kind: Kind,
    pub uri: usize, // 0 = a, 1 = b
    pub t1: usize,
    pub t2: usize, // only for Change2
}

impl Event {
    pub fn name(&self) -> String {
        let u = if self.uri == 0 { "a" } else { "b" };
        match self.kind {
            Kind::Open => format!("didOpen({},{})", u, kind_of(self.t1)),
            Kind::Change1 => format!("didChange({},[{}])", u, kind_of(self.t1)),
            Kind::Change2 => format!("didChange({},[{},{}])", u, kind_of(self.t1), kind_of(self.t2)),
        }
    }
    fn uri_str(&self) -> &'static str {
        if self.uri == 0 {
            URI_A
        } else {
            URI_B
        }
    }
    fn msg(&self, version: i64) -> Value {
        match self.kind {
            Kind::Open => did_open(self.uri_str(), version, text_of(self.t1)),
            Kind::Change1 => did_change(self.uri_str(), version, &[text_of(self.t1)]),
            Kind::Change2 => did_change(self.uri_str(), version, &[text_of(self.t1), text_of(self.t2)]),
        }
    }
    /// The text the document has after the event (full sync: the last change is the content).
    fn final_text(&self) -> usize {
        match self.kind {
            Kind::Change2 => self.t2,
            _ => self.t1,
        }
    }
}

/// Reference model of the open documents: per uri the index of its text.
pub type Contents = [Option<usize>; 2];

fn apply(c: &Contents, e: &Event) -> Contents {
    let mut n = *c;
    n[e.uri] = Some(e.final_text());
    n
}

fn contents_name(c: &Contents) -> String {
    format!(
        "a={},b={}",
        c[0].map(kind_of).unwrap_or("-"),
        c[1].map(kind_of).unwrap_or("-")
    )
}

fn alphabet(thorough: bool) -> Vec<Event> {
    let mut evs = vec![];
    for uri in 0..2 {
        for t in 0..TEXTS.len() {
            // W and T (S with white space at an end) matter as a change from or to S; opening them says nothing S does not
            if thorough || !matches!(kind_of(t), "W" | "T") {
                evs.push(Event { kind: Kind::Open, uri, t1: t, t2: 0 });
            }
            evs.push(Event { kind: Kind::Change1, uri, t1: t, t2: 0 });
        }
    }
    for uri in 0..2 {
        if thorough {
            // two content changes in one notification: every ordered pair of the six texts that differ in more than layout
            for t1 in 0..6 {
                for t2 in 0..6 {
                    if t1 != t2 {
                        evs.push(Event { kind: Kind::Change2, uri, t1, t2 });
                    }
                }
            }
        } else {
            evs.push(Event { kind: Kind::Change2, uri, t1: 1, t2: 0 }); // [X,V]
            evs.push(Event { kind: Kind::Change2, uri, t1: 0, t2: 3 }); // [V,M]
        }
    }
    evs
}

type DiagSet = BTreeSet<(String, u64, u64)>;

fn order_name(o: &Option<Vec<usize>>) -> String {
    match o {
        None => "hash".into(),
        Some(p) => format!("{:?}", p),
    }
}

/// What a freshly started server publishes for `u` when the other open document is opened first.
fn fresh_oracle(c: &Contents, u: usize, order: &Option<Vec<usize>>) -> Result<DiagSet, String> {
    let mut s = MemSrv::new(order.clone());
    let other = 1 - u;
    let uris = [URI_A, URI_B];
    if let Some(t) = c[other] {
        let o = s.step(&did_open(uris[other], 1, text_of(t)));
        if o.status != Status::Alive {
            return Err(format!("fresh server died opening {}", kind_of(t)));
        }
    }
    let t = c[u].ok_or("document not open in model")?;
    let o = s.step(&did_open(uris[u], 2, text_of(t)));
    if o.status != Status::Alive {
        return Err(format!("fresh server died opening {}", kind_of(t)));
    }
    let pubs: Vec<&Value> = o
        .msgs
        .iter()
        .filter(|m| m["method"] == "textDocument/publishDiagnostics")
        .collect();
    if pubs.len() != 1 {
        return Err(format!("fresh server published {} notifications", pubs.len()));
    }
    let r = diag_set(pubs[0]);
    let _ = Box::new(s).finish();
    Ok(r)
}

/// Independent conversion: in-process semantic() on the same contents, positions by own char counting.
fn library_oracle(c: &Contents, u: usize, order: &Option<Vec<usize>>) -> (DiagSet, Vec<String>) {
    let paths = ["/w/a.st", "/w/b.st"];
    let mut p = FileBackedProject::new();
    for i in 0..2 {
        if let Some(t) = c[i] {
            p.change_text_document(&crate::front::fid(paths[i]), text_of(t).to_string());
        }
    }
    ironplcc::verif::set_order(order.clone());
    let r = crate::util::catch(|| p.semantic());
    ironplcc::verif::set_order(None);
    let mut set = DiagSet::new();
    let mut fileless = vec![];
    if let Ok(Err(ds)) = r {
        for d in ds {
            let pf = d.primary.file_id.to_string();
            if pf != paths[0] && pf != paths[1] {
                fileless.push(d.code.clone());
                continue;
            }
            let in_u = d.file_ids().iter().any(|f| f.to_string() == paths[u]);
            if !in_u {
                continue;
            }
            let fi = if pf == paths[0] { 0 } else { 1 };
            let text = c[fi].map(text_of).unwrap_or("");
            let off = d.primary.location.start.min(text.len());
            let mut line = 0u64;
            let mut col = 0u64;
            for (bi, ch) in text.char_indices() {
                if bi >= off {
                    break;
                }
                if ch == '\n' {
                    line += 1;
                    col = 0;
                } else {
                    col += 1;
                }
            }
            set.insert((d.code.clone(), line, col));
        }
    }
    (set, fileless)
}

struct TransitionResult {
    obs: StepObs,
    state: Option<String>,
    failures: Vec<(String, String)>, // (key, what)
    prefix_failed: bool,
}

fn judge_step(
    e: &Event,
    version: i64,
    before: &Contents,
    obs: &StepObs,
    order: &Option<Vec<usize>>,
    oracle: &Mutex<HashMap<(Contents, usize, String), Result<DiagSet, String>>>,
) -> Vec<(String, String)> {
    let mut fails = vec![];
    let after = apply(before, e);
    let ctxname = format!(
        "{}/prev={}/other={}",
        match e.kind {
            Kind::Open => format!("didOpen({})", kind_of(e.t1)),
            Kind::Change1 => format!("didChange1({})", kind_of(e.t1)),
            Kind::Change2 => format!("didChange2({},{})", kind_of(e.t1), kind_of(e.t2)),
        },
        before[e.uri].map(kind_of).unwrap_or("-"),
        before[1 - e.uri].map(kind_of).unwrap_or("-")
    );
    if obs.status != Status::Alive {
        fails.push((
            format!("server-{:?}/{}", obs.status, ctxname).to_lowercase(),
            format!("server {:?} after {} in state {}", obs.status, e.name(), contents_name(before)),
        ));
        return fails;
    }
    let pubs: Vec<&Value> = obs
        .msgs
        .iter()
        .filter(|m| m["method"] == "textDocument/publishDiagnostics")
        .collect();
    if obs.msgs.len() != 1 || pubs.len() != 1 {
        fails.push((
            format!("not-exactly-one-publish/{}", ctxname),
            format!(
                "{} in state {} answered by {} message(s): {}",
                e.name(),
                contents_name(before),
                obs.msgs.len(),
                render_obs(obs)
            ),
        ));
        return fails;
    }
    let p = pubs[0];
    if p["params"]["uri"].as_str() != Some(e.uri_str()) {
        fails.push((
            format!("wrong-uri/{}", ctxname),
            format!("{} answered for uri {}", e.name(), p["params"]["uri"]),
        ));
    }
    if p["params"]["version"] != json!(version) {
        fails.push((
            format!("wrong-version/{}", ctxname),
            format!(
                "{} with version {} answered with version {}",
                e.name(),
                version,
                p["params"]["version"]
            ),
        ));
    }
    let got = diag_set(p);
    let key = (after, e.uri, order_name(order));
    let expected = {
        let cached = oracle.lock().unwrap().get(&key).cloned();
        match cached {
            Some(v) => v,
            None => {
                let v = fresh_oracle(&after, e.uri, order);
                oracle.lock().unwrap().insert(key, v.clone());
                v
            }
        }
    };
    match expected {
        Ok(exp) => {
            if exp != got {
                // classify the one documented shape: two changes, the first one applied
                let mut k = format!("diags-differ-from-fresh-server/{}", ctxname);
                if e.kind == Kind::Change2 {
                    let mut c1 = *before;
                    c1[e.uri] = Some(e.t1);
                    if let Ok(first) = fresh_oracle(&c1, e.uri, order) {
                        if first == got && first != exp {
                            k = "didChange-with-two-changes-applies-the-first-only".into();
                        }
                    }
                }
                fails.push((
                    k,
                    format!(
                        "{} in state {} (order {}): published {:?}, a fresh server with contents {} publishes {:?}",
                        e.name(),
                        contents_name(before),
                        order_name(order),
                        got,
                        contents_name(&after),
                        exp
                    ),
                ));
            }
        }
        Err(msg) => fails.push((
            format!("fresh-server-failed/{}", contents_name(&after)),
            msg,
        )),
    }
    fails
}

/// Version numbers are the client's: the result must follow the contents whatever they are
/// (a document closed and opened again starts at 1 again; the server does not see the close).
pub const VERSION_POLICIES: [&str; 3] = ["increasing", "decreasing", "constant"];
fn version_of(policy: usize, i: usize) -> i64 {
    match policy {
        1 => 100 - i as i64,
        2 => 1,
        _ => 10 + i as i64,
    }
}

fn run_history(
    hist: &[Event],
    order: &Option<Vec<usize>>,
    oracle: &Mutex<HashMap<(Contents, usize, String), Result<DiagSet, String>>>,
    judge_all: bool,
    versions: usize,
) -> (TransitionResult, Contents) {
    let mut s = MemSrv::new(order.clone());
    let mut c: Contents = [None, None];
    let mut last = StepObs { status: Status::Alive, msgs: vec![] };
    let mut failures = vec![];
    let mut prefix_failed = false;
    for (i, e) in hist.iter().enumerate() {
        let version = version_of(versions, i);
        let obs = s.step(&e.msg(version));
        let mut f = judge_step(e, version, &c, &obs, order, oracle);
        // conformance of the server state with the reference model: the text the server
        // holds for every document must be the model's current content
        if obs.status == Status::Alive {
            if let Some(texts) = s.texts() {
                let after = apply(&c, e);
                let paths = ["/w/a.st", "/w/b.st"];
                for u in 0..2 {
                    let held = texts.get(paths[u]).map(|t| t.as_str());
                    let model = after[u].map(text_of);
                    if held != model {
                        let first_only = e.kind == Kind::Change2 && u == e.uri && held == Some(text_of(e.t1));
                        let k = if first_only {
                            "didChange-with-two-changes-applies-the-first-only".to_string()
                        } else {
                            format!("server-text-differs-from-model/{}", e.name())
                        };
                        f.push((k, format!("after {} the server holds {:?} for {} but the current content is {:?}", e.name(), held.map(|t| crate::util::short(t, 40)), paths[u], model.map(|t| crate::util::short(t, 40)))));
                    }
                }
                if texts.len() != after.iter().filter(|x| x.is_some()).count() {
                    f.push((format!("server-holds-extra-documents/{}", e.name()), format!("server holds {:?}", texts.keys().collect::<Vec<_>>())));
                }
            }
        }
        if i + 1 == hist.len() {
            // A history whose proper prefix already fails adds nothing: the prefix is
            // enumerated on its own, and after a failure model and server may diverge.
            if !prefix_failed || judge_all {
                failures.extend(f);
            }
        } else if !f.is_empty() {
            prefix_failed = true;
            if judge_all {
                failures.extend(f);
            }
        }
        c = apply(&c, e);
        let alive = obs.status == Status::Alive;
        last = obs;
        if !alive {
            break;
        }
    }
    let state = s.state();
    if last.status == Status::Alive {
        if let Err(e) = Box::new(s).finish() {
            failures.push(("unclean-termination".into(), e));
        }
    }
    (
        TransitionResult {
            obs: last,
            state,
            failures,
            prefix_failed,
        },
        c,
    )
}

fn cli_oracle(c: &Contents, scratch: &Scratch, n: usize) -> Option<(cli::CliRun, [DiagSet; 2])> {
    if c[0].is_none() && c[1].is_none() {
        return None;
    }
    let dir = scratch.sub(&format!("set{}", n));
    let tmp = scratch.sub(&format!("tmp{}", n));
    let names = ["a.st", "b.st"];
    for i in 0..2 {
        if let Some(t) = c[i] {
            std::fs::write(dir.join(names[i]), text_of(t)).unwrap();
        }
    }
    let run = cli::run(&["check", dir.to_str().unwrap()], &tmp, Duration::from_secs(20));
    let mut sets = [DiagSet::new(), DiagSet::new()];
    for d in &run.diags {
        if let Some((p, l, col)) = &d.at {
            for i in 0..2 {
                if p.ends_with(&format!("/{}", names[i])) {
                    sets[i].insert((d.code.clone(), l - 1, col - 1));
                }
            }
        }
    }
    Some((run, sets))
}

pub fn run(ctx: &mut Ctx) {
    let thorough = ctx.tier.thorough();
    let evs = alphabet(thorough);
    let max_len = if thorough { 4 } else { 3 };
    ctx.rule = "state = Debug rendering of every Source held by the real server (file id, text, memoised parse result) = complete server state; transition = one didOpen/didChange sent to a fresh real server that replayed the shortest history of the source state; distinct = distinct (state, event) pairs; plus every history up to the length bound without de-duplication, each with increasing, decreasing and constant version numbers (lengths <= 3)".into();
    ctx.bounds.insert("uris".into(), json!(2));
    ctx.bounds.insert("texts".into(), json!(TEXTS.iter().map(|t| t.0).collect::<Vec<_>>()));
    ctx.bounds.insert("events".into(), json!(evs.len()));
    ctx.bounds.insert("history_length_without_dedup".into(), json!(max_len));
    ctx.bounds.insert("file_orders".into(), json!(["[0,1]", "[1,0]"]));
    ctx.assumptions.push("the server loop is sequential: everything received before the response to the probe request belongs to the event (barrier, no sleeps)".into());
    ctx.assumptions.push("file iteration order is owned through the H2 seam; both orders are explored; the binary (random hash order) must agree with one of them".into());
    ctx.assumptions.push("under TextDocumentSyncKind::FULL the content after didChange is the text of the last content change".into());

    let orders: Vec<Option<Vec<usize>>> = vec![Some(vec![0, 1]), Some(vec![1, 0])];
    let oracle: Mutex<HashMap<(Contents, usize, String), Result<DiagSet, String>>> = Mutex::new(HashMap::new());

    // ---- (1) BFS to a fixpoint with de-duplication on the complete server state
    let mut all_states: BTreeSet<String> = BTreeSet::new();
    let mut state_contents: BTreeMap<String, Contents> = BTreeMap::new();
    let mut spanning: Vec<Vec<Event>> = vec![];
    let mut transitions = 0u64;
    let mut outcomes: BTreeSet<String> = BTreeSet::new();
    let mut max_depth = 0usize;
    for order in &orders {
        let mut seen: BTreeMap<String, Vec<Event>> = BTreeMap::new();
        let mut q: VecDeque<Vec<Event>> = VecDeque::new();
        seen.insert(String::new(), vec![]);
        q.push_back(vec![]);
        while let Some(h) = q.pop_front() {
            let results: Vec<(Event, TransitionResult, Contents)> = evs
                .par_iter()
                .map(|e| {
                    let mut hist = h.clone();
                    hist.push(e.clone());
                    let (r, c) = run_history(&hist, order, &oracle, false, 0);
                    (e.clone(), r, c)
                })
                .collect();
            for (e, r, c) in results {
                transitions += 1;
                outcomes.insert(render_obs(&r.obs).replace(|ch: char| ch.is_ascii_digit(), "#"));
                ctx.distinct(&format!("{}|{}|{}", order_name(order), h.iter().map(|x| x.name()).collect::<Vec<_>>().join(","), e.name()));
                for (k, w) in &r.failures {
                    let mut hist = h.clone();
                    hist.push(e.clone());
                    ctx.fail(k, w, json!({"mode":"history","order":order_name(order),"history": hist.iter().map(|x| x.name()).collect::<Vec<_>>()}));
                }
                if r.obs.status != Status::Alive || !r.failures.is_empty() || r.prefix_failed {
                    continue; // error state: not expanded (model and server may have diverged)
                }
                let st = r.state.unwrap_or_default();
                // the state must determine the model contents (no information lost, none invented)
                let key = format!("{}#{}", order_name(order), st);
                if let Some(prev) = state_contents.get(&key) {
                    if *prev != c {
                        ctx.fail(
                            "server-state-does-not-determine-contents",
                            &format!("same server state reached with contents {} and {}", contents_name(prev), contents_name(&c)),
                            json!({"mode":"history","order":order_name(order),"history": h.iter().chain(std::iter::once(&e)).map(|x| x.name()).collect::<Vec<_>>()}),
                        );
                    }
                } else {
                    state_contents.insert(key, c);
                }
                if !seen.contains_key(&st) {
                    let mut nh = h.clone();
                    nh.push(e.clone());
                    max_depth = max_depth.max(nh.len());
                    seen.insert(st.clone(), nh.clone());
                    q.push_back(nh.clone());
                    if order == &orders[0] {
                        spanning.push(nh);
                    }
                }
                all_states.insert(st);
            }
        }
        ctx.extra.insert(format!("bfs_states_order_{}", order_name(order)), json!(seen.len()));
    }
    ctx.states = all_states.len() as u64 + 1;
    ctx.transitions = transitions;
    ctx.extra.insert("bfs_max_shortest_history".into(), json!(max_depth));
    let model_states: BTreeSet<Contents> = state_contents.values().cloned().collect();
    ctx.extra.insert("model_content_states_reached".into(), json!(model_states.len()));

    // ---- (2) all histories up to max_len without de-duplication
    let mut hist_count = 0u64;
    let mut level: Vec<Vec<Event>> = vec![vec![]];
    for len in 1..=max_len {
        if ctx.over_budget(&format!("histories of length {}", len)) {
            break;
        }
        let mut next: Vec<Vec<Event>> = Vec::with_capacity(level.len() * evs.len());
        for h in &level {
            // beyond length 3 only the open / single-change events extend a history (20 events):
            // 60^4 histories would not finish; the two-change events are covered up to length 3
            if len >= 4 && h.iter().any(|e| e.kind == Kind::Change2) {
                continue;
            }
            for e in &evs {
                if len >= 4 && e.kind == Kind::Change2 {
                    continue;
                }
                let mut n = h.clone();
                n.push(e.clone());
                next.push(n);
            }
        }
        let hist_orders: Vec<&Option<Vec<usize>>> = if thorough || len <= 2 { orders.iter().collect() } else { vec![&orders[0]] };
        for (oi, order) in hist_orders.into_iter().enumerate() {
            // every version policy with the first file order; the other file order with increasing versions
            let policies: Vec<usize> = if oi == 0 && len <= 3 { vec![0, 1, 2] } else { vec![0] };
            for pol in policies {
                let fails: Vec<(Vec<Event>, Vec<(String, String)>, String)> = next
                    .par_iter()
                    .map(|h| {
                        let (r, _) = run_history(h, order, &oracle, false, pol);
                        (h.clone(), r.failures, render_obs(&r.obs))
                    })
                    .collect();
                for (h, f, o) in fails {
                    hist_count += 1;
                    outcomes.insert(o.replace(|ch: char| ch.is_ascii_digit(), "#"));
                    for (k, w) in f {
                        let k = if pol == 0 { k } else { format!("versions-{}/{}", VERSION_POLICIES[pol], k) };
                        ctx.fail(&k, &w, json!({"mode":"history","order":order_name(order),"versions":VERSION_POLICIES[pol],"history": h.iter().map(|x| x.name()).collect::<Vec<_>>()}));
                    }
                }
            }
        }
        ctx.bounds.insert("history_length_completed".into(), json!(len));
        level = next;
    }
    // long periodic histories: every event and every ordered pair of events repeated up to length 40
    // (caches and counters that only misbehave after many notifications)
    let mut periodic: Vec<Vec<Event>> = vec![];
    for a in &evs {
        periodic.push(vec![a.clone(); 40]);
        for b in &evs {
            if a != b {
                periodic.push((0..40).map(|i| if i % 2 == 0 { a.clone() } else { b.clone() }).collect());
            }
        }
    }
    let fails: Vec<(Vec<Event>, Vec<(String, String)>)> = periodic
        .par_iter()
        .map(|h| {
            let (r, _) = run_history(h, &orders[0], &oracle, false, 0);
            (h.clone(), r.failures)
        })
        .collect();
    for (h, f) in fails {
        hist_count += 1;
        for (k, w) in f {
            ctx.fail(&format!("periodic/{}", k), &w, json!({"mode":"history","order":order_name(&orders[0]),"history": h.iter().map(|x| x.name()).collect::<Vec<_>>()}));
        }
    }
    ctx.bounds.insert("periodic_histories".into(), json!(format!("{} histories of length 40 (period 1 and 2)", periodic.len())));
    // many documents: N unrelated valid documents opened between two notifications for a faulty one
    // (tables and caches with a capacity): the result must be what a server publishes for the faulty text alone
    let sizes = [1usize, 7, 8, 9, 15, 16, 17, 31, 32, 33, 63, 64, 65, 127, 128, 129, 255, 256, 257];
    let mut many_jobs: Vec<(usize, usize, &'static str)> = vec![];
    for &n in &sizes {
        for t in [1usize, 2, 3] {
            for shape in ["reopen-same-document", "text-moves-to-another-document"] {
                many_jobs.push((n, t, shape));
            }
        }
    }
    let many: Vec<(usize, usize, &'static str, Option<String>)> = many_jobs
        .par_iter()
        .map(|(n, t, shape)| {
            let text = text_of(*t);
            let alone = {
                let mut s = MemSrv::new(None);
                let o = s.step(&did_open("file:///w/a.st", 1, text));
                let _ = Box::new(s).finish();
                o.msgs.iter().filter(|v| v["method"] == "textDocument/publishDiagnostics").last().map(crate::lspx::diag_set)
            };
            let mut s = MemSrv::new(None);
            s.step(&did_open("file:///w/a.st", 1, text));
            if *shape == "text-moves-to-another-document" {
                s.step(&did_change("file:///w/a.st", 2, &[text_of(0)]));
            }
            for k in 0..*n {
                let filler = format!("FUNCTION_BLOCK Fd{}\nVAR a : INT; END_VAR\n  a := {};\nEND_FUNCTION_BLOCK\n", k, k);
                let o = s.step(&did_open(&format!("file:///w/d{}.st", k), 1, &filler));
                if o.status != Status::Alive {
                    return (*n, *t, *shape, Some(format!("the server is {:?} after opening document {}", o.status, k)));
                }
            }
            let (uri, version) = if *shape == "text-moves-to-another-document" { ("file:///w/b.st", 1) } else { ("file:///w/a.st", 3) };
            let o = if uri.ends_with("b.st") { s.step(&did_open(uri, version, text)) } else { s.step(&did_change(uri, version, &[text])) };
            let _ = Box::new(s).finish();
            let got = o.msgs.iter().filter(|v| v["method"] == "textDocument/publishDiagnostics" && v["params"]["uri"].as_str() == Some(uri)).last().map(crate::lspx::diag_set);
            let problem = if o.status != Status::Alive {
                Some(format!("the server is {:?}", o.status))
            } else if got != alone {
                Some(format!("published {:?}; a server holding only this text publishes {:?}", got, alone))
            } else {
                None
            };
            (*n, *t, *shape, problem)
        })
        .collect();
    for (n, t, shape, problem) in many {
        hist_count += 1;
        if let Some(p) = problem {
            ctx.fail(&format!("many-documents/{}/{}", shape, kind_of(t)), &format!("{} other documents open, text {}: {}", n, kind_of(t), p), json!({"mode":"contents","contents":format!("many-documents n={} text={} {}", n, kind_of(t), shape)}));
        }
    }
    // a notification that is no edit between two notifications for a faulty document
    let mut notif_jobs = vec![];
    for t in [1usize, 2, 3, 5] {
        for (nname, msg) in neutral_notifications("file:///w/a.st", "file:///w/b.st") {
            notif_jobs.push((t, nname, msg));
        }
    }
    let notif_res: Vec<(usize, &'static str, Option<String>)> = notif_jobs
        .par_iter()
        .map(|(t, nname, msg)| {
            let text = text_of(*t);
            let mut s = MemSrv::new(None);
            let first = s.step(&did_open("file:///w/a.st", 1, text));
            let alone = first.msgs.iter().filter(|v| v["method"] == "textDocument/publishDiagnostics").last().map(crate::lspx::diag_set);
            let mid = s.step(msg);
            let o = s.step(&did_change("file:///w/a.st", 2, &[text]));
            let _ = Box::new(s).finish();
            let got = o.msgs.iter().filter(|v| v["method"] == "textDocument/publishDiagnostics" && v["params"]["uri"].as_str() == Some("file:///w/a.st")).last().map(crate::lspx::diag_set);
            let problem = if mid.status != Status::Alive || o.status != Status::Alive {
                Some("the server died".to_string())
            } else if got != alone {
                Some(format!("published {:?} after the notification, {:?} before it", got, alone))
            } else {
                None
            };
            (*t, *nname, problem)
        })
        .collect();
    for (t, nname, problem) in notif_res {
        hist_count += 1;
        if let Some(p) = problem {
            ctx.fail(&format!("diags-depend-on-a-notification-that-is-no-edit/{}", nname.split('(').next().unwrap_or(nname)), &format!("text {}, notification {}: {}", kind_of(t), nname, p), json!({"mode":"contents","contents":format!("notification {} text {}", nname, kind_of(t))}));
        }
    }
    // a client that runs ahead of the server: 2 to 6 notifications are sent before anything is read (the server
    // finds them queued); every notification is still answered by its own publishDiagnostics, in order, with the
    // content a lock-step client gets
    {
        let uris = ["file:///w/a.st", "file:///w/b.st"];
        // (uri index, text index, is-open) sequences: all pairs over 2 uris x 6 texts, and runs of 3..6 changes to one document
        let mut seqs: Vec<Vec<(usize, usize)>> = vec![];
        for u1 in 0..2usize {
            for t1 in 0..TEXTS.len() {
                for t2 in 0..TEXTS.len() {
                    seqs.push(vec![(0, t1), (u1, t2)]);
                }
            }
        }
        for len in 3..=6usize {
            for start in 0..TEXTS.len() {
                seqs.push((0..len).map(|i| (0usize, (start + i) % TEXTS.len())).collect());
                seqs.push((0..len).map(|i| (i % 2, (start + i) % TEXTS.len())).collect());
            }
        }
        let res: Vec<Option<String>> = seqs
            .par_iter()
            .map(|seq| {
                // lock-step reference
                let mut r = MemSrv::new(Some(vec![0, 1]));
                let mut want = vec![];
                for u in 0..2 {
                    let _ = r.step(&did_open(uris[u], 1, text_of(0)));
                }
                for (i, (u, t)) in seq.iter().enumerate() {
                    let o = r.step(&did_change(uris[*u], 2 + i as i64, &[text_of(*t)]));
                    let pubs: Vec<&Value> = o.msgs.iter().filter(|v| v["method"] == "textDocument/publishDiagnostics").collect();
                    if pubs.len() != 1 {
                        return None; // the lock-step histories are judged elsewhere
                    }
                    want.push((uris[*u].to_string(), 2 + i as i64, crate::lspx::diag_set(pubs[0])));
                }
                let _ = Box::new(r).finish();
                // the same notifications in one burst
                let mut s = MemSrv::new(Some(vec![0, 1]));
                for u in 0..2 {
                    let _ = s.step(&did_open(uris[u], 1, text_of(0)));
                }
                let msgs: Vec<Value> = seq.iter().enumerate().map(|(i, (u, t))| did_change(uris[*u], 2 + i as i64, &[text_of(*t)])).collect();
                let o = s.burst(&msgs);
                let _ = Box::new(s).finish();
                if o.status != Status::Alive {
                    return Some("the server died".to_string());
                }
                let got: Vec<(String, i64, DiagSet)> = o
                    .msgs
                    .iter()
                    .filter(|v| v["method"] == "textDocument/publishDiagnostics")
                    .map(|v| (v["params"]["uri"].as_str().unwrap_or("").to_string(), v["params"]["version"].as_i64().unwrap_or(-1), crate::lspx::diag_set(v)))
                    .collect();
                if got.len() != want.len() {
                    Some(format!("{} notifications sent ahead, {} publishDiagnostics (versions {:?})", want.len(), got.len(), got.iter().map(|g| g.1).collect::<Vec<_>>()))
                } else if got != want {
                    Some(format!("published {:?}, a lock-step client gets {:?}", got.iter().map(|g| (g.0.as_str(), g.1, g.2.len())).collect::<Vec<_>>(), want.iter().map(|g| (g.0.as_str(), g.1, g.2.len())).collect::<Vec<_>>()))
                } else {
                    None
                }
            })
            .collect();
        for (seq, problem) in seqs.iter().zip(res.iter()) {
            hist_count += 1;
            if let Some(p) = problem {
                let same = seq.iter().all(|x| x.0 == seq[0].0);
                ctx.fail(
                    &format!("notifications-sent-ahead/{}/{}", if same { "one-document" } else { "two-documents" }, if seq.len() == 2 { "two" } else { "several" }),
                    &format!("changes {:?} (document, text) sent without waiting: {}", seq.iter().map(|(u, t)| (["a", "b"][*u], kind_of(*t))).collect::<Vec<_>>(), p),
                    json!({"mode":"contents","contents":format!("burst {:?}", seq)}),
                );
            }
        }
        ctx.bounds.insert("notifications_sent_ahead".into(), json!(format!("{} bursts: every ordered pair of changes over 2 documents x {} texts, runs of 3..6 changes to one document and alternating between two", seqs.len(), TEXTS.len())));
    }
    // every C02 world with one planted fault as a document, in six spellings: what is published is what `check`
    // reports for it — the code and the position of the primary label (converted independently to UTF-16 columns)
    crate::checks::c02::lsp_range_oracle_into(ctx);
    ctx.bounds.insert("many_documents".into(), json!("N in 1,7,8,9,…,255,256,257 unrelated documents x 3 faulty texts x {re-sent to the same document, moved to another document}"));
    ctx.evaluations = transitions + hist_count;
    ctx.extra.insert("histories_without_dedup".into(), json!(hist_count));

    // ---- (3) independent position conversion and CLI oracle per content state
    let scratch = Scratch::new("c11");
    let mut cli_runs = 0u64;
    let mut n = 0usize;
    for c in &model_states {
        n += 1;
        let cli = cli_oracle(c, &scratch, n);
        if cli.is_some() {
            cli_runs += 1;
        }
        for u in 0..2 {
            if c[u].is_none() {
                continue;
            }
            let mut per_order: Vec<DiagSet> = vec![];
            let mut fileless_codes: Vec<String> = vec![];
            for order in &orders {
                let key = (*c, u, order_name(order));
                let fresh = {
                    let cached = oracle.lock().unwrap().get(&key).cloned();
                    cached.unwrap_or_else(|| fresh_oracle(c, u, order))
                };
                let (lib, fileless) = library_oracle(c, u, order);
                fileless_codes = fileless;
                if let Ok(f) = &fresh {
                    if *f != lib {
                        ctx.fail(
                            &format!("published-range-differs-from-label-position/{}/u={}", contents_name(c), if u == 0 { "a" } else { "b" }),
                            &format!("contents {} order {}: server publishes {:?}; Project::semantic() labels convert to {:?}", contents_name(c), order_name(order), f, lib),
                            json!({"mode":"contents","contents":contents_name(c),"uri":u,"order":order_name(order)}),
                        );
                    }
                    per_order.push(f.clone());
                }
            }
            if let Some((run, sets)) = &cli {
                let mut cli_set = sets[u].clone();
                // diagnostics without any file are shown by the CLI under an arbitrary file at 1:1; leave them out
                for code in &fileless_codes {
                    cli_set.remove(&(code.clone(), 0, 0));
                }
                if !per_order.iter().any(|s| *s == cli_set) {
                    ctx.fail(
                        &format!("check-differs-from-published/{}/u={}", contents_name(c), if u == 0 { "a" } else { "b" }),
                        &format!("contents {}: `ironplcc check dir` reports {:?} for the file ({}), the server publishes {:?}", contents_name(c), cli_set, run.summary(), per_order),
                        json!({"mode":"contents","contents":contents_name(c),"uri":u}),
                    );
                }
            }
        }
    }
    ctx.extra.insert("cli_check_runs".into(), json!(cli_runs));

    // ---- (4) stdio conformance: replay the spanning tree (thorough: plus one extra event each) against the binary
    let mut replays = 0u64;
    let mut replay_hists: Vec<Vec<Event>> = spanning.clone();
    if thorough {
        for h in &spanning {
            for e in &evs {
                let mut n = h.clone();
                n.push(e.clone());
                replay_hists.push(n);
            }
        }
    }
    let conf: Vec<(Vec<Event>, Option<String>)> = replay_hists
        .par_iter()
        .map(|h| (h.clone(), stdio_conformance(h, &orders)))
        .collect();
    for (h, r) in conf {
        replays += 1;
        if let Some(msg) = r {
            ctx.fail(
                &format!("binary-differs-from-in-process/{}", h.last().map(|e| e.name()).unwrap_or_default()),
                &msg,
                json!({"mode":"stdio","history": h.iter().map(|x| x.name()).collect::<Vec<_>>()}),
            );
        }
    }
    ctx.traces = replays;
    ctx.extra.insert("stdio_replays".into(), json!(replays));
    ctx.extra.insert("distinct_observations".into(), json!(outcomes.len()));
    for o in outcomes.iter().take(12) {
        ctx.outcome(o);
    }
    for h in spanning.iter().take(4) {
        ctx.sample(json!({"history": h.iter().map(|x| x.name()).collect::<Vec<_>>()}));
    }
    ctx.sample(json!({"texts": TEXTS.iter().map(|t| json!({"kind": t.0, "text": t.1})).collect::<Vec<_>>()}));
}

/// Replays a history against the real binary and compares every step with the in-process observation.
fn stdio_conformance(h: &[Event], orders: &[Option<Vec<usize>>]) -> Option<String> {
    let mut bin = match StdioSrv::new() {
        Ok(b) => b,
        Err(e) => return Some(format!("machinery: {}", e)),
    };
    let mut mems: Vec<MemSrv> = orders.iter().map(|o| MemSrv::new(o.clone())).collect();
    for (i, e) in h.iter().enumerate() {
        let m = e.msg(10 + i as i64);
        let ob = render_obs(&bin.step(&m));
        let om: Vec<String> = mems.iter_mut().map(|s| render_obs(&s.step(&m))).collect();
        if !om.iter().any(|x| *x == ob) {
            return Some(format!(
                "step {} ({}): binary observed [{}], in-process observed {:?}",
                i,
                e.name(),
                ob,
                om
            ));
        }
    }
    let r = Box::new(bin).finish();
    for s in mems {
        let _ = Box::new(s).finish();
    }
    match r {
        Ok(_) => None,
        Err(e) => Some(format!("binary after shutdown+exit: {}", e)),
    }
}

fn parse_event(name: &str) -> Option<Event> {
    let idx = |k: &str| TEXTS.iter().position(|t| t.0 == k);
    let (head, rest) = name.split_once('(')?;
    let rest = rest.trim_end_matches(')');
    let (u, args) = rest.split_once(',')?;
    let uri = if u == "a" { 0 } else { 1 };
    match head {
        "didOpen" => Some(Event { kind: Kind::Open, uri, t1: idx(args)?, t2: 0 }),
        "didChange" => {
            let inner = args.trim_start_matches('[').trim_end_matches(']');
            let parts: Vec<&str> = inner.split(',').collect();
            match parts.len() {
                1 => Some(Event { kind: Kind::Change1, uri, t1: idx(parts[0])?, t2: 0 }),
                2 => Some(Event { kind: Kind::Change2, uri, t1: idx(parts[0])?, t2: idx(parts[1])? }),
                _ => None,
            }
        }
        _ => None,
    }
}

pub fn replay(case: &Value) -> Result<String, String> {
    let mode = case["mode"].as_str().unwrap_or("history");
    if mode == "lsp-range" {
        return crate::checks::c02::replay_lsp_range(case);
    }
    if mode == "contents" {
        return Err("contents-mode replays are re-derived by running the check (CLI / label comparison); run ./bin/check C11 quick".into());
    }
    let hist: Vec<Event> = case["history"]
        .as_array()
        .ok_or("history")?
        .iter()
        .map(|n| parse_event(n.as_str().unwrap_or("")).ok_or_else(|| format!("bad event {}", n)))
        .collect::<Result<_, _>>()?;
    let orders: Vec<Option<Vec<usize>>> = vec![Some(vec![0, 1]), Some(vec![1, 0])];
    if mode == "stdio" {
        return match stdio_conformance(&hist, &orders) {
            None => Ok("binary agrees with the in-process server".into()),
            Some(m) => Err(m),
        };
    }
    let order = match case["order"].as_str() {
        Some("[1, 0]") => Some(vec![1, 0]),
        _ => Some(vec![0, 1]),
    };
    let oracle = Mutex::new(HashMap::new());
    let pol = VERSION_POLICIES.iter().position(|p| Some(*p) == case["versions"].as_str()).unwrap_or(0);
    let (r, c) = run_history(&hist, &order, &oracle, true, pol);
    if r.failures.is_empty() {
        Ok(format!("holds; final contents {}; last observation {}", contents_name(&c), render_obs(&r.obs)))
    } else {
        Err(r.failures.iter().map(|(k, w)| format!("{} :: {}", k, w)).collect::<Vec<_>>().join(" ;; "))
    }
}
