//! C13 — command-line contract: exit status, OK line and diagnostics always agree.
//!
//! A catalogue of file sets x every presentation (file list in every order, directory, every split
//! into directory + listed files, directory first/last) x {check, echo, tokenize} on the real binary.

use crate::cli::{self, CliRun};
use crate::corpus;
use crate::explore::permutations;
use crate::front;
use crate::lex::spell_lines;
use crate::report::Ctx;
use crate::util::Scratch;
use rayon::prelude::*;
use serde_json::{json, Value};
use std::path::PathBuf;
use std::time::Duration;

#[derive(Clone, Debug)]
enum Entry {
    File(&'static str, String),
    /// a path that does not exist
    Missing(&'static str),
    /// a symbolic link whose target does not exist
    Dangling(&'static str),
    /// a sub-directory (only meaningful inside a directory presentation)
    SubDir(&'static str),
}

impl Entry {
    fn name(&self) -> &'static str {
        match self {
            Entry::File(n, _) | Entry::Missing(n) | Entry::Dangling(n) | Entry::SubDir(n) => n,
        }
    }
}

#[derive(Clone, Debug)]
struct FileSet {
    name: &'static str,
    entries: Vec<Entry>,
}

fn f(name: &'static str, text: &str) -> Entry {
    Entry::File(name, text.to_string())
}

const VALID_SMALL: &str = "FUNCTION_BLOCK Small\nVAR\n  a : INT;\nEND_VAR\n  a := 1;\nEND_FUNCTION_BLOCK\n";
const TYPES: &str = "TYPE\n  Level : (Low, High) := Low;\nEND_TYPE\n";
const USES_TYPE: &str = "FUNCTION_BLOCK UsesLevel\nVAR\n  lv : Level := Low;\n  n : INT;\nEND_VAR\n  n := 1;\nEND_FUNCTION_BLOCK\n";
const USES_FB: &str = "PROGRAM Top\nVAR\n  inst : UsesLevel;\nEND_VAR\n  inst();\nEND_PROGRAM\n";

/// The repository's own test resources (every .st / .iec file under compiler/resources/test that is UTF-8 text),
/// each as a one-file set: real programs with constructs no generator of this harness writes down.
fn resource_sets() -> Vec<FileSet> {
    let mut out = vec![];
    let dir = std::path::Path::new("/repo/compiler/resources/test");
    let mut names: Vec<PathBuf> = std::fs::read_dir(dir).map(|d| d.filter_map(|e| e.ok()).map(|e| e.path()).collect()).unwrap_or_default();
    names.sort();
    for p in names {
        let ext = p.extension().and_then(|e| e.to_str()).unwrap_or("");
        if ext != "st" && ext != "iec" {
            continue;
        }
        if let Ok(text) = std::fs::read_to_string(&p) {
            let base = p.file_name().and_then(|n| n.to_str()).unwrap_or("resource.st").to_string();
            let name: &'static str = Box::leak(format!("resource:{}", base).into_boxed_str());
            let fname: &'static str = Box::leak(base.into_boxed_str());
            out.push(FileSet { name, entries: vec![Entry::File(fname, text)] });
        }
    }
    out
}

fn catalogue() -> Vec<FileSet> {
    let mut all = catalogue_generated();
    all.extend(resource_sets());
    all
}

fn catalogue_generated() -> Vec<FileSet> {
    let docs = corpus::docs();
    let d0 = spell_lines(&docs[0].lx.v).text;
    let d1 = spell_lines(&docs[1].lx.v).text;
    let mut sets = vec![
        FileSet { name: "valid-1", entries: vec![f("a.st", &d0)] },
        FileSet { name: "valid-config", entries: vec![f("a.st", &d1)] },
        FileSet { name: "valid-3-interdependent", entries: vec![f("types.st", TYPES), f("fb.st", USES_TYPE), f("prog.st", USES_FB)] },
        FileSet { name: "lexical-error", entries: vec![f("a.st", "FUNCTION_BLOCK L\nVAR\n  a : INT;\nEND_VAR\n  a := ?;\nEND_FUNCTION_BLOCK\n")] },
        FileSet { name: "syntax-error", entries: vec![f("a.st", "FUNCTION_BLOCK S\nVAR\n  a : INT;\nEND_VAR\n  a := ;\nEND_FUNCTION_BLOCK\n")] },
        FileSet { name: "open-comment", entries: vec![f("a.st", "FUNCTION_BLOCK S\nEND_FUNCTION_BLOCK\n(* never closed\n")] },
        FileSet { name: "sem-duplicate-struct-element", entries: vec![f("a.st", "TYPE\n  Pt : STRUCT\n    x : INT;\n    x : INT;\n  END_STRUCT;\nEND_TYPE\n")] },
        FileSet { name: "sem-subrange-limits", entries: vec![f("a.st", "TYPE\n  R : INT(10..-10);\nEND_TYPE\n")] },
        FileSet { name: "sem-duplicate-enum-value", entries: vec![f("a.st", "TYPE\n  L : (A, B, A);\nEND_TYPE\n")] },
        FileSet { name: "sem-undeclared-variable", entries: vec![f("a.st", "FUNCTION_BLOCK U\nVAR\n  a : INT;\nEND_VAR\n  a := 1;\n  b := 2;\nEND_FUNCTION_BLOCK\n")] },
        FileSet { name: "sem-undefined-task", entries: vec![f("a.st", "PROGRAM Main\nVAR\n  a : INT;\nEND_VAR\n  a := 1;\nEND_PROGRAM\nCONFIGURATION c\n  RESOURCE r ON PLC\n    TASK t1(INTERVAL := T#100ms, PRIORITY := 1);\n    PROGRAM p WITH nope : Main;\n  END_RESOURCE\nEND_CONFIGURATION\n")] },
        FileSet { name: "sem-constant-without-init", entries: vec![f("a.st", "FUNCTION_BLOCK K\nVAR CONSTANT\n  k : INT;\nEND_VAR\nEND_FUNCTION_BLOCK\n")] },
        FileSet { name: "sem-constant-fb-instance", entries: vec![f("a.st", "FUNCTION_BLOCK Inner\nVAR\n  a : INT;\nEND_VAR\nEND_FUNCTION_BLOCK\nFUNCTION_BLOCK K\nVAR CONSTANT\n  i : Inner;\nEND_VAR\nEND_FUNCTION_BLOCK\n")] },
        FileSet { name: "sem-recursive-fb", entries: vec![f("a.st", "FUNCTION_BLOCK R\nVAR\n  me : R;\nEND_VAR\nEND_FUNCTION_BLOCK\n")] },
        FileSet { name: "sem-unknown-type-on-assigned-variable", entries: vec![f("a.st", "FUNCTION_BLOCK T\nVAR\n  v : Nowhere;\nEND_VAR\n  v := 1;\nEND_FUNCTION_BLOCK\n")] },
        FileSet { name: "valid+syntax-error", entries: vec![f("good.st", VALID_SMALL), f("bad.st", "FUNCTION_BLOCK S\n  a := ;\nEND_FUNCTION_BLOCK\n")] },
        FileSet { name: "valid+lexical-error", entries: vec![f("good.st", VALID_SMALL), f("bad.st", "FUNCTION_BLOCK S\n  ?\nEND_FUNCTION_BLOCK\n")] },
        FileSet { name: "valid+semantic-error", entries: vec![f("good.st", VALID_SMALL), f("bad.st", "TYPE\n  L : (A, A);\nEND_TYPE\n")] },
        FileSet { name: "two-syntax-errors", entries: vec![f("bad1.st", "FUNCTION_BLOCK S\n  a := ;\nEND_FUNCTION_BLOCK\n"), f("bad2.st", "PROGRAM\nEND_PROGRAM\n")] },
        FileSet { name: "empty-file", entries: vec![f("a.st", "")] },
        FileSet { name: "only-comment", entries: vec![f("a.st", "(* nothing here *)\n")] },
        FileSet { name: "valid+empty-file", entries: vec![f("good.st", VALID_SMALL), f("empty.st", "")] },
        FileSet { name: "missing-path", entries: vec![Entry::Missing("nothing.st")] },
        FileSet { name: "valid+missing-path", entries: vec![f("good.st", VALID_SMALL), Entry::Missing("nothing.st")] },
        FileSet { name: "two-valid+missing-path", entries: vec![f("types.st", TYPES), f("fb.st", USES_TYPE), Entry::Missing("nothing.st")] },
        FileSet { name: "dangling-symlink", entries: vec![Entry::Dangling("link.st")] },
        FileSet { name: "valid+dangling-symlink", entries: vec![f("good.st", VALID_SMALL), Entry::Dangling("link.st")] },
        FileSet { name: "valid+sub-directory", entries: vec![f("good.st", VALID_SMALL), Entry::SubDir("sub")] },
        FileSet { name: "valid+non-st-extension", entries: vec![f("good.st", VALID_SMALL), f("notes.txt", "this is not structured text ?")] },
    ];
    // degenerate files: a few characters and nothing else (no line end), alone, beside a valid file, and two of them
    let tiny: [(&str, &str); 11] = [
        ("one-invalid-character", "?"),
        ("two-invalid-characters", "@@"),
        ("invalid-character-and-line-end", "?\n"),
        ("blank", " "),
        ("line-end", "\n"),
        ("semicolon", ";"),
        ("stray-keyword", "END_VAR"),
        ("opening-quote", "'"),
        ("opened-comment", "(*"),
        ("one-letter", "a"),
        ("one-digit", "1"),
    ];
    for (tname, text) in tiny {
        let leak = |s: String| -> &'static str { Box::leak(s.into_boxed_str()) };
        sets.push(FileSet { name: leak(format!("tiny:{}", tname)), entries: vec![f("a.st", text)] });
        sets.push(FileSet { name: leak(format!("valid+tiny:{}", tname)), entries: vec![f("good.st", VALID_SMALL), f("tiny.st", text)] });
        sets.push(FileSet { name: leak(format!("two-tiny:{}", tname)), entries: vec![f("t1.st", text), f("t2.st", text)] });
    }
    // an empty directory is the set with no entries
    sets.push(FileSet { name: "empty-directory", entries: vec![] });
    sets
}

#[derive(Clone, Debug)]
struct Presentation {
    /// human label: files[order], dir, mixed[...]
    label: String,
    class: &'static str,
    /// argument list: indices into entries (listed individually) or the directory marker
    args: Vec<Arg>,
    /// entries placed in the directory
    in_dir: Vec<usize>,
}

#[derive(Clone, Debug, PartialEq)]
enum Arg {
    Listed(usize),
    Dir,
}

fn presentations(set: &FileSet) -> Vec<Presentation> {
    let n = set.entries.len();
    let mut out = vec![];
    // a sub-directory entry can only be placed inside a directory
    let listable: Vec<usize> = (0..n).filter(|i| !matches!(set.entries[*i], Entry::SubDir(_))).collect();
    if listable.len() == n && n > 0 {
        for p in permutations(n) {
            out.push(Presentation {
                label: format!("files{:?}", p.iter().map(|i| set.entries[*i].name()).collect::<Vec<_>>()),
                class: "files",
                args: p.iter().map(|i| Arg::Listed(*i)).collect(),
                in_dir: vec![],
            });
        }
    }
    // everything in one directory (missing paths cannot be "in" a directory: they stay listed)
    let dirable: Vec<usize> = (0..n).filter(|i| !matches!(set.entries[*i], Entry::Missing(_))).collect();
    let must_list: Vec<usize> = (0..n).filter(|i| matches!(set.entries[*i], Entry::Missing(_))).collect();
    // every split of the dirable entries into "in the directory" / "listed", directory first or last
    let k = dirable.len();
    for mask in 0..(1u32 << k) {
        let in_dir: Vec<usize> = (0..k).filter(|b| mask >> b & 1 == 1).map(|b| dirable[b]).collect();
        let mut listed: Vec<usize> = (0..k).filter(|b| mask >> b & 1 == 0).map(|b| dirable[b]).collect();
        listed.extend(must_list.iter());
        if listed.iter().any(|i| matches!(set.entries[*i], Entry::SubDir(_))) {
            continue;
        }
        if in_dir.is_empty() && n > 0 {
            continue; // that is the plain file list above
        }
        let class = if listed.is_empty() { "dir" } else { "mixed" };
        for dir_first in [true, false] {
            if listed.is_empty() && !dir_first {
                continue;
            }
            let mut args: Vec<Arg> = listed.iter().map(|i| Arg::Listed(*i)).collect();
            if dir_first {
                args.insert(0, Arg::Dir);
            } else {
                args.push(Arg::Dir);
            }
            out.push(Presentation {
                label: format!(
                    "{}[dir{{{}}}{}{}]",
                    class,
                    in_dir.iter().map(|i| set.entries[*i].name()).collect::<Vec<_>>().join(","),
                    if listed.is_empty() { "" } else if dir_first { " then " } else { " after " },
                    listed.iter().map(|i| set.entries[*i].name()).collect::<Vec<_>>().join(",")
                ),
                class,
                args,
                in_dir: in_dir.clone(),
            });
        }
    }
    out
}

struct Materialised {
    args: Vec<String>,
    tmp: PathBuf,
}

fn materialise(set: &FileSet, p: &Presentation, scratch: &Scratch, n: usize) -> Materialised {
    let root = scratch.sub(&format!("case{}", n));
    let dir = root.join("dir");
    let listed = root.join("listed");
    let tmp = root.join("tmp");
    std::fs::create_dir_all(&dir).unwrap();
    std::fs::create_dir_all(&listed).unwrap();
    std::fs::create_dir_all(&tmp).unwrap();
    let place = |e: &Entry, base: &PathBuf| -> PathBuf {
        let path = base.join(e.name());
        match e {
            Entry::File(_, text) => {
                std::fs::write(&path, text).unwrap();
            }
            Entry::Missing(_) => {}
            Entry::Dangling(_) => {
                let _ = std::os::unix::fs::symlink(base.join("no-such-target.st"), &path);
            }
            Entry::SubDir(_) => {
                std::fs::create_dir_all(&path).unwrap();
                std::fs::write(path.join("inner.st"), VALID_SMALL).unwrap();
            }
        }
        path
    };
    for i in &p.in_dir {
        place(&set.entries[*i], &dir);
    }
    let mut args = vec![];
    for a in &p.args {
        match a {
            Arg::Dir => args.push(dir.to_string_lossy().to_string()),
            Arg::Listed(i) => args.push(place(&set.entries[*i], &listed).to_string_lossy().to_string()),
        }
    }
    Materialised { args, tmp }
}

#[derive(Clone, Debug)]
struct Reference {
    /// every readable file parses / tokenizes, and there is no I/O problem among the arguments
    all_parse: bool,
    all_tokenize: bool,
    io_problem: bool,
}

fn reference(set: &FileSet, p: &Presentation) -> Reference {
    let mut all_parse = true;
    let mut all_tokenize = true;
    let mut io_problem = false;
    let involved: Vec<usize> = p.in_dir.iter().cloned().chain(p.args.iter().filter_map(|a| if let Arg::Listed(i) = a { Some(*i) } else { None })).collect();
    for i in involved {
        match &set.entries[i] {
            Entry::File(name, text) => {
                let _ = name;
                let (_, diags) = front::tokenize(text, "f.st");
                if !diags.is_empty() {
                    all_tokenize = false;
                }
                if front::parse(text, "f.st").is_err() {
                    all_parse = false;
                }
            }
            Entry::Missing(_) | Entry::Dangling(_) | Entry::SubDir(_) => io_problem = true,
        }
    }
    Reference { all_parse, all_tokenize, io_problem }
}

struct CaseResult {
    set: &'static str,
    label: String,
    class: &'static str,
    check: CliRun,
    echo: CliRun,
    tokenize: CliRun,
    reference: Reference,
    args: Vec<String>,
}

fn triple(r: &CliRun) -> String {
    format!(
        "exit={},OK={},coded={}",
        match (r.exit, r.signal, r.timed_out) {
            (_, _, true) => "timeout".to_string(),
            (Some(c), _, _) => c.to_string(),
            (None, Some(s), _) => format!("signal{}", s),
            _ => "?".into(),
        },
        if r.has_ok_line { "yes" } else { "no" },
        if r.diags.is_empty() { "0" } else { ">0" }
    )
}

pub fn run(ctx: &mut Ctx) {
    let sets = catalogue();
    ctx.rule = "file-set catalogue (valid, interdependent, lexical/syntax/semantic faults, mixtures, empty, missing, dangling symlink, sub-directory, foreign extension, undecodable bytes, and each text file of the repository's compiler/resources/test as a one-file set) x every presentation (file list in every argument order; directory; every split into directory + listed files with the directory first or last) x {check, echo, tokenize} on the real binary; plus a sweep over the number of diagnostics (one file with k faults, k faulty files); distinct = distinct (set, presentation, command)".into();
    ctx.assumptions.push("the binary is built from /repo without the verif feature; each run has its own TMPDIR; stderr is parsed after stripping ANSI colour codes".into());
    ctx.assumptions.push("`check dir` is compared with `check <files>` by verdict and multiset of codes (positions and order are not compared)".into());
    let scratch = Scratch::new("c13");
    let mut cases: Vec<(usize, &FileSet, Presentation)> = vec![];
    for s in &sets {
        for p in presentations(s) {
            cases.push((cases.len(), s, p));
        }
    }
    ctx.bounds.insert("file_sets".into(), json!(sets.len()));
    ctx.bounds.insert("presentations".into(), json!(cases.len()));
    let results: Vec<CaseResult> = cases
        .par_iter()
        .map(|(n, s, p)| {
            let m = materialise(s, p, &scratch, *n);
            let mut run = |cmd: &str| {
                let mut a: Vec<&str> = vec![cmd];
                a.extend(m.args.iter().map(|x| x.as_str()));
                cli::run(&a, &m.tmp, Duration::from_secs(30))
            };
            let check = run("check");
            let echo = run("echo");
            let tokenize = run("tokenize");
            CaseResult { set: s.name, label: p.label.clone(), class: p.class, check, echo, tokenize, reference: reference(s, p), args: m.args.clone() }
        })
        .collect();

    let total = results.len() as u64;
    for (i, r) in results.iter().enumerate() {
        ctx.evaluations += 3;
        ctx.transitions += 3;
        ctx.traces += 3;
        ctx.distinct(&format!("{}|{}", r.set, r.label));
        ctx.outcome(&format!("check {}", triple(&r.check)));
        let replay = json!({"set": r.set, "presentation": r.label, "args": r.args,
            "check": r.check.summary(), "echo_exit": r.echo.exit, "tokenize_exit": r.tokenize.exit,
            "stderr": crate::util::short(&cli::strip_ansi(&r.check.stderr), 600)});
        // (1) the triple is consistent
        let c = &r.check;
        let ok_exit = c.exit == Some(0);
        let consistent = if ok_exit { c.has_ok_line && c.diags.is_empty() } else { !c.has_ok_line && !c.diags.is_empty() };
        if c.crashed() {
            ctx.fail(&format!("{}/{}#check-crashed", r.set, r.class), &format!("`check` {} on {} {}", c.summary(), r.set, r.label), replay.clone());
        } else if !consistent {
            ctx.fail(&format!("{}/{}#{}", r.set, r.class, triple(c)), &format!("`check` on {} {}: {} — exit status, OK line and coded diagnostics disagree", r.set, r.label, triple(c)), replay.clone());
        }
        // (2) echo / tokenize exit 0 exactly when every file parses / tokenizes
        for (cmd, run, expect_ok) in [("echo", &r.echo, r.reference.all_parse && !r.reference.io_problem), ("tokenize", &r.tokenize, r.reference.all_tokenize && !r.reference.io_problem)] {
            if run.crashed() {
                ctx.fail(&format!("{}/{}#{}-crashed", r.set, r.class, cmd), &format!("`{}` {} on {} {}", cmd, run.summary(), r.set, r.label), replay.clone());
            } else if (run.exit == Some(0)) != expect_ok {
                ctx.fail(
                    &format!("{}/{}#{}-exit-{}-expected-{}", r.set, r.class, cmd, run.exit.unwrap_or(-1), if expect_ok { "0" } else { "nonzero" }),
                    &format!("`{}` on {} {} exits {:?}; every file {}: {}", cmd, r.set, r.label, run.exit, if cmd == "echo" { "parses" } else { "tokenizes" }, expect_ok),
                    replay.clone(),
                );
            }
        }
        if ctx.want_sample(i as u64, total) {
            ctx.sample(json!({"set": r.set, "presentation": r.label, "check": triple(&r.check), "echo_exit": r.echo.exit, "tokenize_exit": r.tokenize.exit}));
        }
    }
    // (1b) logging is no part of the contract: with -v … -vvvv before the command the exit status, the OK line and
    // the coded diagnostics are those of the quiet run (first presentation of every set, all three commands)
    {
        let mut firsts: Vec<&(usize, &FileSet, Presentation)> = vec![];
        let mut seen_sets = std::collections::BTreeSet::new();
        for c in &cases {
            if seen_sets.insert(c.1.name) {
                firsts.push(c);
            }
        }
        let levels = ["-v", "-vv", "-vvv", "-vvvv", "--verbose"];
        let jobs: Vec<(&(usize, &FileSet, Presentation), &str)> = firsts.iter().flat_map(|c| levels.iter().map(move |l| (*c, *l))).collect();
        let res: Vec<Vec<(String, String)>> = jobs
            .par_iter()
            .map(|((n, s, p), level)| {
                let m = materialise(s, p, &scratch, 1_000_000 + *n * 8 + levels.iter().position(|l| l == level).unwrap());
                let mut out = vec![];
                for cmd in ["check", "echo", "tokenize"] {
                    let mut quiet: Vec<&str> = vec![cmd];
                    quiet.extend(m.args.iter().map(|x| x.as_str()));
                    let mut loud: Vec<&str> = vec![level, cmd];
                    loud.extend(m.args.iter().map(|x| x.as_str()));
                    let q = cli::run(&quiet, &m.tmp, Duration::from_secs(30));
                    let l = cli::run(&loud, &m.tmp, Duration::from_secs(60));
                    let codes = |r: &CliRun| {
                        let mut c: Vec<String> = r.diags.iter().map(|d| d.code.clone()).collect();
                        c.sort();
                        c
                    };
                    if l.crashed() && !q.crashed() {
                        out.push((format!("verbose/{}/{}#crashed", s.name, cmd), format!("`{} {}` {} on {} ({}); the quiet run {}", level, cmd, l.summary(), s.name, p.label, q.summary())));
                    } else if l.exit != q.exit || (cmd == "check" && (l.has_ok_line != q.has_ok_line || codes(&l) != codes(&q))) {
                        out.push((
                            format!("verbose/{}/{}#differs", s.name, cmd),
                            format!("`{} {}` on {} ({}): exit {:?}, OK line {}, codes {:?}; the quiet run: exit {:?}, OK line {}, codes {:?}", level, cmd, s.name, p.label, l.exit, l.has_ok_line, codes(&l), q.exit, q.has_ok_line, codes(&q)),
                        ));
                    }
                }
                out
            })
            .collect();
        for (((_, s, p), level), fs) in jobs.iter().zip(res.iter()) {
            ctx.evaluations += 3;
            ctx.transitions += 6;
            ctx.traces += 6;
            ctx.distinct(&format!("verbose|{}|{}", s.name, level));
            for (k, w) in fs {
                ctx.fail(k, w, json!({"set": s.name, "presentation": p.label, "mode": "verbose", "level": level}));
            }
        }
        ctx.bounds.insert("verbosity".into(), json!(format!("{} file sets x {:?} x 3 commands", firsts.len(), levels)));
    }
    // (3) checking a directory is equivalent to checking the list of the files in it, and the
    // verdict does not depend on the presentation at all
    for s in &sets {
        let rs: Vec<&CaseResult> = results.iter().filter(|r| r.set == s.name).collect();
        if rs.is_empty() {
            continue;
        }
        let base = rs[0];
        for r in &rs[1..] {
            // with an I/O problem among the arguments (missing path, dangling link, sub-directory) the
            // problem code legitimately depends on whether the path was named or discovered: verdict only
            let io = r.reference.io_problem || base.reference.io_problem;
            let same = (r.check.exit == Some(0)) == (base.check.exit == Some(0)) && (io || r.check.codes() == base.check.codes());
            if !same {
                ctx.fail(
                    &format!("{}/presentation-changes-result/{}-vs-{}", s.name, base.class, r.class),
                    &format!("set {}: {} gives {} but {} gives {}", s.name, base.label, base.check.summary(), r.label, r.check.summary()),
                    json!({"set": s.name, "presentation": r.label, "args": r.args, "other_presentation": base.label, "other_args": base.args}),
                );
            }
        }
    }
    ctx.states = total;

    // (4) count sweep: the contract must not depend on how many diagnostics there are (an exit status
    // is 8 bits wide; counters and buffers have sizes). One file with k independent faults for every k
    // in 0..=520 and a few larger counts, per kind of fault; k faulty files in one directory for the
    // counts around 256 and 512.
    let mut sweep: Vec<(String, usize, String)> = vec![]; // (kind, k, text)
    let mut counts: Vec<usize> = (0..=520).collect();
    counts.extend([767, 768, 1023, 1024, 1025, 4096]);
    for &k in &counts {
        let mut t = String::from("TYPE\n");
        t.push_str("  Ok0 : INT(0..1);\n");
        for i in 0..k {
            t.push_str(&format!("  R{} : INT(10..1);\n", i));
        }
        t.push_str("END_TYPE\n");
        sweep.push(("semantic-faults-in-one-file".into(), k, t));
        let mut t = String::from("FUNCTION_BLOCK F\nVAR a : INT; END_VAR\n");
        for _ in 0..k {
            t.push_str("  a := 1; ?\n");
        }
        t.push_str("END_FUNCTION_BLOCK\n");
        sweep.push(("lexical-faults-in-one-file".into(), k, t));
    }
    let sweep_res: Vec<(usize, CliRun, CliRun)> = sweep
        .par_iter()
        .enumerate()
        .map(|(n, (_, _, text))| {
            let dir = scratch.sub(&format!("sw{}", n));
            let tmp = scratch.sub(&format!("swt{}", n));
            let path = dir.join("f.st");
            std::fs::write(&path, text).unwrap();
            let c = cli::run(&["check", path.to_str().unwrap()], &tmp, Duration::from_secs(60));
            let t = cli::run(&["tokenize", path.to_str().unwrap()], &tmp, Duration::from_secs(60));
            let _ = std::fs::remove_dir_all(&dir);
            (n, c, t)
        })
        .collect();
    for (n, c, t) in &sweep_res {
        let (kind, k, _) = &sweep[*n];
        ctx.evaluations += 2;
        ctx.transitions += 2;
        ctx.traces += 2;
        ctx.distinct(&format!("sweep|{}|{}", kind, k));
        let replay = json!({"mode":"count-sweep","kind":kind,"count":k,"check":c.summary()});
        let ok_exit = c.exit == Some(0);
        let consistent = if ok_exit { c.has_ok_line && c.diags.is_empty() } else { !c.has_ok_line && !c.diags.is_empty() };
        if c.crashed() || t.crashed() {
            ctx.fail(&format!("count-sweep/{}#crashed", kind), &format!("{} diagnostics expected: check {} tokenize {}", k, c.summary(), t.summary()), replay.clone());
        } else if !consistent || ok_exit != (*k == 0) {
            ctx.fail(&format!("count-sweep/{}#{}", kind, triple(c)), &format!("a file with {} faults: `check` gives {} (expected {})", k, triple(c), if *k == 0 { "exit 0 with OK" } else { "a non-zero exit status with diagnostics" }), replay.clone());
        }
        let lexical = kind.starts_with("lexical");
        if !t.crashed() && (t.exit == Some(0)) != (!lexical || *k == 0) {
            ctx.fail(&format!("count-sweep/{}#tokenize-exit-{}", kind, t.exit.unwrap_or(-1)), &format!("a file with {} faults: `tokenize` exits {:?}", k, t.exit), replay.clone());
        }
    }
    let mut dir_jobs = vec![];
    for k in [1usize, 2, 255, 256, 257, 511, 512, 513] {
        for listed in [false, true] {
            dir_jobs.push((k, listed));
        }
    }
    let dir_res: Vec<(usize, bool, CliRun)> = dir_jobs
        .par_iter()
        .map(|(k, listed)| {
            let dir = scratch.sub(&format!("swd{}-{}", k, listed));
            let tmp = scratch.sub(&format!("swdt{}-{}", k, listed));
            let mut args = vec!["check".to_string()];
            std::fs::write(dir.join("good.st"), "FUNCTION_BLOCK G\nVAR a : INT; END_VAR\n a := 1;\nEND_FUNCTION_BLOCK\n").unwrap();
            for i in 0..*k {
                let p = dir.join(format!("bad{:04}.st", i));
                std::fs::write(&p, format!("FUNCTION_BLOCK B{}\nVAR a : INT; END_VAR\n a := ;\nEND_FUNCTION_BLOCK\n", i)).unwrap();
                if *listed {
                    args.push(p.to_string_lossy().to_string());
                }
            }
            if *listed {
                args.push(dir.join("good.st").to_string_lossy().to_string());
            } else {
                args.push(dir.to_string_lossy().to_string());
            }
            let a: Vec<&str> = args.iter().map(|x| x.as_str()).collect();
            let r = cli::run(&a, &tmp, Duration::from_secs(120));
            let _ = std::fs::remove_dir_all(&dir);
            (*k, *listed, r)
        })
        .collect();
    for (k, listed, c) in &dir_res {
        ctx.evaluations += 1;
        ctx.transitions += 1;
        ctx.traces += 1;
        ctx.distinct(&format!("sweep-dir|{}|{}", k, listed));
        let consistent = c.exit != Some(0) && !c.has_ok_line && !c.diags.is_empty() && !c.crashed();
        if !consistent {
            ctx.fail(
                &format!("count-sweep/faulty-files-{}#{}", if *listed { "listed" } else { "in-a-directory" }, triple(c)),
                &format!("{} files with a syntax error and one valid file: `check` gives {}", k, c.summary()),
                json!({"mode":"count-sweep","kind": if *listed { "files-listed" } else { "files-in-directory" },"count":k}),
            );
        }
    }
    // (5) a syntax error whose offending token is long and ends in a multi-byte character (the message quotes it)
    let mut long_jobs = vec![];
    for pad in 30..=50usize {
        for ch in ["\u{e9}", "\u{1F600}", "\u{85}"] {
            for shape in ["string", "comment"] {
                long_jobs.push((pad, ch, shape));
            }
        }
    }
    let long_res: Vec<(usize, &str, &str, CliRun)> = long_jobs
        .par_iter()
        .map(|(pad, ch, shape)| {
            let body = format!("{}{}", "x".repeat(*pad), ch);
            let text = if *shape == "string" {
                format!("FUNCTION_BLOCK F\nVAR x : INT; END_VAR\n  x := 1 '{}';\nEND_FUNCTION_BLOCK\n", body)
            } else {
                format!("FUNCTION_BLOCK F\nVAR x : INT; END_VAR\n  x := INT(* {} *)#5;\nEND_FUNCTION_BLOCK\n", body)
            };
            let dir = scratch.sub(&format!("lt{}-{}-{}", pad, ch.escape_unicode(), shape));
            let tmp = scratch.sub(&format!("ltt{}-{}-{}", pad, ch.escape_unicode(), shape));
            let p = dir.join("f.st");
            std::fs::write(&p, text).unwrap();
            let r = cli::run(&["check", p.to_str().unwrap()], &tmp, Duration::from_secs(30));
            let _ = std::fs::remove_dir_all(&dir);
            (*pad, *ch, *shape, r)
        })
        .collect();
    for (pad, ch, shape, c) in &long_res {
        ctx.evaluations += 1;
        ctx.transitions += 1;
        ctx.traces += 1;
        ctx.distinct(&format!("long-token|{}|{}|{}", pad, ch.escape_unicode(), shape));
        let consistent = c.exit != Some(0) && !c.has_ok_line && !c.diags.is_empty() && !c.crashed();
        if !consistent {
            ctx.fail(
                &format!("long-offending-token/{}#{}", shape, triple(c)),
                &format!("a syntax error at a {} of {} characters ending in {}: `check` gives {}", shape, pad + 1, ch.escape_unicode(), c.summary()),
                json!({"mode":"count-sweep","kind":"long-token","count":pad}),
            );
        }
    }
    ctx.bounds.insert("count_sweep".into(), json!("k faults in one file for k = 0..520, 767, 768, 1023, 1024, 1025, 4096 (semantic: subrange limits; lexical: invalid character) through check and tokenize; k = 1, 2, 255..257, 511..513 faulty files as a directory and as a list"));
}

pub fn replay(case: &Value) -> Result<String, String> {
    if case["mode"] == json!("count-sweep") {
        let k = case["count"].as_u64().ok_or("count")? as usize;
        let kind = case["kind"].as_str().ok_or("kind")?;
        let scratch = Scratch::new("c13r");
        let dir = scratch.sub("d");
        let tmp = scratch.sub("t");
        let mut args = vec!["check".to_string()];
        if kind.starts_with("files") {
            for i in 0..k {
                let p = dir.join(format!("bad{:04}.st", i));
                std::fs::write(&p, format!("FUNCTION_BLOCK B{}\nVAR a : INT; END_VAR\n a := ;\nEND_FUNCTION_BLOCK\n", i)).unwrap();
                if kind == "files-listed" {
                    args.push(p.to_string_lossy().to_string());
                }
            }
            if kind != "files-listed" {
                args.push(dir.to_string_lossy().to_string());
            }
        } else {
            let mut t = String::new();
            if kind.starts_with("semantic") {
                t.push_str("TYPE\n  Ok0 : INT(0..1);\n");
                for i in 0..k {
                    t.push_str(&format!("  R{} : INT(10..1);\n", i));
                }
                t.push_str("END_TYPE\n");
            } else {
                t.push_str("FUNCTION_BLOCK F\nVAR a : INT; END_VAR\n");
                for _ in 0..k {
                    t.push_str("  a := 1; ?\n");
                }
                t.push_str("END_FUNCTION_BLOCK\n");
            }
            let p = dir.join("f.st");
            std::fs::write(&p, t).unwrap();
            args.push(p.to_string_lossy().to_string());
        }
        let a: Vec<&str> = args.iter().map(|x| x.as_str()).collect();
        let c = cli::run(&a, &tmp, Duration::from_secs(120));
        let ok_exit = c.exit == Some(0);
        let consistent = if ok_exit { c.has_ok_line && c.diags.is_empty() } else { !c.has_ok_line && !c.diags.is_empty() };
        return if consistent && ok_exit == (k == 0) && !c.crashed() { Ok(format!("consistent: {}", c.summary())) } else { Err(format!("{} faults: {}", k, c.summary())) };
    }
    // re-materialise the named set/presentation and re-judge the consistency triple
    let set_name = case["set"].as_str().ok_or("set")?;
    let label = case["presentation"].as_str().ok_or("presentation")?;
    let sets = catalogue();
    let s = sets.iter().find(|s| s.name == set_name).ok_or("unknown set")?;
    let p = presentations(s).into_iter().find(|p| p.label == label).ok_or("unknown presentation")?;
    let scratch = Scratch::new("c13r");
    let m = materialise(s, &p, &scratch, 0);
    let mut a: Vec<&str> = vec!["check"];
    a.extend(m.args.iter().map(|x| x.as_str()));
    let c = cli::run(&a, &m.tmp, Duration::from_secs(30));
    let ok_exit = c.exit == Some(0);
    let consistent = if ok_exit { c.has_ok_line && c.diags.is_empty() } else { !c.has_ok_line && !c.diags.is_empty() };
    let mut msgs = vec![];
    if c.crashed() || !consistent {
        msgs.push(format!("check: {}", triple(&c)));
    }
    let rf = reference(s, &p);
    for (cmd, expect_ok) in [("echo", rf.all_parse && !rf.io_problem), ("tokenize", rf.all_tokenize && !rf.io_problem)] {
        let mut a: Vec<&str> = vec![cmd];
        a.extend(m.args.iter().map(|x| x.as_str()));
        let r = cli::run(&a, &m.tmp, Duration::from_secs(30));
        if (r.exit == Some(0)) != expect_ok {
            msgs.push(format!("{}: exit {:?}, expected ok={}", cmd, r.exit, expect_ok));
        }
    }
    if let Some(other) = case["other_presentation"].as_str() {
        if let Some(p2) = presentations(s).into_iter().find(|p| p.label == other) {
            let m2 = materialise(s, &p2, &scratch, 1);
            let mut a2: Vec<&str> = vec!["check"];
            a2.extend(m2.args.iter().map(|x| x.as_str()));
            let c2 = cli::run(&a2, &m2.tmp, Duration::from_secs(30));
            if (c2.exit == Some(0)) != (c.exit == Some(0)) || c2.codes() != c.codes() {
                msgs.push(format!("presentations disagree: {} vs {}", c.summary(), c2.summary()));
            }
        }
    }
    if msgs.is_empty() {
        Ok(format!("contract holds: {}", c.summary()))
    } else {
        Err(msgs.join("; "))
    }
}
