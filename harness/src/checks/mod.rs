pub mod c07;
pub mod c11;
pub mod c12;
pub mod c15;
pub mod c13;
pub mod c14;
pub mod c01;
pub mod c08;
