pub mod c07;
