//! C10 — re-rendering round-trips: echo output parses back to the same library.
//!
//! Every C01 program the parser accepts (quick d<=1, thorough d<=2) plus the operator tables:
//! L1 = parse(s); r = render(L1); L2 = parse(r); L2 == L1 (repository PartialEq and projection π);
//! render(L2) == r. A systematic subset goes through `ironplcc echo` twice.

use crate::checks::c01::{cases_for, Attribution};
use crate::cli;
use crate::front;
use crate::gram::Case;
use crate::nt;
use crate::report::Ctx;
use crate::util::Scratch;
use ironplc_plc2plc::write_to_string;
use rayon::prelude::*;
use serde_json::{json, Value};
use std::collections::{BTreeMap, BTreeSet};
use std::time::Duration;

pub struct Judged {
    pub skipped: bool,
    pub sigs: BTreeSet<String>,
    pub detail: String,
    pub rendered: String,
}

pub fn judge_text(text: &str) -> Judged {
    let _w = crate::util::watch::enter(text);
    let mut j = Judged { skipped: false, sigs: BTreeSet::new(), detail: String::new(), rendered: String::new() };
    let l1 = match front::parse(text, "case.st") {
        Ok(l) => l,
        Err(_) => {
            j.skipped = true;
            return j;
        }
    };
    let r = match crate::util::catch(|| write_to_string(&l1)) {
        Err(p) => {
            j.sigs.insert(format!("render-panic@{}", p.loc));
            j.detail = format!("renderer panicked at {}: {}", p.loc, crate::util::short(&p.msg, 80));
            return j;
        }
        Ok(Err(ds)) => {
            j.sigs.insert(format!("render-error({})", ds.iter().map(|d| d.code.clone()).collect::<Vec<_>>().join("+")));
            j.detail = "write_to_string returned diagnostics".into();
            return j;
        }
        Ok(Ok(r)) => r,
    };
    j.rendered = r.clone();
    let l2 = match crate::util::catch(|| front::parse(&r, "case.st")) {
        Err(p) => {
            j.sigs.insert(format!("reparse-panic@{}", p.loc));
            j.detail = format!("parser panicked on the rendered text at {}", p.loc);
            return j;
        }
        Ok(Err(d)) => {
            let at: String = r.get(d.primary.location.start.min(r.len())..).unwrap_or("").chars().take(12).collect();
            // position-derived signature: the first word at the error position
            let word: String = at.split_whitespace().next().unwrap_or("<end>").chars().take(12).collect();
            let first = word.chars().next().unwrap_or(' ');
            let at_class = if first.is_ascii_digit() {
                "<number>".to_string()
            } else if word.chars().all(|c| c.is_ascii_alphanumeric() || c == '_') && !crate::lex::is_reserved(&word) {
                "<word>".to_string()
            } else {
                word
            };
            j.sigs.insert(format!("rendered-text-rejected({})@{}", d.code, at_class));
            j.detail = format!("rendered text is rejected: {} at {}..{} near {:?}; rendered: {}", d.code, d.primary.location.start, d.primary.location.end, at, crate::util::short(&r, 200));
            return j;
        }
        Ok(Ok(l)) => l,
    };
    let (p1, p2) = (nt::library_exact(&l1), nt::library_exact(&l2));
    if p1 != p2 {
        let d = nt::diff(&p1, &p2);
        for x in &d {
            j.sigs.insert(format!("reparsed-differs:{}", x.1));
        }
        j.detail = format!("{} ;; rendered: {}", d.iter().take(2).map(|x| format!("{}: {}", x.0, x.2)).collect::<Vec<_>>().join(" ;; "), crate::util::short(&r, 160));
        return j;
    }
    // The repository's PartialEq additionally distinguishes an empty body from an empty statement
    // list (`FunctionBlockBodyKind::Empty` vs `Statements([])`), which denote the same program; π is
    // the comparison that decides. PartialEq is consulted only to count such representation-only differences.
    let _representation_only_difference = l2 != l1;
    match write_to_string(&l2) {
        Ok(r2) if r2 == r => {}
        Ok(r2) => {
            j.sigs.insert("not-a-fixed-point".into());
            j.detail = format!("render(parse(render(L))) differs: {:?} vs {:?}", crate::util::short(&r, 100), crate::util::short(&r2, 100));
        }
        Err(_) => {
            j.sigs.insert("second-render-error".into());
        }
    }
    j
}

pub fn run(ctx: &mut Ctx) {
    let (mut cases, bound): (Vec<Case>, u32) = cases_for(ctx);
    // one program per literal of the C09 space (class label = group labels)
    for l in crate::checks::c09::literals() {
        // spelling variants of a literal (an underscore between digits) parse to the same library as the
        // original, so rendering them adds nothing
        if matches!(l.expect, crate::checks::c09::Expect::Reject(_)) || l.label.contains("underscore-between-digits") || l.label.starts_with("real/body") {
            continue;
        }
        cases.push(Case { group: "literal", labels: vec![l.label.clone()], lx: crate::checks::c09::program(&l), nt: crate::nt::NT::Nil });
    }
    ctx.rule = "every C01 program (deviation bound as given, plus operator tables) that the parser accepts: parse -> render -> parse -> compare (PartialEq and π) -> render again -> compare text; distinct = distinct program text".into();
    ctx.bounds.insert("deviation_bound".into(), json!(bound));
    ctx.assumptions.push("programs the parser rejects in the first place are counted and left to C01".into());
    let judged: Vec<Judged> = cases.par_iter().map(|c| judge_text(&c.text())).collect();
    // cardinality family (every list production with up to 1000 marked elements): the same round trip
    let cards = crate::gram::card::cases();
    let card_judged: Vec<Judged> = cards.par_iter().map(|c| judge_text(&c.text)).collect();
    // A production that fails at every size from 2 on fails for a structural reason that the main families
    // decide (and record); what this family adds is size dependence: a failure at a size above one that passes.
    let mut smallest_pass: BTreeMap<&str, usize> = BTreeMap::new();
    for (c, j) in cards.iter().zip(card_judged.iter()) {
        if !j.skipped && j.sigs.is_empty() && c.n >= 2 {
            let e = smallest_pass.entry(c.production).or_insert(c.n);
            *e = (*e).min(c.n);
        }
    }
    for (c, j) in cards.iter().zip(card_judged.iter()) {
        ctx.evaluations += 1;
        ctx.transitions += 3;
        ctx.distinct(&c.text);
        if j.skipped {
            ctx.outcome("cardinality: not accepted by the parser (C01)");
        } else if j.sigs.is_empty() {
            ctx.outcome("cardinality: round trip holds");
        } else if smallest_pass.get(c.production).map(|m| *m < c.n).unwrap_or(false) {
            ctx.outcome("cardinality: round trip depends on the number of elements");
            ctx.fail(&format!("cardinality/{}#round-trip-depends-on-the-number-of-elements", c.production), &format!("{} with {} elements (holds with {}) :: {}", c.production, c.n, smallest_pass[c.production], j.detail), json!({"text": c.text}));
        } else {
            ctx.outcome("cardinality: fails at every size (structural; decided by the main families)");
        }
    }
    let mut order: Vec<usize> = (0..cases.len()).collect();
    order.sort_by_key(|i| (cases[*i].labels.len(), *i));
    let mut attr = Attribution::relaxed();
    let mut skipped = 0u64;
    let total = cases.len() as u64;
    for (n, i) in order.iter().enumerate() {
        let (c, j) = (&cases[*i], &judged[*i]);
        if j.skipped {
            skipped += 1;
            continue;
        }
        ctx.evaluations += 1;
        ctx.transitions += 3;
        ctx.distinct(&c.text());
        if j.sigs.is_empty() {
            ctx.outcome("round-trips");
        } else {
            ctx.outcome(j.sigs.iter().next().map(|s| s.split(['(', ':', '@']).next().unwrap_or("?")).unwrap_or("?"));
            let key = attr.key_for(c.group, &c.labels, &j.sigs);
            ctx.fail(&key, &format!("{} :: {} :: {}", c.id(), crate::util::short(&c.text(), 140), j.detail), json!({"case": c.id(), "text": c.text()}));
        }
        if ctx.want_sample(n as u64, total) {
            ctx.sample(json!({"case": c.id(), "text": crate::util::short(&c.text(), 160), "rendered": crate::util::short(&j.rendered, 200)}));
        }
    }
    ctx.states = ctx.evaluations;
    ctx.extra.insert("programs_not_parsing_(left_to_C01)".into(), json!(skipped));

    // `ironplcc echo` conformance on a systematic subset: echo(file) == in-process render, echo(echo output) == echo output
    let stride = if ctx.tier.thorough() { 40 } else { 150 };
    let subset: Vec<&Case> = cases.iter().enumerate().filter(|(i, _)| i % stride == 0).map(|(_, c)| c).collect();
    let scratch = Scratch::new("c10");
    let conf: Vec<(String, Option<String>)> = subset
        .par_iter()
        .enumerate()
        .map(|(n, c)| {
            let text = c.text();
            let j = judge_text(&text);
            if j.skipped || !j.sigs.is_empty() {
                return (c.id(), None);
            }
            let dir = scratch.sub(&format!("e{}", n));
            let tmp = scratch.sub(&format!("t{}", n));
            let f1 = dir.join("a.st");
            std::fs::write(&f1, &text).unwrap();
            let r1 = cli::run(&["echo", f1.to_str().unwrap()], &tmp, Duration::from_secs(30));
            if r1.exit != Some(0) {
                return (c.id(), Some(format!("`echo` exits {:?} on a program that round-trips in-process", r1.exit)));
            }
            if r1.stdout != j.rendered {
                return (c.id(), Some(format!("`echo` prints {:?}, in-process rendering is {:?}", crate::util::short(&r1.stdout, 80), crate::util::short(&j.rendered, 80))));
            }
            let f2 = dir.join("b.st");
            std::fs::write(&f2, &r1.stdout).unwrap();
            let r2 = cli::run(&["echo", f2.to_str().unwrap()], &tmp, Duration::from_secs(30));
            if r2.exit != Some(0) || r2.stdout != r1.stdout {
                return (c.id(), Some(format!("`echo` of the echoed text exits {:?} and {} the same text", r2.exit, if r2.stdout == r1.stdout { "prints" } else { "does not print" })));
            }
            (c.id(), None)
        })
        .collect();
    for (id, r) in conf {
        ctx.traces += 1;
        if let Some(m) = r {
            ctx.fail("echo-binary-differs-from-in-process", &format!("{}: {}", id, m), json!({"case": id, "mode": "echo"}));
        }
    }
    ctx.extra.insert("echo_binary_replays".into(), json!(ctx.traces));
}

pub fn replay(case: &Value) -> Result<String, String> {
    let text = match case["text"].as_str() {
        Some(t) => t.to_string(),
        None => {
            let id = case["case"].as_str().ok_or("case")?;
            crate::gram::find_case(id).ok_or("unknown case")?.text()
        }
    };
    let j = judge_text(&text);
    if j.skipped {
        return Ok("program does not parse (left to C01)".into());
    }
    if j.sigs.is_empty() {
        Ok(format!("round-trips; rendered: {}", crate::util::short(&j.rendered, 120)))
    } else {
        Err(format!("{:?} :: {}", j.sigs, j.detail))
    }
}
