//! C09 — literals are read as the value IEC 61131-3 assigns them, or rejected.
//!
//! The structured literal space of the property is enumerated completely; each literal is placed in
//! `VAR x : T := <literal>; END_VAR` (addresses: `x AT <address> : BOOL`) and the constant node of the
//! parsed library is compared with the value computed by an independent exact evaluator.

use crate::front;
use crate::lex::*;
use crate::nt::{self, n, s, NT};
use crate::report::Ctx;
use rayon::prelude::*;
use serde_json::{json, Value};

#[derive(Clone, Debug)]
pub enum Expect {
    Value(NT),
    /// the value cannot be represented: the literal must be rejected with a diagnostic
    Reject(&'static str),
}

#[derive(Clone, Debug)]
pub struct Lit {
    /// class/feature label (finding key)
    pub label: String,
    pub type_text: &'static str,
    pub pieces: Vec<String>,
    pub expect: Expect,
    pub address: bool,
}

fn int_nt(v: u128, neg: bool, ty: Option<&str>) -> NT {
    n("Int", vec![("v", NT::I(v, neg)), ("type", ty.map(s).unwrap_or(NT::Nil))])
}

fn digits_in_base(mut v: u128, base: u32) -> String {
    if v == 0 {
        return "0".into();
    }
    let mut d = vec![];
    while v > 0 {
        d.push(std::char::from_digit((v % base as u128) as u32, base).unwrap().to_ascii_uppercase());
        v /= base as u128;
    }
    d.iter().rev().collect()
}

/// 2^128 in the given base (one more than u128::MAX)
fn two_pow_128(base: u32) -> String {
    match base {
        2 => format!("1{}", "0".repeat(128)),
        8 => format!("4{}", "0".repeat(42)),
        16 => format!("1{}", "0".repeat(32)),
        _ => "340282366920938463463374607431768211456".into(),
    }
}

fn magnitudes() -> Vec<(&'static str, u128)> {
    vec![
        ("0", 0),
        ("1", 1),
        ("i8max", 127),
        ("i8max+1", 128),
        ("u8max", 255),
        ("u8max+1", 256),
        ("i16max", 32767),
        ("i16max+1", 32768),
        ("u16max", 65535),
        ("u16max+1", 65536),
        ("i32max", (1u128 << 31) - 1),
        ("i32max+1", 1u128 << 31),
        ("u32max", (1u128 << 32) - 1),
        ("u32max+1", 1u128 << 32),
        ("i64max", (1u128 << 63) - 1),
        ("2^63", 1u128 << 63),
        ("u64max", (1u128 << 64) - 1),
        ("2^64", 1u128 << 64),
        ("2^127", 1u128 << 127),
        ("2^128-1", u128::MAX),
    ]
}

pub fn literals() -> Vec<Lit> {
    let mut out = vec![];
    let int_types = ["SINT", "INT", "DINT", "LINT", "USINT", "UINT", "UDINT", "ULINT"];
    // ---- integers
    for base in [10u32, 2, 8, 16] {
        for (mname, v) in magnitudes() {
            let body = digits_in_base(v, base);
            let tok = if base == 10 { body.clone() } else { format!("{}#{}", base, body) };
            // untyped
            out.push(Lit { label: format!("int/base{}/untyped", base), type_text: "LINT", pieces: vec![tok.clone()], expect: Expect::Value(int_nt(v, false, None)), address: false });
            // signs (base 10 only: signed_integer)
            if base == 10 {
                out.push(Lit { label: "int/base10/plus-sign".into(), type_text: "LINT", pieces: vec!["+".into(), tok.clone()], expect: Expect::Value(int_nt(v, false, None)), address: false });
                out.push(Lit { label: "int/base10/minus-sign".into(), type_text: "LINT", pieces: vec!["-".into(), tok.clone()], expect: Expect::Value(int_nt(v, true, None)), address: false });
            }
            // typed with each integer type for the small magnitudes, with LINT/ULINT for all
            for t in int_types {
                if v > 70000 && !matches!(t, "LINT" | "ULINT") {
                    continue;
                }
                out.push(Lit { label: format!("int/base{}/typed", base), type_text: "LINT", pieces: vec![t.into(), "#".into(), tok.clone()], expect: Expect::Value(int_nt(v, false, Some(t))), address: false });
                if base == 10 && matches!(t, "SINT" | "LINT") {
                    out.push(Lit { label: "int/base10/typed-minus-sign".into(), type_text: "LINT", pieces: vec![t.into(), "#".into(), "-".into(), tok.clone()], expect: Expect::Value(int_nt(v, true, Some(t))), address: false });
                }
            }
            // one underscore at every interior position (for four magnitudes)
            if matches!(mname, "u16max" | "i32max+1" | "u64max" | "2^128-1") && body.len() > 1 {
                for pos in 1..body.len() {
                    let b = format!("{}_{}", &body[..pos], &body[pos..]);
                    let tok = if base == 10 { b } else { format!("{}#{}", base, b) };
                    out.push(Lit { label: format!("int/base{}/underscore", base), type_text: "LINT", pieces: vec![tok], expect: Expect::Value(int_nt(v, false, None)), address: false });
                }
            }
            let _ = mname;
        }
        // 2^128: unrepresentable
        let big = two_pow_128(base);
        let tok = if base == 10 { big } else { format!("{}#{}", base, big) };
        out.push(Lit { label: format!("int/base{}/2^128", base), type_text: "LINT", pieces: vec![tok.clone()], expect: Expect::Reject("integer >= 2^128"), address: false });
        out.push(Lit { label: format!("int/base{}/2^128-typed", base), type_text: "LINT", pieces: vec!["ULINT".into(), "#".into(), tok], expect: Expect::Reject("integer >= 2^128"), address: false });
        // leading zeros
        let tok0 = if base == 10 { "007".to_string() } else { format!("{}#0011", base) };
        let v0 = if base == 10 { 7 } else { u128::from_str_radix("0011", base).unwrap() };
        out.push(Lit { label: format!("int/base{}/leading-zeros", base), type_text: "LINT", pieces: vec![tok0], expect: Expect::Value(int_nt(v0, false, None)), address: false });
    }
    // lower-case hex digits are not IEC (digits A-F), not generated.
    // ---- bit strings
    for t in ["BYTE", "WORD", "DWORD", "LWORD"] {
        for base in [10u32, 2, 8, 16] {
            for (_, v) in [("0", 0u128), ("u8max", 255), ("u16max", 65535), ("u32max", (1u128 << 32) - 1), ("u64max", (1u128 << 64) - 1), ("2^64", 1u128 << 64)] {
                let body = digits_in_base(v, base);
                let tok = if base == 10 { body } else { format!("{}#{}", base, body) };
                out.push(Lit {
                    label: format!("bits/base{}", base),
                    type_text: "LWORD",
                    pieces: vec![t.into(), "#".into(), tok],
                    expect: Expect::Value(n("Bits", vec![("v", NT::I(v, false)), ("type", s(t))])),
                    address: false,
                });
            }
        }
    }
    // booleans
    for (p, v) in [(vec!["TRUE"], true), (vec!["FALSE"], false), (vec!["BOOL", "#", "TRUE"], true), (vec!["BOOL", "#", "FALSE"], false), (vec!["BOOL", "#", "1"], true), (vec!["BOOL", "#", "0"], false)] {
        out.push(Lit { label: format!("bool/{}", p.join("")), type_text: "BOOL", pieces: p.iter().map(|x| x.to_string()).collect(), expect: Expect::Value(n("Bool", vec![("v", NT::B(v))])), address: false });
    }
    // ---- reals
    let reals: Vec<(&str, &str)> = vec![
        ("plain", "0.0"),
        ("plain", "1.5"),
        ("plain", "123.456"),
        ("plain", "0.001"),
        ("exp", "1.0E3"),
        ("exp-lower-e", "1.0e3"),
        ("exp-plus", "1.0E+3"),
        ("exp-minus", "1.0E-3"),
        ("exp-minus", "2.5e-10"),
        ("underscore", "1_0.2_5"),
        ("underscore-exp", "1.0E1_0"),
        ("max", "1.7976931348623157E308"),
        ("min-denormal", "4.9E-324"),
        ("many-digits", "3.14159265358979323846"),
        ("small-one-digit-mantissa", "2.0E-7"),
        ("small-one-digit-mantissa", "1.0E-9"),
        ("small-one-digit-mantissa", "9.0E-6"),
        ("small-fraction-mantissa", "2.5E-7"),
        ("large-integral", "1.0E16"),
        ("large-integral", "1.0E22"),
        ("large-fraction-mantissa", "1.5E20"),
        ("integral", "11.0"),
        ("overflow", "1.0E309"),
        ("overflow", "1.0E400"),
        ("overflow-plus", "1.0E+309"),
    ];
    for (cls, txt) in &reals {
        let norm: String = txt.chars().filter(|c| *c != '_').collect();
        let val: f64 = norm.parse().unwrap();
        for (sign, sname) in [("", ""), ("-", "/minus"), ("+", "/plus")] {
            for prefix in ["", "REAL", "LREAL"] {
                if !prefix.is_empty() && !sign.is_empty() && *cls != "plain" {
                    continue;
                }
                let mut pieces: Vec<String> = vec![];
                if !prefix.is_empty() {
                    pieces.push(prefix.into());
                    pieces.push("#".into());
                }
                if !sign.is_empty() {
                    pieces.push(sign.into());
                }
                pieces.push(txt.to_string());
                let v = if sign == "-" { -val } else { val };
                let expect = if val.is_infinite() {
                    Expect::Reject("real overflow")
                } else {
                    Expect::Value(n("Real", vec![("v", NT::F(v.to_bits())), ("type", if prefix.is_empty() { NT::Nil } else { s(prefix) })]))
                };
                out.push(Lit { label: format!("real/{}{}{}", cls, sname, if prefix.is_empty() { "" } else { "/typed" }), type_text: "LREAL", pieces, expect, address: false });
            }
        }
    }
    // ---- durations
    let units: [(&str, i128, u64); 5] = [("d", 86_400_000_000_000, 0), ("h", 3_600_000_000_000, 24), ("m", 60_000_000_000, 60), ("s", 1_000_000_000, 60), ("ms", 1_000_000, 1000)];
    let dur = |pieces: Vec<String>, ns: Option<i128>, label: String| -> Lit {
        // time::Duration holds i64 seconds: beyond that the value cannot be represented
        let expect = match ns {
            Some(v) if v.abs() / 1_000_000_000 <= i64::MAX as i128 => Expect::Value(n("Dur", vec![("ns", NT::D(v))])),
            _ => Expect::Reject("duration out of range"),
        };
        Lit { label, type_text: "TIME", pieces, expect, address: false }
    };
    for mask in 1u32..32 {
        let chosen: Vec<usize> = (0..5).filter(|i| mask >> i & 1 == 1).collect();
        let last = *chosen.last().unwrap();
        // value menus: per unit {1, max-1} for all; boundary values on the single-unit and two-unit forms
        let mut variants: Vec<(String, Vec<(usize, String)>)> = vec![];
        variants.push(("ones".into(), chosen.iter().map(|u| (*u, "1".to_string())).collect()));
        variants.push(("typical".into(), chosen.iter().enumerate().map(|(k, u)| (*u, format!("{}", 2 + k * 3))).collect()));
        if chosen.len() <= 2 {
            for (vn, f) in [("zero", 0u64), ("max-1", 1), ("max", 2), ("max+1", 3)] {
                let vals: Vec<(usize, String)> = chosen
                    .iter()
                    .map(|u| {
                        let maxv = if units[*u].2 == 0 { 1000 } else { units[*u].2 };
                        let v = match f {
                            0 => 0,
                            1 => maxv - 1,
                            2 => maxv,
                            _ => maxv + 1,
                        };
                        (*u, v.to_string())
                    })
                    .collect();
                variants.push((vn.to_string(), vals));
            }
        }
        // fraction on the last unit
        for frac in ["1.5", "0.25", "2.001", "0.5"] {
            let mut vals: Vec<(usize, String)> = chosen.iter().map(|u| (*u, "1".to_string())).collect();
            vals.last_mut().unwrap().1 = frac.to_string();
            variants.push((format!("fraction-on-{}", units[last].0), vals));
        }
        for (vname, vals) in variants {
            let mut ns: i128 = 0;
            for (u, v) in &vals {
                // exact rational arithmetic: value = int.frac ; frac has at most 3 digits here
                let (ip, fp) = match v.split_once('.') {
                    Some((a, b)) => (a.parse::<i128>().unwrap(), b.to_string()),
                    None => (v.parse::<i128>().unwrap(), String::new()),
                };
                ns += ip * units[*u].1;
                if !fp.is_empty() {
                    let num: i128 = fp.parse().unwrap();
                    let den: i128 = 10i128.pow(fp.len() as u32);
                    ns += num * units[*u].1 / den; // exact for the chosen fractions
                }
            }
            let unit_names: String = chosen.iter().map(|u| units[*u].0).collect::<Vec<_>>().join("");
            for (sep, sepname) in [(false, ""), (true, "/underscore-separated")] {
                if sep && chosen.len() == 1 {
                    continue;
                }
                for (prefix, neg) in [("T", false), ("TIME", false), ("T", true)] {
                    if (prefix == "TIME" || neg) && !(vname == "ones" || vname == "typical") {
                        continue;
                    }
                    let mut pieces: Vec<String> = vec![prefix.into(), "#".into()];
                    if neg {
                        pieces.push("-".into());
                    }
                    for (k, (u, v)) in vals.iter().enumerate() {
                        if k > 0 && sep {
                            pieces.push("_".into());
                        }
                        pieces.push(v.clone());
                        pieces.push(units[*u].0.into());
                    }
                    // every literal with two or more units shares one key: on the pinned tree the lexer reads
                    // `h30m` as one identifier, so all of them fail for the same reason
                    let label = if chosen.len() == 1 {
                        format!("duration/single-unit-{}/{}{}{}", unit_names, vname, sepname, if neg { "/negative" } else { "" })
                    } else {
                        "duration/multi-unit".to_string()
                    };
                    out.push(dur(pieces, Some(if neg { -ns } else { ns }), label));
                }
            }
        }
    }
    // large magnitudes
    for (u, _, _) in units.iter() {
        for (mname, v) in [("2^31", 1u128 << 31), ("2^63", 1u128 << 63), ("2^64", 1u128 << 64), ("10^16", 10u128.pow(16))] {
            let unit_ns = units.iter().find(|x| x.0 == *u).unwrap().1;
            let ns = (v as i128).checked_mul(unit_ns);
            out.push(dur(vec!["T".into(), "#".into(), v.to_string(), u.to_string()], ns, format!("duration/large/{}{}", mname, u)));
        }
    }
    // the length of the fraction is a dimension of its own: for every unit, fractions of 1 to 18 digits whose
    // only non-zero digit is the last one (1 or 5), runs of nines, and fractions followed by zeros. The value is
    // computed as an exact rational; what is no whole number of nanoseconds cannot be represented and is to
    // be rejected (never cut down), what is one is to be read exactly
    for (u, scale, _) in units.iter() {
        let mut fracs: Vec<String> = vec![];
        for k in 0..18usize {
            for d in ["1", "5"] {
                fracs.push(format!("{}{}", "0".repeat(k), d));
            }
            fracs.push("9".repeat(k + 1));
            fracs.push(format!("5{}", "0".repeat(k)));
            fracs.push(format!("25{}", "0".repeat(k)));
        }
        for whole in ["0", "1", "59"] {
            for f in &fracs {
                let num: i128 = f.parse().unwrap();
                let den: i128 = 10i128.pow(f.len() as u32);
                let prod = num * scale;
                let ns = if prod % den == 0 { Some(whole.parse::<i128>().unwrap() * scale + prod / den) } else { None };
                let sort = if ns.is_some() { "whole-nanoseconds" } else { "finer-than-a-nanosecond" };
                let lenclass = if f.len() <= 9 { "<=9" } else if f.len() <= 15 { "10..15" } else { ">15" };
                for neg in [false, true] {
                    if neg && whole != "0" {
                        continue;
                    }
                    let mut pieces: Vec<String> = vec!["T".into(), "#".into()];
                    if neg {
                        pieces.push("-".into());
                    }
                    pieces.push(format!("{}.{}", whole, f));
                    pieces.push(u.to_string());
                    let label = format!("duration/fraction-length/{}/digits{}/{}", u, lenclass, sort);
                    match ns {
                        Some(v) => out.push(dur(pieces, Some(if neg { -v } else { v }), label)),
                        None => out.push(Lit { label, type_text: "TIME", pieces, expect: Expect::Reject("finer than a nanosecond"), address: false }),
                    }
                }
            }
        }
    }
    // the largest whole number of each unit that a duration can hold (i64 seconds), one less, one more, each alone
    // and with fractions that stay inside or carry it past the end
    for (u, scale, _) in units.iter() {
        let unit_s = scale / 1_000_000_000;
        if unit_s == 0 {
            continue; // milliseconds: the whole part is bounded by the number type first (large/ family)
        }
        let w = (i64::MAX as i128) / unit_s;
        for whole in [w - 1, w, w + 1] {
            for frac in ["", "0", "5", "9", "25", "75", "999999999", "000000001"] {
                for neg in [false, true] {
                    let body = if frac.is_empty() { format!("{}", whole) } else { format!("{}.{}", whole, frac) };
                    let mut ns: Option<i128> = whole.checked_mul(*scale);
                    if !frac.is_empty() {
                        let num: i128 = frac.parse().unwrap();
                        let den: i128 = 10i128.pow(frac.len() as u32);
                        ns = match (ns, num.checked_mul(*scale)) {
                            (Some(a), Some(p)) if p % den == 0 => a.checked_add(p / den),
                            _ => None,
                        };
                        if num * scale % den != 0 {
                            // finer than a nanosecond: rejected for that reason
                            out.push(Lit { label: format!("duration/largest-whole-{}/finer-than-a-nanosecond", u), type_text: "TIME", pieces: vec!["T".into(), "#".into(), if neg { format!("-{}", body) } else { body.clone() }, u.to_string()], expect: Expect::Reject("finer than a nanosecond"), address: false });
                            continue;
                        }
                    }
                    let mut pieces: Vec<String> = vec!["T".into(), "#".into()];
                    if neg {
                        pieces.push("-".into());
                    }
                    pieces.push(body);
                    pieces.push(u.to_string());
                    out.push(dur(pieces, ns.map(|v| if neg { -v } else { v }), format!("duration/largest-whole-{}", u)));
                }
            }
        }
    }
    // every duration body up to length 5 over the characters a duration is made of, judged by a reference
    // recogniser written from B.1.2.3.1 (what is a duration has its exact value)
    {
        /// integer ::= digit {['_'] digit}; returns the digits without underscores
        fn integer(b: &[u8], i: &mut usize) -> Option<String> {
            let mut d = String::new();
            if *i >= b.len() || !b[*i].is_ascii_digit() {
                return None;
            }
            d.push(b[*i] as char);
            *i += 1;
            loop {
                if *i < b.len() && b[*i].is_ascii_digit() {
                    d.push(b[*i] as char);
                    *i += 1;
                } else if *i + 1 < b.len() && b[*i] == b'_' && b[*i + 1].is_ascii_digit() {
                    d.push(b[*i + 1] as char);
                    *i += 2;
                } else {
                    return Some(d);
                }
            }
        }
        /// (value in ns, number of units) of a duration body, None when it is no duration
        fn duration(body: &str) -> Option<(i128, usize)> {
            let b = body.as_bytes();
            let mut i = 0;
            let neg = b.first() == Some(&b'-');
            if neg {
                i = 1;
            }
            let unit_ns: [(&str, i128); 5] = [("d", 86_400_000_000_000), ("h", 3_600_000_000_000), ("m", 60_000_000_000), ("s", 1_000_000_000), ("ms", 1_000_000)];
            let mut next_unit = 0usize;
            let mut total: i128 = 0;
            let mut count = 0;
            loop {
                let whole = integer(b, &mut i)?;
                let mut frac = String::new();
                if i < b.len() && b[i] == b'.' {
                    i += 1;
                    frac = integer(b, &mut i)?;
                }
                // unit: "ms" before "m"
                let rest = &body[i..];
                let u = (next_unit..5).find(|u| {
                    let name = unit_ns[*u].0;
                    rest.starts_with(name) && !(name == "m" && rest.starts_with("ms"))
                })?;
                i += unit_ns[u].0.len();
                let scale = unit_ns[u].1;
                total = total.checked_add(whole.parse::<i128>().ok()?.checked_mul(scale)?)?;
                if !frac.is_empty() {
                    let num = frac.parse::<i128>().ok()?.checked_mul(scale)?;
                    let den = 10i128.checked_pow(frac.len() as u32)?;
                    if num % den != 0 {
                        return None; // finer than a nanosecond: not in this sweep
                    }
                    total = total.checked_add(num / den)?;
                }
                count += 1;
                next_unit = u + 1;
                if i == b.len() {
                    return Some((if neg { -total } else { total }, count));
                }
                if !frac.is_empty() {
                    return None; // only the last part may have a fraction
                }
                if b[i] == b'_' {
                    i += 1;
                }
                if next_unit >= 5 {
                    return None;
                }
            }
        }
        let alpha = ['1', '0', '5', '.', '_', '-', 'd', 'h', 'm', 's'];
        let mut level: Vec<String> = vec![String::new()];
        for _len in 0..5 {
            let mut next = Vec::with_capacity(level.len() * alpha.len());
            for b in &level {
                for a in alpha {
                    next.push(format!("{}{}", b, a));
                }
            }
            for body in &next {
                // bodies that end the literal early and continue with something else legal are not literals of
                // this sweep: the body must start with a digit or a sign
                if !(body.starts_with(|c: char| c.is_ascii_digit()) || body.starts_with('-')) {
                    continue;
                }
                // what is no duration is no literal: the property says nothing about it (C04 covers crashes)
                let (ns, label) = match duration(body) {
                    Some((v, 1)) => (Some(v), "duration/body-sweep"),
                    Some((v, _)) => (Some(v), "duration/multi-unit"),
                    None => continue,
                };
                out.push(dur(vec!["T".into(), "#".into(), body.clone()], ns, label.to_string()));
                // the same duration with a sign in front (a sweep of its own would need one more character)
                if !body.starts_with('-') {
                    out.push(dur(vec!["T".into(), "#".into(), format!("-{}", body)], ns.map(|v| -v), label.to_string()));
                }
            }
            level = next;
        }
    }
    // upper-case units and prefixes are covered by C08.
    // ---- time of day
    let tod = |h: u64, m: u64, sec: &str, label: &str, prefix: &str| -> Lit {
        let (si, frac) = match sec.split_once('.') {
            Some((a, b)) => (a.parse::<u64>().unwrap(), b.to_string()),
            None => (sec.parse::<u64>().unwrap(), String::new()),
        };
        let us: u128 = if frac.is_empty() { 0 } else { frac.parse::<u128>().unwrap() * 10u128.pow(6 - frac.len() as u32) };
        let valid = h < 24 && m < 60 && si < 60;
        let expect = if valid {
            Expect::Value(n("Tod", vec![("h", NT::I(h as u128, false)), ("m", NT::I(m as u128, false)), ("s", NT::I(si as u128, false)), ("us", NT::I(us, false))]))
        } else {
            Expect::Reject("time of day field out of range")
        };
        Lit { label: format!("tod/{}", label), type_text: "TIME_OF_DAY", pieces: vec![prefix.into(), "#".into(), format!("{:02}", h), ":".into(), format!("{:02}", m), ":".into(), sec.to_string()], expect, address: false }
    };
    for prefix in ["TOD", "TIME_OF_DAY"] {
        out.push(tod(0, 0, "00", "min", prefix));
        out.push(tod(23, 59, "59", "max", prefix));
        out.push(tod(12, 30, "15", "typical", prefix));
    }
    out.push(tod(24, 0, "00", "hour=max+1", "TOD"));
    out.push(tod(25, 0, "00", "hour=max+2", "TOD"));
    out.push(tod(12, 60, "00", "minute=max+1", "TOD"));
    out.push(tod(12, 30, "60", "second=max+1", "TOD"));
    out.push(tod(12, 30, "300", "second=300", "TOD"));
    out.push(tod(12, 30, "256", "second=256", "TOD"));
    out.push(tod(300, 0, "00", "hour=300", "TOD"));
    out.push(tod(12, 30, "15.5", "fractional-second", "TOD"));
    out.push(tod(12, 30, "15.250", "fractional-second", "TOD"));
    out.push(tod(12, 30, "59.999999", "fractional-second-micro", "TOD"));
    // every fraction of one to six digits with a single non-zero digit, and a few mixed ones
    for digits in 1..=6usize {
        for pos in 0..digits {
            let f: String = (0..digits).map(|i| if i == pos { '5' } else { '0' }).collect();
            out.push(tod(12, 30, &format!("15.{}", f), "fractional-second-digits", "TOD"));
        }
    }
    for f in ["0625", "1234", "123456", "000001", "100001", "909090"] {
        out.push(tod(12, 30, &format!("15.{}", f), "fractional-second-digits", "TOD"));
    }
    // ---- dates
    let days_in = |y: u64, m: u64| -> u64 {
        match m {
            1 | 3 | 5 | 7 | 8 | 10 | 12 => 31,
            4 | 6 | 9 | 11 => 30,
            2 => {
                if (y % 4 == 0 && y % 100 != 0) || y % 400 == 0 {
                    29
                } else {
                    28
                }
            }
            _ => 0,
        }
    };
    let date_valid = |y: u64, m: u64, d: u64| (1..=12).contains(&m) && d >= 1 && d <= days_in(y, m) && y <= 9999;
    let date = |y: u64, m: u64, d: u64, label: &str, prefix: &str| -> Lit {
        let expect = if date_valid(y, m, d) {
            Expect::Value(n("Date", vec![("y", NT::I(y as u128, false)), ("m", NT::I(m as u128, false)), ("d", NT::I(d as u128, false))]))
        } else {
            Expect::Reject("date field out of range")
        };
        Lit { label: format!("date/{}", label), type_text: "DATE", pieces: vec![prefix.into(), "#".into(), format!("{:04}", y), "-".into(), format!("{:02}", m), "-".into(), format!("{:02}", d)], expect, address: false }
    };
    for prefix in ["D", "DATE"] {
        out.push(date(2021, 6, 15, "typical", prefix));
        out.push(date(1970, 1, 1, "min-fields", prefix));
        out.push(date(9999, 12, 31, "max-fields", prefix));
    }
    out.push(date(2021, 0, 15, "month=0", "D"));
    out.push(date(2021, 13, 15, "month=max+1", "D"));
    out.push(date(2021, 6, 0, "day=0", "D"));
    out.push(date(2021, 6, 31, "day=max+1(30-day month)", "D"));
    out.push(date(2021, 1, 32, "day=max+1(31-day month)", "D"));
    out.push(date(2020, 2, 29, "leap-day-valid", "D"));
    out.push(date(2021, 2, 29, "leap-day-invalid", "D"));
    out.push(date(1900, 2, 29, "leap-day-century-invalid", "D"));
    out.push(date(2000, 2, 29, "leap-day-400-valid", "D"));
    out.push(date(2021, 300, 1, "month=300", "D"));
    out.push(date(2021, 6, 300, "day=300", "D"));
    // ---- date and time
    let dt = |y: u64, mo: u64, d: u64, h: u64, mi: u64, sec: &str, label: &str, prefix: &str| -> Lit {
        let (si, frac) = match sec.split_once('.') {
            Some((a, b)) => (a.parse::<u64>().unwrap(), b.to_string()),
            None => (sec.parse::<u64>().unwrap(), String::new()),
        };
        let us: u128 = if frac.is_empty() { 0 } else { frac.parse::<u128>().unwrap() * 10u128.pow(6 - frac.len() as u32) };
        let valid = date_valid(y, mo, d) && h < 24 && mi < 60 && si < 60;
        let expect = if valid {
            Expect::Value(n(
                "Dt",
                vec![
                    ("y", NT::I(y as u128, false)),
                    ("mo", NT::I(mo as u128, false)),
                    ("d", NT::I(d as u128, false)),
                    ("h", NT::I(h as u128, false)),
                    ("m", NT::I(mi as u128, false)),
                    ("s", NT::I(si as u128, false)),
                    ("us", NT::I(us, false)),
                ],
            ))
        } else {
            Expect::Reject("date and time field out of range")
        };
        Lit {
            label: format!("dt/{}", label),
            type_text: "DATE_AND_TIME",
            pieces: vec![prefix.into(), "#".into(), format!("{:04}", y), "-".into(), format!("{:02}", mo), "-".into(), format!("{:02}", d), "-".into(), format!("{:02}", h), ":".into(), format!("{:02}", mi), ":".into(), sec.to_string()],
            expect,
            address: false,
        }
    };
    for prefix in ["DT", "DATE_AND_TIME"] {
        out.push(dt(2021, 6, 15, 12, 30, "15", "typical", prefix));
        out.push(dt(9999, 12, 31, 23, 59, "59", "max-fields", prefix));
    }
    out.push(dt(2021, 13, 15, 12, 30, "15", "month=max+1", "DT"));
    out.push(dt(2021, 2, 29, 12, 30, "15", "leap-day-invalid", "DT"));
    out.push(dt(2021, 6, 15, 24, 30, "15", "hour=max+1", "DT"));
    out.push(dt(2021, 6, 15, 12, 60, "15", "minute=max+1", "DT"));
    out.push(dt(2021, 6, 15, 12, 30, "60", "second=max+1", "DT"));
    out.push(dt(2021, 6, 15, 12, 30, "300", "second=300", "DT"));
    out.push(dt(2021, 6, 15, 12, 30, "15.5", "fractional-second", "DT"));
    for f in ["05", "005", "0625", "1234", "123456", "000001", "999999"] {
        out.push(dt(2021, 6, 15, 12, 30, &format!("15.{}", f), "fractional-second-digits", "DT"));
    }
    // ---- every field value: the fields of a time of day, a date and a date-and-time swept over their whole
    // range and one or two values beyond it, written with and without leading zeros
    for h in 0..=25u64 {
        for m in 0..=61u64 {
            for sec in 0..=61u64 {
                // the complete cube for the padded form; the unpadded form on the planes through a corner
                out.push(tod(h, m, &format!("{:02}", sec), "field-sweep", "TOD"));
                if (h < 2 || m < 2 || sec < 2) && (h < 10 || m < 10 || sec < 10) {
                    let mut l = tod(h, m, &format!("{}", sec), "field-sweep/no-leading-zeros", "TOD");
                    l.pieces = vec!["TOD".into(), "#".into(), format!("{}", h), ":".into(), format!("{}", m), ":".into(), format!("{}", sec)];
                    out.push(l);
                }
            }
        }
    }
    for y in [1u64, 4, 100, 400, 1600, 1900, 1970, 1999, 2000, 2023, 2024, 2100, 2400, 9999] {
        for m in 0..=13u64 {
            for d in 0..=32u64 {
                out.push(date(y, m, d, "field-sweep", "D"));
                if m < 10 || d < 10 {
                    let mut l = date(y, m, d, "field-sweep/no-leading-zeros", "D");
                    l.pieces = vec!["D".into(), "#".into(), format!("{}", y), "-".into(), format!("{}", m), "-".into(), format!("{}", d)];
                    out.push(l);
                }
            }
        }
    }
    for y in [2023u64, 2024] {
        for mo in 0..=13u64 {
            for d in [0u64, 1, 28, 29, 30, 31, 32] {
                for h in [0u64, 23, 24] {
                    for mi in [0u64, 59, 60] {
                        for sec in ["00", "59", "60", "59.999999"] {
                            out.push(dt(y, mo, d, h, mi, sec, "field-sweep", "DT"));
                        }
                    }
                }
            }
        }
    }
    // ---- magnitudes that are a valid value plus a power of two (what a narrowing conversion would turn into a
    // valid value): every field of a time of day, a date and a date-and-time
    for k in [8u32, 16, 32, 63, 64, 127] {
        let big = |v: u128| -> String { format!("{}", (1u128 << k) + v) };
        let mk = |label: &str, type_text: &'static str, pieces: Vec<String>| Lit { label: format!("{}/field=valid+2^{}", label, k), type_text, pieces, expect: Expect::Reject("field out of range"), address: false };
        for (h, m, sec) in [(big(12), "30".to_string(), "15".to_string()), ("12".to_string(), big(30), "15".to_string()), ("12".to_string(), "30".to_string(), big(15)), (big(0), big(0), big(0))] {
            out.push(mk("tod", "TIME_OF_DAY", vec!["TOD".into(), "#".into(), h.clone(), ":".into(), m.clone(), ":".into(), sec.clone()]));
            out.push(mk("dt", "DATE_AND_TIME", vec!["DT".into(), "#".into(), "2021".into(), "-".into(), "06".into(), "-".into(), "15".into(), "-".into(), h, ":".into(), m, ":".into(), sec]));
        }
        for (y, m, d) in [(big(2021), "06".to_string(), "15".to_string()), ("2021".to_string(), big(6), "15".to_string()), ("2021".to_string(), "06".to_string(), big(15)), (big(1), big(1), big(1))] {
            if k == 8 && m == "06" && d == "15" {
                continue; // 2021 + 256 is a year like any other
            }
            out.push(mk("date", "DATE", vec!["D".into(), "#".into(), y.clone(), "-".into(), m.clone(), "-".into(), d.clone()]));
            out.push(mk("dt", "DATE_AND_TIME", vec!["DT".into(), "#".into(), y, "-".into(), m, "-".into(), d, "-".into(), "12".into(), ":".into(), "30".into(), ":".into(), "15".into()]));
        }
    }
    // ---- every digit: each digit character in each base, alone and after another digit; a digit the base
    // does not have makes the text something that is no integer literal (it must not come out as a value)
    for base in [2u32, 8, 10, 16] {
        for dch in "0123456789ABCDEF".chars() {
            let dv = dch.to_digit(16).unwrap();
            if base == 10 && dv >= 10 {
                continue; // `A` alone is an identifier, `1A` is covered by the lexical-structure texts of C08
            }
            for (shape, body) in [("alone", format!("{}", dch)), ("second", format!("1{}", dch)), ("first", format!("{}0", dch)), ("after-underscore", format!("1_{}", dch))] {
                let tok = if base == 10 { body.clone() } else { format!("{}#{}", base, body) };
                let expect = if dv < base {
                    Expect::Value(int_nt(u128::from_str_radix(&body.replace('_', ""), base).unwrap(), false, None))
                } else {
                    Expect::Reject("digit not in the base")
                };
                out.push(Lit { label: format!("int/base{}/every-digit/{}{}", base, shape, if dv < base { "" } else { "/digit-not-in-base" }), type_text: "LINT", pieces: vec![tok], expect, address: false });
            }
        }
    }
    // ---- strings
    for (label, body) in [("empty", ""), ("ascii", "hello world"), ("other-quote", "say \"hi\""), ("two-byte", "Z\u{e4}hler"), ("three-byte", "5 \u{20ac}"), ("four-byte", "\u{1F600} ok"), ("punctuation", "a;b:=c(*d*)")] {
        for prefix in [false, true] {
            let mut p: Vec<String> = vec![];
            if prefix {
                p.push("STRING".into());
                p.push("#".into());
            }
            p.push(format!("'{}'", body));
            out.push(Lit { label: format!("string/single/{}{}", label, if prefix { "/typed" } else { "" }), type_text: "STRING", pieces: p, expect: Expect::Value(n("Str", vec![("v", s(body))])), address: false });
        }
    }
    for (label, body) in [("empty", ""), ("ascii", "hello"), ("other-quote", "it's"), ("two-byte", "\u{fc}ber"), ("four-byte", "\u{1F600}")] {
        for prefix in [false, true] {
            let mut p: Vec<String> = vec![];
            if prefix {
                p.push("WSTRING".into());
                p.push("#".into());
            }
            p.push(format!("\"{}\"", body));
            out.push(Lit { label: format!("string/double/{}{}", label, if prefix { "/typed" } else { "" }), type_text: "WSTRING", pieces: p, expect: Expect::Value(n("Str", vec![("v", s(body))])), address: false });
        }
    }
    // ---- reals: every body up to length 6 over 0 1 5 . E e + - _ that is a real literal of B.1.2.1
    // (integer '.' integer [exponent], integer = digit {['_'] digit}); the value is the nearest f64 of the text
    {
        fn integer(b: &[u8]) -> bool {
            !b.is_empty() && b[0].is_ascii_digit() && b[b.len() - 1].is_ascii_digit() && b.iter().all(|c| c.is_ascii_digit() || *c == b'_') && !b.windows(2).any(|w| w == b"__")
        }
        fn real(b: &[u8]) -> bool {
            let dot = match b.iter().position(|c| *c == b'.') {
                Some(d) => d,
                None => return false,
            };
            if !integer(&b[..dot]) {
                return false;
            }
            let rest = &b[dot + 1..];
            match rest.iter().position(|c| *c == b'E' || *c == b'e') {
                None => integer(rest),
                Some(e) => {
                    let exp = &rest[e + 1..];
                    let exp = if exp.first() == Some(&b'+') || exp.first() == Some(&b'-') { &exp[1..] } else { exp };
                    integer(&rest[..e]) && integer(exp)
                }
            }
        }
        let alpha: [u8; 9] = [b'0', b'1', b'5', b'.', b'E', b'e', b'+', b'-', b'_'];
        let mut level: Vec<Vec<u8>> = vec![vec![]];
        for _len in 0..6 {
            let mut next = Vec::with_capacity(level.len() * alpha.len());
            for b in &level {
                for a in alpha {
                    // a literal begins with a digit
                    if b.is_empty() && !a.is_ascii_digit() {
                        continue;
                    }
                    let mut v = b.clone();
                    v.push(a);
                    next.push(v);
                }
            }
            for body in &next {
                if !real(body) {
                    continue;
                }
                let text = String::from_utf8(body.clone()).unwrap();
                let norm: String = text.chars().filter(|c| *c != '_').collect();
                let val: f64 = norm.parse().unwrap();
                let expect = if val.is_infinite() { Expect::Reject("real overflow") } else { Expect::Value(n("Real", vec![("v", NT::F(val.to_bits())), ("type", NT::Nil)])) };
                let cls = if val == 0.0 && (text.contains('E') || text.contains('e')) {
                    "zero-with-exponent"
                } else if text.contains('_') {
                    "underscores"
                } else if text.contains('E') || text.contains('e') {
                    "exponent"
                } else {
                    "plain"
                };
                out.push(Lit { label: format!("real/body/{}", cls), type_text: "LREAL", pieces: vec![text], expect, address: false });
            }
            level = next;
        }
    }
    // ---- strings: the dollar escapes of IEC 61131-3 table 5/6 ($$ $' $" $L $N $P $R $T and hexadecimal character codes)
    let single_esc: Vec<(&str, &str, Option<&str>)> = vec![
        ("dollar", "a$$b", Some("a$b")),
        ("quote", "it$'s", Some("it's")),
        ("line-feed", "a$Lb", Some("a\nb")),
        ("newline", "a$Nb", Some("a\nb")),
        ("form-feed", "a$Pb", Some("a\u{c}b")),
        ("carriage-return", "a$Rb", Some("a\rb")),
        ("tab", "a$Tb", Some("a\tb")),
        ("lower-case-newline", "a$nb", Some("a\nb")),
        ("hex-code", "$41$42", Some("AB")),
        ("hex-code-lower", "$6a", Some("j")),
        ("at-end", "ab$$", Some("ab$")),
        ("quote-at-end", "ab$'", Some("ab'")),
        ("unknown-escape", "a$Zb", None),
        ("incomplete-hex-code", "a$4", None),
    ];
    for (label, body, value) in single_esc {
        out.push(Lit {
            label: "string/dollar-escape".to_string(),
            type_text: "STRING",
            pieces: vec![format!("'{}'", body)],
            expect: match value {
                Some(v) => Expect::Value(n("Str", vec![("v", s(v))])),
                None => Expect::Reject(Box::leak(format!("{} is not an escape of table 5", label).into_boxed_str())),
            },
            address: false,
        });
    }
    let double_esc: Vec<(&str, &str, Option<&str>)> = vec![
        ("dollar", "a$$b", Some("a$b")),
        ("double-quote", "say $\"hi$\"", Some("say \"hi\"")),
        ("newline", "a$Nb", Some("a\nb")),
        ("hex-code", "$0041$00E9", Some("A\u{e9}")),
        ("short-hex-code", "a$41", None),
    ];
    for (label, body, value) in double_esc {
        out.push(Lit {
            label: "string/dollar-escape".to_string(),
            type_text: "WSTRING",
            pieces: vec![format!("\"{}\"", body)],
            expect: match value {
                Some(v) => Expect::Value(n("Str", vec![("v", s(v))])),
                None => Expect::Reject(Box::leak(format!("{} is not an escape of table 6", label).into_boxed_str())),
            },
            address: false,
        });
    }
    // ---- strings: every body up to length 4 over the characters that matter for escapes, decoded by a reference decoder
    {
        fn decode(body: &[char], quote: char, hex: usize) -> Option<String> {
            let mut out = String::new();
            let mut i = 0;
            while i < body.len() {
                let c = body[i];
                if c == quote {
                    return None; // ends the literal early: what follows is not a constant
                }
                if c != '$' {
                    out.push(c);
                    i += 1;
                    continue;
                }
                let e = *body.get(i + 1)?;
                i += 2;
                match e {
                    '$' => out.push('$'),
                    '\'' => out.push('\''),
                    '"' => out.push('"'),
                    'L' | 'l' | 'N' | 'n' => out.push('\n'),
                    'P' | 'p' => out.push('\u{c}'),
                    'R' | 'r' => out.push('\r'),
                    'T' | 't' => out.push('\t'),
                    h if h.is_ascii_hexdigit() => {
                        let mut code = h.to_digit(16)?;
                        for _ in 1..hex {
                            let d = body.get(i)?.to_digit(16)?;
                            code = code * 16 + d;
                            i += 1;
                        }
                        out.push(char::from_u32(code)?);
                    }
                    _ => return None,
                }
            }
            Some(out)
        }
        let alpha: [char; 11] = ['$', '4', '1', 'N', 'a', '\u{e9}', '\u{1F600}', '\'', '"', '{', '}'];
        let mut level: Vec<Vec<char>> = vec![vec![]];
        for _len in 0..4 {
            let mut next = vec![];
            for b in &level {
                for a in alpha {
                    let mut v = b.clone();
                    v.push(a);
                    next.push(v);
                }
            }
            for body in &next {
                // only bodies with an escape and something else are new here
                if !body.contains(&'$') {
                    continue;
                }
                for (quote, hex, ty) in [('\'', 2usize, "STRING"), ('"', 4usize, "WSTRING")] {
                    let text: String = body.iter().collect();
                    let expect = match decode(body, quote, hex) {
                        Some(v) => Expect::Value(n("Str", vec![("v", s(&v))])),
                        None => Expect::Reject("the body is not a sequence of characters and escapes of table 5/6"),
                    };
                    out.push(Lit { label: "string/dollar-escape".to_string(), type_text: ty, pieces: vec![format!("{}{}{}", quote, text, quote)], expect, address: false });
                }
            }
            level = next;
        }
    }
    // ---- direct addresses
    for loc in ["I", "Q", "M"] {
        for (size, sname) in [("", "Nil"), ("X", "X"), ("B", "B"), ("W", "W"), ("D", "D"), ("L", "L")] {
            for comps in [vec![1u128], vec![7, 0], vec![1, 2, 3], vec![12], vec![10, 20], vec![100, 200, 300], vec![255], vec![0], vec![4294967295], vec![4294967296], vec![99999999999999999999]] {
                let text = format!("%{}{}{}", loc, size, comps.iter().map(|c| c.to_string()).collect::<Vec<_>>().join("."));
                let big = comps.iter().any(|c| *c > u32::MAX as u128);
                let expect = if big {
                    Expect::Reject("address component out of range")
                } else {
                    Expect::Value(n("Addr", vec![("loc", s(loc)), ("size", s(sname)), ("path", nt::l(comps.iter().map(|c| NT::I(*c, false)).collect()))]))
                };
                let digits = comps.iter().map(|c| c.to_string().len()).max().unwrap();
                out.push(Lit {
                    label: format!("address/{}-components/{}", comps.len(), if big { "component>u32".to_string() } else { format!("digits<={}", digits.min(3)) }),
                    type_text: "BOOL",
                    pieces: vec![text],
                    expect,
                    address: true,
                });
            }
        }
        out.push(Lit {
            label: "address/incomplete".into(),
            type_text: "BOOL",
            pieces: vec![format!("%{}*", loc)],
            expect: Expect::Value(n("Addr", vec![("loc", s(loc)), ("size", s("Unspecified")), ("path", nt::l(vec![]))])),
            address: true,
        });
    }
    // ---- every address body up to length 5 over the characters an address is made of, judged by a recogniser
    // written from B.1.4.1 / B.1.4.3: '%' (I|Q|M) [X|B|W|D|L] integer {'.' integer}, integer = digit {['_'] digit};
    // '%' (I|Q|M) '*'. What the recogniser takes has exactly its components; what it does not take is no address
    // and must not come out as one
    {
        fn recognise(body: &str) -> Option<(char, &'static str, Vec<u128>)> {
            let b = body.as_bytes();
            let loc = *b.first()? as char;
            if !matches!(loc, 'I' | 'Q' | 'M') {
                return None;
            }
            if &body[1..] == "*" {
                return Some((loc, "Unspecified", vec![]));
            }
            let mut i = 1;
            let size = match b.get(1).map(|c| *c as char) {
                Some('X') => "X",
                Some('B') => "B",
                Some('W') => "W",
                Some('D') => "D",
                Some('L') => "L",
                _ => "Nil",
            };
            if size != "Nil" {
                i = 2;
            }
            let mut comps = vec![];
            loop {
                // integer
                if i >= b.len() || !b[i].is_ascii_digit() {
                    return None;
                }
                let mut digits = String::new();
                digits.push(b[i] as char);
                i += 1;
                loop {
                    if i < b.len() && b[i].is_ascii_digit() {
                        digits.push(b[i] as char);
                        i += 1;
                    } else if i + 1 < b.len() && b[i] == b'_' && b[i + 1].is_ascii_digit() {
                        digits.push(b[i + 1] as char);
                        i += 2;
                    } else {
                        break;
                    }
                }
                comps.push(digits.parse::<u128>().ok()?);
                if i == b.len() {
                    return Some((loc, size, comps));
                }
                if b[i] != b'.' {
                    return None;
                }
                i += 1;
            }
        }
        let alpha = ['I', 'Q', 'X', 'W', '0', '1', '9', '.', '_', '*'];
        let mut level: Vec<String> = vec![String::new()];
        for _len in 0..5 {
            let mut next = Vec::with_capacity(level.len() * alpha.len());
            for b in &level {
                for a in alpha {
                    next.push(format!("{}{}", b, a));
                }
            }
            for body in &next {
                // the body starts with a location prefix (anything else after `AT %` is C04's and C08's business)
                if !body.starts_with(['I', 'Q']) {
                    continue;
                }
                let (expect, sort) = match recognise(body) {
                    Some((loc, size, comps)) if comps.iter().all(|c| *c <= u32::MAX as u128) => (Expect::Value(n("Addr", vec![("loc", s(&loc.to_string())), ("size", s(size)), ("path", nt::l(comps.iter().map(|c| NT::I(*c, false)).collect()))])), "address"),
                    Some(_) => (Expect::Reject("address component out of range"), "component>u32"),
                    None => (Expect::Reject("no address"), "no-address"),
                };
                out.push(Lit { label: format!("address/body-sweep/{}", sort), type_text: "BOOL", pieces: vec![format!("%{}", body)], expect, address: true });
            }
            level = next;
        }
    }
    // ---- one underscore between two adjacent digits, at every such position of every literal that has a value
    // (B.1.2.1: integer = digit {['_'] digit}; every numeric part of a real, duration, date, time or address is an integer)
    let mut extra = vec![];
    for l in &out {
        if l.label.starts_with("int/") || l.label.starts_with("bits/") || l.label.contains("underscore") || !matches!(l.expect, Expect::Value(_)) {
            continue;
        }
        // only literals that are read correctly are varied (a failing original is reported on its own)
        if judge(l).is_some() {
            continue;
        }
        let class = l.label.split('/').next().unwrap_or("literal").to_string();
        for (pi, piece) in l.pieces.iter().enumerate() {
            if piece.starts_with('\'') || piece.starts_with('"') {
                continue;
            }
            let b = piece.as_bytes();
            for i in 1..b.len() {
                if b[i - 1].is_ascii_digit() && b[i].is_ascii_digit() {
                    let mut pieces = l.pieces.clone();
                    pieces[pi] = format!("{}_{}", &piece[..i], &piece[i..]);
                    extra.push(Lit { label: format!("{}/underscore-between-digits", class), type_text: l.type_text, pieces, expect: l.expect.clone(), address: l.address });
                }
            }
        }
    }
    // the same literal text can arise from several originals
    let mut seen = std::collections::HashSet::new();
    for l in &out {
        seen.insert(l.pieces.join(""));
    }
    for l in extra {
        if seen.insert(l.pieces.join("")) {
            out.push(l);
        }
    }
    out
}

pub fn program(l: &Lit) -> Lx {
    let mut lx = Lx::new();
    if l.address {
        let incomplete = l.pieces[0].ends_with('*');
        lx.kw("PROGRAM").id("P").kw("VAR").id("x").kw("AT").addr(&l.pieces[0]).p(":").kw("BOOL").p(";").kw("END_VAR");
        let _ = incomplete;
        lx.kw("END_PROGRAM");
    } else {
        lx.kw("FUNCTION_BLOCK").id("F").kw("VAR").id("x").p(":").kw(l.type_text).op(":=");
        if l.pieces.len() == 1 {
            let t = &l.pieces[0];
            if t.starts_with('\'') || t.starts_with('"') {
                lx.str_(t);
            } else if t.chars().next().map(|c| c.is_ascii_digit()).unwrap_or(false) {
                lx.num(t);
            } else {
                lx.word(t);
            }
        } else {
            // hard-glued pieces; based numbers and reals stay one lexeme
            let n_p = l.pieces.len();
            for (i, t) in l.pieces.iter().enumerate() {
                let class = if t.starts_with('\'') || t.starts_with('"') {
                    Class::Str
                } else if t.chars().next().map(|c| c.is_ascii_digit()).unwrap_or(false) {
                    Class::Number
                } else {
                    match classify_piece(t) {
                        Class::Ident => Class::LitPart,
                        c => c,
                    }
                };
                let mut lexeme = Lexeme::new(t, class);
                if i + 1 < n_p {
                    lexeme.glue = Some(Glue::Hard);
                }
                lx.push(lexeme);
            }
        }
        lx.p(";").kw("END_VAR").kw("END_FUNCTION_BLOCK");
    }
    lx
}

/// Extracts the constant (or address) node of the one variable of the parsed program.
fn observed(lib: &ironplc_dsl::common::Library, address: bool) -> Option<NT> {
    let p = nt::library(lib);
    let NT::L(elems) = p else { return None };
    let NT::N(_, fields) = elems.first()? else { return None };
    let vars = fields.iter().find(|(k, _)| *k == "vars")?;
    let NT::L(vs) = &vars.1 else { return None };
    let NT::N(_, vf) = vs.first()? else { return None };
    if address {
        let name = &vf.iter().find(|(k, _)| *k == "name")?.1;
        let NT::N(_, nf) = name else { return None };
        Some(nf.iter().find(|(k, _)| *k == "at")?.1.clone())
    } else {
        let init = &vf.iter().find(|(k, _)| *k == "init")?.1;
        match init {
            NT::N("Ref", rf) => Some(rf.iter().find(|(k, _)| *k == "init")?.1.clone()),
            // `x : STRING := 'abc'` is kept as a string specification
            NT::N("StringSpec", sf) => Some(n("Str", vec![("v", sf.iter().find(|(k, _)| *k == "init")?.1.clone())])),
            other => Some(other.clone()),
        }
    }
}

pub fn judge(l: &Lit) -> Option<(String, String)> {
    let text = spell(&program(l).v).text;
    let r = crate::util::catch(|| front::parse(&text, "lit.st"));
    let lit_text: String = l.pieces.join("");
    match (r, &l.expect) {
        (Err(p), _) => Some((format!("panic@{}", p.loc), format!("`{}` panics at {}: {}", lit_text, p.loc, crate::util::short(&p.msg, 80)))),
        (Ok(Err(_)), Expect::Reject(_)) => None,
        (Ok(Err(d)), Expect::Value(v)) => Some(("rejected".into(), format!("`{}` is rejected with {} although its value {} is representable", lit_text, d.code, v.brief()))),
        (Ok(Ok(lib)), Expect::Reject(why)) => {
            let got = observed(&lib, l.address).map(|x| x.brief()).unwrap_or_else(|| "?".into());
            Some(("accepted-unrepresentable".into(), format!("`{}` must be rejected ({}) but is read as {}", lit_text, why, got)))
        }
        (Ok(Ok(lib)), Expect::Value(v)) => match observed(&lib, l.address) {
            Some(got) if got == *v => None,
            Some(got) => Some(("wrong-value".into(), format!("`{}` is read as {} instead of {}", lit_text, got.brief(), v.brief()))),
            None => Some(("no-constant-found".into(), format!("`{}`: the variable's initial value is not in the library", lit_text))),
        },
    }
}

pub fn run(ctx: &mut Ctx) {
    let lits = literals();
    ctx.rule = "the structured literal space: integers in base 2/8/10/16 x 20 magnitude classes x sign x type prefix x one underscore at every interior position; typed bit strings; booleans; reals (plain, exponent forms, underscores, extremes, overflow) x sign x prefix; durations for every non-empty ordered subset of {d,h,m,s,ms} x value menus (ones, typical, zero, max-1, max, max+1, fractions on the last unit) x T#/TIME# x sign x underscore separators, large magnitudes; TOD / DATE / DT with every field at min, max, max+1, fractional seconds, leap days; single- and double-byte strings (ASCII, other quote, 2/3/4-byte characters, typed, every dollar escape of tables 5 and 6); direct addresses {I,Q,M} x {none,X,B,W,D,L} x 1-3 components x 1-3 digits and beyond u32, incomplete addresses; distinct = distinct literal text".into();
    ctx.assumptions.push("expected values come from an exact evaluator in u128 / i128 nanoseconds / field validity tables; reals: nearest f64 of the underscore-free text (Rust str::parse), infinite = unrepresentable".into());
    ctx.assumptions.push("a duration is the exact sum of its parts whatever the magnitude of a part; it is unrepresentable only beyond i64 seconds".into());
    let res: Vec<Option<(String, String)>> = lits.par_iter().map(judge).collect();
    let total = lits.len() as u64;
    for (i, (l, r)) in lits.iter().zip(res.iter()).enumerate() {
        ctx.evaluations += 1;
        ctx.transitions += 1;
        ctx.distinct(&l.pieces.join(""));
        match r {
            None => ctx.outcome(if matches!(l.expect, Expect::Reject(_)) { "rejected as required" } else { "exact value" }),
            Some((sym, what)) => {
                ctx.outcome(sym.split('@').next().unwrap_or("?"));
                ctx.fail(&format!("{}#{}", l.label, sym), what, json!({"literal": l.pieces.join(""), "pieces": l.pieces, "label": l.label}));
            }
        }
        if ctx.want_sample(i as u64, total) {
            ctx.sample(json!({"literal": l.pieces.join(""), "label": l.label, "expected": match &l.expect { Expect::Value(v) => v.brief(), Expect::Reject(w) => format!("must be rejected: {}", w) }}));
        }
    }
    ctx.states = total;
    ctx.traces = total;
}

pub fn replay(case: &Value) -> Result<String, String> {
    let text = case["literal"].as_str().ok_or("literal")?;
    let l = literals().into_iter().find(|l| l.pieces.join("") == text).ok_or("literal is not in the enumerated space any more")?;
    match judge(&l) {
        None => Ok(format!("`{}` is read as required", text)),
        Some((k, w)) => Err(format!("{} :: {}", k, w)),
    }
}
