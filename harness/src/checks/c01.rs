//! C01 — parsing is faithful: the library returned denotes exactly the source program.
//!
//! Deviation-bounded exploration of the reference grammar (quick: <= 1 costly deviation per
//! production group, thorough: <= 2) plus the complete operator tables; every program is parsed
//! by the real parser and π(library) is compared with the tree the generator emitted.

use crate::front;
use crate::gram::{self, Case};
use crate::lex::spell;
use crate::nt;
use crate::report::Ctx;
use rayon::prelude::*;
use serde_json::{json, Value};
use std::collections::{BTreeMap, BTreeSet};

#[derive(Debug, Clone)]
pub struct Judged {
    /// signatures of what differs (empty = faithful)
    pub sigs: BTreeSet<String>,
    pub detail: String,
}

/// Parses the case and compares with the expected tree.
pub fn judge(c: &Case) -> Judged {
    let sp = spell(&c.lx.v);
    let r = crate::util::catch(|| front::parse(&sp.text, "case.st"));
    match r {
        Err(p) => Judged { sigs: [format!("panic@{}", p.loc)].into_iter().collect(), detail: format!("parser panicked at {}: {}", p.loc, crate::util::short(&p.msg, 80)) },
        Ok(Err(d)) => {
            // position-derived signature: the lexeme the primary label starts at
            let at = sp
                .items
                .iter()
                .find(|p| p.byte <= d.primary.location.start && d.primary.location.start < p.end_byte().max(p.byte + 1) && p.lex.is_some())
                .map(|p| match p.class {
                    crate::lex::Class::Ident => "<identifier>".to_string(),
                    crate::lex::Class::Number => "<number>".to_string(),
                    crate::lex::Class::Str => "<string>".to_string(),
                    _ => p.text.clone(),
                })
                .unwrap_or_else(|| "<end>".into());
            Judged { sigs: [format!("parse-error({})@{}", d.code, at)].into_iter().collect(), detail: format!("{} at {}..{}: {}", d.code, d.primary.location.start, d.primary.location.end, crate::util::short(&d.primary.message, 160)) }
        }
        Ok(Ok(lib)) => {
            let got = nt::library(&lib);
            let diffs = nt::diff(&c.nt, &got);
            Judged {
                sigs: diffs.iter().map(|d| d.1.clone()).collect(),
                detail: diffs.iter().take(3).map(|d| format!("{}: {}", d.0, d.2)).collect::<Vec<_>>().join(" ;; "),
            }
        }
    }
}

pub fn cases_for(ctx: &Ctx) -> (Vec<Case>, u32) {
    let bound = if ctx.tier.thorough() { 3 } else { 2 };
    (gram::generate(bound), bound)
}

/// Root-cause attribution (DESIGN section 5, "case identity and attribution"): failures are
/// processed by increasing number of deviations; a failure whose signatures are all explained by
/// already recorded failures of sub-label-sets in the same group is attributed to them.
pub struct Attribution {
    roots: Vec<(String, BTreeSet<String>, BTreeSet<String>, String, usize, BTreeSet<String>)>, // family, labels, sigs, key, number of raw labels, kinds of the top-level declarations the differences lie in
    /// relaxed: a failure is attributed to any failing case of the same family whose labels are a
    /// subset (signatures are not compared: the same lost construct shows as a syntax error in one
    /// context and as a shorter list in another)
    relaxed: bool,
}

impl Attribution {
    pub fn new() -> Attribution {
        Attribution { roots: vec![], relaxed: false }
    }
    pub fn relaxed() -> Attribution {
        Attribution { roots: vec![], relaxed: true }
    }
    /// Key of a recorded failure of the same family whose labels are a subset of `labels` and which has the signature `sig`.
    pub fn find_root(&self, group: &str, labels: &[String], sig: &str) -> Option<String> {
        let family = group.split('.').next().unwrap_or(group);
        let lset: BTreeSet<String> = labels.iter().cloned().collect();
        self.roots.iter().find(|(f, rl, rs, _, raw_n, _)| f == family && rl.is_subset(&lset) && *raw_n < labels.len() && rs.contains(sig)).map(|r| r.3.clone())
    }
    /// Returns the key to report for this failing case (an existing root key or a new one).
    pub fn key_for(&mut self, group: &str, labels: &[String], sigs: &BTreeSet<String>) -> String {
        // groups of one family (var.block / var.blocks, stmt / stmt.nest / stmt.nest2, type / type.block)
        // share sub-generators; block prefixes of labels are stripped so that the same deviation is recognised
        let family = group.split('.').next().unwrap_or(group).to_string();
        let norm_label = |l: &String| -> String {
            let b = l.as_bytes();
            if b.len() > 2 && b[0] == b'b' && b[1].is_ascii_digit() {
                l[2..].to_string()
            } else {
                l.clone()
            }
        };
        // a signature is compared by its last two path segments: the context above differs between hosts
        let norm_sig = |x: &String| -> String {
            match x.rsplit_once(':') {
                Some((path, kind)) if !x.starts_with("parse-error") && !x.starts_with("panic") => {
                    let segs: Vec<&str> = path.split('.').collect();
                    let tail = if segs.len() > 2 { segs[segs.len() - 2..].join(".") } else { path.to_string() };
                    format!("{}:{}", tail, kind)
                }
                _ => x.clone(),
            }
        };
        let lset: BTreeSet<String> = labels.iter().map(norm_label).collect();
        let nsigs: BTreeSet<String> = sigs.iter().map(norm_sig).collect();
        // `[0].Function.edge_vars:len` lies in a Function
        let tops: BTreeSet<String> = sigs
            .iter()
            .filter(|x| !x.contains("rejected") && !x.contains("panic") && !x.contains("error"))
            .filter_map(|x| x.split(['.', ':']).find(|t| t.chars().next().map(|c| c.is_ascii_uppercase()).unwrap_or(false)).map(|t| t.to_string()))
            .collect();
        let mut covered: BTreeSet<String> = BTreeSet::new();
        let mut first: Option<String> = None;
        for (f, rl, rs, key, raw_n, rtops) in &self.roots {
            // relaxed: the same lost construct is a syntax error in one context and a shorter list in another, so a
            // rejection of the rendered text meets any signature; two tree differences meet when they are at the same
            // place (last two path segments) or of the same sort inside the same kind of top-level declaration
            // (the renderer has one routine per kind)
            let rejected = |s: &BTreeSet<String>| s.iter().any(|x| x.contains("rejected") || x.contains("error") || x.contains("panic") || x.contains("fixed-point"));
            let sorts = |s: &BTreeSet<String>| -> BTreeSet<String> { s.iter().filter_map(|x| x.rsplit_once(':').map(|p| p.1.to_string())).collect() };
            let sig_ok = !rs.is_disjoint(&nsigs) || (self.relaxed && (rejected(rs) || rejected(&nsigs) || (!rtops.is_disjoint(&tops) && !sorts(rs).is_disjoint(&sorts(&nsigs)))));
            if *f == family && rl.is_subset(&lset) && sig_ok && (*raw_n < labels.len() || key.split('/').next() != Some(group)) {
                covered.extend(rs.iter().cloned());
                if first.is_none() {
                    first = Some(key.clone());
                }
            }
        }
        if let Some(k) = first {
            if self.relaxed || nsigs.is_subset(&covered) {
                return k;
            }
        }
        let key = format!("{}/{}#{}", group, if labels.is_empty() { "default".to_string() } else { labels.join(",") }, nsigs.iter().cloned().collect::<Vec<_>>().join("+"));
        self.roots.push((family, lset, nsigs, key.clone(), labels.len(), tops));
        key
    }
}

pub fn run(ctx: &mut Ctx) {
    let (cases, bound) = cases_for(ctx);
    ctx.rule = "programs = all derivations of the reference grammar (expr operand/call, statements, nesting, TYPE forms, VAR blocks, located/access variables, POUs, configuration, SFC) with at most `deviation_bound` costly deviations from the simplest member of each production group (cost-0 choices such as host kind, slot and class are always fully expanded), plus complete tables: all 16x16 operator pairs, all same-level triples, mixed-level triples, all bracketings of 3 and 4 operands, unary placements; plus every literal of the C09 space (its value is part of the tree); plus the cardinality family: 30 list productions x 24 sizes from 1 to 1000 (around 8, 16, 32, 64, 128, 256), every element marked; distinct = distinct program text".into();
    ctx.bounds.insert("deviation_bound".into(), json!(bound));
    ctx.assumptions.push("the expected tree is emitted by the generator from IEC 61131-3 Annex B (precedence table typed in from B.3.1), never by calling the parser; π erases DSL representation choices only (listed in DESIGN.md section 5)".into());
    ctx.assumptions.push("canonical 'tight' spelling: one blank between lexemes except at conventional tight positions; layout tolerance is C08's subject".into());
    let judged: Vec<Judged> = cases.par_iter().map(judge).collect();
    let mut order: Vec<usize> = (0..cases.len()).collect();
    order.sort_by_key(|i| (cases[*i].labels.len(), *i));
    let mut attr = Attribution::new();
    let mut per_group: BTreeMap<&str, (u64, u64, BTreeSet<u64>)> = BTreeMap::new();
    let total = cases.len() as u64;
    for (n, i) in order.iter().enumerate() {
        let c = &cases[*i];
        let j = &judged[*i];
        let text = c.text();
        ctx.evaluations += 1;
        ctx.transitions += 1;
        ctx.distinct(&text);
        let e = per_group.entry(c.group).or_insert((0, 0, BTreeSet::new()));
        e.0 += 1;
        e.2.insert(crate::util::fnv(&c.nt.brief()));
        if j.sigs.is_empty() {
            ctx.outcome("faithful");
        } else {
            e.1 += 1;
            ctx.outcome(if j.sigs.iter().any(|s| s.starts_with("parse-error")) { "rejected" } else if j.sigs.iter().any(|s| s.starts_with("panic")) { "panic" } else { "tree differs" });
            let key = attr.key_for(c.group, &c.labels, &j.sigs);
            ctx.fail(&key, &format!("{} :: {} :: {}", c.id(), crate::util::short(&text, 160), j.detail), json!({"case": c.id(), "group": c.group, "labels": c.labels, "text": text}));
        }
        if ctx.want_sample(n as u64, total) {
            ctx.sample(json!({"case": c.id(), "text": crate::util::short(&text, 200), "expected_tree": crate::util::short(&c.nt.brief(), 300)}));
        }
    }
    // keywords are case-insensitive for the parser (word keywords, word operators, and the words the grammar
    // matches by text: PRIORITY, INTERVAL, action qualifiers, literal prefixes, units): every program with at most
    // two deviations is parsed again with all of them, and every identifier, in lower case and must give the same tree up to letter case
    {
        use crate::lex::{spell, Class};
        let hosts: Vec<&gram::Case> = cases.iter().filter(|c| c.labels.len() <= 2).collect();
        let res: Vec<Option<(String, String)>> = hosts
            .par_iter()
            .map(|c| {
                let mut lx = c.lx.v.clone();
                let mut changed = false;
                for l in lx.iter_mut() {
                    let wordy = l.text.chars().all(|ch| ch.is_ascii_alphanumeric() || ch == '_') && l.text.chars().any(|ch| ch.is_ascii_uppercase());
                    if wordy && (l.class == Class::Keyword || l.class == Class::Op || l.class == Class::LitPart || l.class == Class::Ident) {
                        l.text = l.text.to_ascii_lowercase();
                        changed = true;
                    }
                }
                if !changed {
                    return None;
                }
                let text = spell(&lx).text;
                match crate::util::catch(|| front::parse(&text, "case.st")) {
                    Err(p) => Some((format!("panic@{}", p.loc), text)),
                    Ok(Err(d)) => {
                        // only programs whose canonical spelling parses are judged
                        if front::parse(&c.text(), "case.st").is_ok() {
                            Some((format!("rejected({})", d.code), text))
                        } else {
                            None
                        }
                    }
                    Ok(Ok(lib)) => {
                        if nt::diff(&c.nt.fold_case(), &nt::library(&lib).fold_case()).is_empty() || !nt::diff(&c.nt, &nt::library(&front::parse(&c.text(), "case.st").ok()?)).is_empty() {
                            None
                        } else {
                            Some(("tree-differs".to_string(), text))
                        }
                    }
                }
            })
            .collect();
        for (c, r) in hosts.iter().zip(res.iter()) {
            ctx.evaluations += 1;
            ctx.transitions += 1;
            if let Some((sym, text)) = r {
                ctx.fail(&format!("keywords-in-lower-case/{}#{}", c.group, sym), &format!("{} with every keyword in lower case: {} :: {}", c.id(), sym, crate::util::short(text, 160)), json!({"mode":"text","text": text}));
            } else {
                ctx.outcome("keywords in lower case: same tree");
            }
        }
    }
    // the parser's option: with `allow_c_style_comments` a `//` comment at the end of every line (and before the
    // first lexeme) leaves the tree the same as without the comments
    {
        let hosts: Vec<&gram::Case> = cases.iter().filter(|c| c.labels.len() <= 1).collect();
        let res: Vec<Option<(String, String)>> = hosts
            .par_iter()
            .map(|c| {
                let canon = c.text();
                let plain = front::parse(&canon, "case.st").ok()?;
                let text = format!("// c\n{} // (* c", canon.replace('\n', " // c\n"));
                match crate::util::catch(|| front::parse_allowing_c_style_comments(&text, "case.st")) {
                    Err(p) => Some((format!("panic@{}", p.loc), text)),
                    Ok(Err(d)) => Some((format!("rejected({})", d.code), text)),
                    Ok(Ok(lib)) if lib != plain || !nt::diff(&nt::library(&plain), &nt::library(&lib)).is_empty() => Some(("tree-differs".to_string(), text)),
                    Ok(Ok(_)) => None,
                }
            })
            .collect();
        for (c, r) in hosts.iter().zip(res.iter()) {
            ctx.evaluations += 1;
            ctx.transitions += 1;
            if let Some((sym, text)) = r {
                ctx.fail(&format!("line-comments-allowed-by-option/{}#{}", c.group, sym), &format!("{} with `//` comments and allow_c_style_comments: {} :: {}", c.id(), sym, crate::util::short(text, 160)), json!({"mode":"text-with-option","text": text}));
            } else {
                ctx.outcome("`//` comments with the option that allows them: same tree");
            }
        }
    }
    // commentary is no part of the program: every program with at most one deviation that parses, written again
    // with each member of the trivia menu and each comment shape (runs of 2 to 7 stars, stars before the closing and
    // after the opening parenthesis, parentheses and quotes inside) at every gap where trivia may stand, must give
    // the tree of the plain text — nothing between two comments may be taken for commentary
    {
        use crate::lex::{spell_with, Glue};
        let mut menu: Vec<(String, String)> = crate::corpus::trivia_menu().into_iter().filter(|(_, t)| t.contains("(*")).map(|(n, t)| (n.to_string(), t.to_string())).collect();
        for k in 2..=7usize {
            menu.push((format!("stars-{}", k), format!(" ({}) ", "*".repeat(k))));
        }
        for k in 1..=4usize {
            menu.push((format!("closing-stars-{}", k), format!(" (* x {}) ", "*".repeat(k))));
            menu.push((format!("opening-stars-{}", k), format!(" ({} x *) ", "*".repeat(k))));
            menu.push((format!("closing-stars-tight-{}", k), format!(" (*x{}) ", "*".repeat(k))));
        }
        for (n, t) in [("paren-inside", " (* ( ) *) "), ("quote-inside", " (* ' *) "), ("double-quote-inside", " (* \" *) "), ("dollar-inside", " (* $' *) "), ("slashes-inside", " (* // *) "), ("star-paren-star", " (* *)(* *) "), ("code-inside", " (* a := 1; *) "), ("keyword-inside", " (* END_VAR END_FUNCTION_BLOCK *) ")] {
            menu.push((n.to_string(), t.to_string()));
        }
        let hosts: Vec<&gram::Case> = cases.iter().filter(|c| c.labels.len() <= 1).collect();
        let jobs: Vec<(usize, usize)> = (0..hosts.len()).flat_map(|h| (0..menu.len()).map(move |m| (h, m))).collect();
        let res: Vec<Option<(String, String)>> = jobs
            .par_iter()
            .map(|(h, m)| {
                let c = hosts[*h];
                let plain = front::parse(&c.text(), "case.st").ok()?;
                let mt = &menu[*m].1;
                let text = spell_with(&c.lx.v, mt, mt, &|_, g| if g == Glue::Hard { String::new() } else { mt.clone() }).text;
                match crate::util::catch(|| front::parse(&text, "case.st")) {
                    Err(p) => Some((format!("panic@{}", p.loc), text)),
                    Ok(Err(d)) => Some((format!("rejected({})", d.code), text)),
                    Ok(Ok(lib)) if lib != plain || !nt::diff(&nt::library(&plain), &nt::library(&lib)).is_empty() => Some(("tree-differs".to_string(), text)),
                    Ok(Ok(_)) => None,
                }
            })
            .collect();
        for ((h, m), r) in jobs.iter().zip(res.iter()) {
            ctx.evaluations += 1;
            ctx.transitions += 1;
            if let Some((sym, text)) = r {
                ctx.fail(&format!("commentary-at-every-gap/{}/{}#{}", menu[*m].0, hosts[*h].group, sym), &format!("{} with `{}` at every gap: {} :: {}", hosts[*h].id(), menu[*m].1.trim(), sym, crate::util::short(text, 200)), json!({"mode":"text-vs-plain","text": text, "plain": hosts[*h].text()}));
            } else {
                ctx.outcome("commentary at every gap: same tree");
            }
        }
        ctx.bounds.insert("commentary_at_every_gap".into(), json!(format!("{} programs x {} comment shapes", hosts.len(), menu.len())));
    }
    // literals: the structured literal space of C09 (values are part of the tree the parser returns)
    let lits = crate::checks::c09::literals();
    let lit_res: Vec<Option<(String, String)>> = lits.par_iter().map(crate::checks::c09::judge).collect();
    for (l, r) in lits.iter().zip(lit_res.iter()) {
        ctx.evaluations += 1;
        ctx.transitions += 1;
        ctx.distinct(&format!("literal|{}", l.pieces.join("")));
        match r {
            None => ctx.outcome("literal: read as its value, or rejected when it has none"),
            Some((sym, what)) => {
                ctx.outcome("literal: wrong");
                ctx.fail(&format!("literal/{}#{}", l.label, sym), what, json!({"mode":"literal","label": l.label, "pieces": l.pieces}));
            }
        }
    }
    // cardinality family: every list production with N elements (markers must all be carried, once, in order)
    let cards = gram::card::cases();
    let card_res: Vec<Option<(String, String)>> = cards
        .par_iter()
        .map(|c| match crate::util::catch(|| front::parse(&c.text, "card.st")) {
            Err(p) => Some((format!("panic@{}", p.loc), format!("the parser panicked at {}", p.loc))),
            Ok(Err(d)) => Some((format!("rejected({})", d.code), format!("rejected with {} at {}..{}", d.code, d.primary.location.start, d.primary.location.end))),
            Ok(Ok(lib)) => gram::card::judge(c, &nt::library(&lib)),
        })
        .collect();
    let mut card_sizes_ok: BTreeMap<&str, Vec<usize>> = BTreeMap::new();
    for (c, r) in cards.iter().zip(card_res.iter()) {
        ctx.evaluations += 1;
        ctx.transitions += 1;
        ctx.distinct(&c.text);
        match r {
            None => {
                ctx.outcome("cardinality: every element carried once and in order");
                card_sizes_ok.entry(c.production).or_default().push(c.n);
            }
            Some((sym, what)) => {
                ctx.outcome("cardinality: failed");
                ctx.fail(&format!("cardinality/{}#{}", c.production, sym), &format!("{} with {} elements: {} :: {}", c.production, c.n, what, crate::util::short(&c.text, 120)), json!({"mode":"cardinality","production": c.production, "n": c.n}));
            }
        }
    }
    ctx.bounds.insert("cardinality_sizes".into(), json!(gram::card::SIZES));
    ctx.extra.insert("cardinality_sizes_passing".into(), json!(card_sizes_ok.iter().map(|(k, v)| (k.to_string(), json!(v.len()))).collect::<serde_json::Map<String, Value>>()));
    ctx.states = ctx.evaluations;
    ctx.traces = ctx.evaluations;
    ctx.extra.insert(
        "per_group".into(),
        json!(per_group.iter().map(|(g, (n, f, shapes))| (g.to_string(), json!({"programs": n, "failing": f, "distinct_tree_shapes": shapes.len()}))).collect::<serde_json::Map<String, Value>>()),
    );
}

pub fn replay(case: &Value) -> Result<String, String> {
    if case["mode"] == json!("text") {
        let text = case["text"].as_str().ok_or("text")?;
        return match front::parse(text, "case.st") {
            Ok(_) => Ok("the text parses".into()),
            Err(d) => Err(format!("rejected with {}", d.code)),
        };
    }
    if case["mode"] == json!("text-vs-plain") {
        let text = case["text"].as_str().ok_or("text")?;
        let plain = front::parse(case["plain"].as_str().ok_or("plain")?, "case.st").map_err(|d| format!("the plain text is rejected with {}", d.code))?;
        return match crate::util::catch(|| front::parse(text, "case.st")) {
            Err(p) => Err(format!("panicked at {}", p.loc)),
            Ok(Err(d)) => Err(format!("rejected with {}", d.code)),
            Ok(Ok(lib)) if lib != plain || !nt::diff(&nt::library(&plain), &nt::library(&lib)).is_empty() => Err("the tree differs from the tree of the plain text".into()),
            Ok(Ok(_)) => Ok("same tree as the plain text".into()),
        };
    }
    if case["mode"] == json!("text-with-option") {
        let text = case["text"].as_str().ok_or("text")?;
        return match crate::util::catch(|| front::parse_allowing_c_style_comments(text, "case.st")) {
            Err(p) => Err(format!("panicked at {}", p.loc)),
            Ok(Ok(_)) => Ok("the text parses with allow_c_style_comments".into()),
            Ok(Err(d)) => Err(format!("rejected with {}", d.code)),
        };
    }
    if case["mode"] == json!("literal") {
        let pieces: Vec<String> = case["pieces"].as_array().ok_or("pieces")?.iter().map(|x| x.as_str().unwrap_or("").to_string()).collect();
        let l = crate::checks::c09::literals().into_iter().find(|l| l.pieces == pieces).ok_or("literal is not in the enumerated space any more")?;
        return match crate::checks::c09::judge(&l) {
            None => Ok("read as its value".into()),
            Some((s, w)) => Err(format!("{}: {}", s, w)),
        };
    }
    if case["mode"] == json!("cardinality") {
        let (prod, n) = (case["production"].as_str().ok_or("production")?, case["n"].as_u64().ok_or("n")? as usize);
        let c = gram::card::cases().into_iter().find(|c| c.production == prod && c.n == n).ok_or("unknown cardinality case")?;
        return match front::parse(&c.text, "card.st") {
            Err(d) => Err(format!("rejected with {}", d.code)),
            Ok(lib) => match gram::card::judge(&c, &nt::library(&lib)) {
                None => Ok("every element carried once and in order".into()),
                Some((s, w)) => Err(format!("{}: {}", s, w)),
            },
        };
    }
    let id = case["case"].as_str().ok_or("case")?;
    let c = &gram::find_case(id).ok_or("case id is not in the enumerated space any more")?;
    let j = judge(c);
    if j.sigs.is_empty() {
        Ok(format!("faithful: {}", crate::util::short(&c.text(), 120)))
    } else {
        Err(format!("{:?} :: {}", j.sigs, j.detail))
    }
}
