//! C06 — the result is independent of declaration order, file partition, file order and run.
//!
//! For every subject set (valid cross-referencing sets and single-fault sets of <= 5 declarations):
//! all permutations of the declarations x all set partitions into <= 3 files x all file iteration
//! orders (H2 seam), through analyze(&[&Library]) and through FileBackedProject::semantic(); larger
//! sets through the stated family (adjacent transpositions, rotations, reversal x <= 2 files).
//! One orbit must give one result: the verdict, and for single-fault sets the set of (code, anchor).

use crate::cli;
use crate::explore::{permutations, set_partitions};
use crate::front;
use crate::report::Ctx;
use crate::util::Scratch;
use crate::world::{d, Decl};
use ironplcc::project::{FileBackedProject, Project};
use rayon::prelude::*;
use serde_json::{json, Value};
use std::collections::{BTreeMap, BTreeSet};
use std::time::Duration;

pub struct Subject {
    pub name: &'static str,
    pub decls: Vec<Decl>,
    pub single_fault: bool,
}

fn base_decls() -> BTreeMap<&'static str, Decl> {
    let mut m = BTreeMap::new();
    m.insert("Level", d("Level", "type", "TYPE Level : ( Low , High ) := Low ; END_TYPE"));
    m.insert("LevelAlias", d("LevelAlias", "type", "TYPE LevelAlias : Level ; END_TYPE"));
    m.insert("Alias2", d("Alias2", "type", "TYPE Alias2 : LevelAlias ; END_TYPE"));
    m.insert("Pt", d("Pt", "type", "TYPE Pt : STRUCT lv : Level ; n : INT ; END_STRUCT ; END_TYPE"));
    m.insert("Callee", d("Callee", "fb", "FUNCTION_BLOCK Callee VAR_INPUT a : INT ; END_VAR VAR_OUTPUT q : INT ; END_VAR q := a ; END_FUNCTION_BLOCK"));
    m.insert("User", d("User", "fb", "FUNCTION_BLOCK User VAR inst : Callee ; lv : Level := Low ; n : INT ; END_VAR inst ( a := n , q => n ) ; END_FUNCTION_BLOCK"));
    m.insert("AliasUser", d("AliasUser", "fb", "FUNCTION_BLOCK AliasUser VAR lv : LevelAlias := Low ; n : INT ; END_VAR n := 1 ; END_FUNCTION_BLOCK"));
    m.insert("Main", d("Main", "program", "PROGRAM Main VAR u : User ; END_VAR u ( ) ; END_PROGRAM"));
    m.insert("Fn", d("Fn", "function", "FUNCTION Fn : INT VAR_INPUT a : INT ; END_VAR Fn := a + 1 ; END_FUNCTION"));
    m.insert("FnUser", d("FnUser", "fb", "FUNCTION_BLOCK FnUser VAR n : INT ; END_VAR n := Fn ( n ) ; END_FUNCTION_BLOCK"));
    m.insert(
        "cfg",
        d("cfg", "configuration", "CONFIGURATION cfg VAR_GLOBAL CONSTANT G : INT := 1 ; END_VAR RESOURCE res ON PLC TASK t ( INTERVAL := T#100ms , PRIORITY := 1 ) ; PROGRAM p1 WITH t : Main ; END_RESOURCE END_CONFIGURATION"),
    );
    m.insert("ExtUser", d("ExtUser", "fb", "FUNCTION_BLOCK ExtUser VAR_EXTERNAL CONSTANT G : INT ; END_VAR VAR n : INT ; END_VAR n := G ; END_FUNCTION_BLOCK"));
    // faulty variants
    m.insert("Level!dup", d("Level", "type", "TYPE Level : ( Low , High , Low ) := Low ; END_TYPE"));
    m.insert("User!undeclared", d("User", "fb", "FUNCTION_BLOCK User VAR inst : Callee ; lv : Level := Low ; n : INT ; END_VAR inst ( a := n , q => n ) ; zz := 1 ; END_FUNCTION_BLOCK"));
    m.insert("User!enum-value", d("User", "fb", "FUNCTION_BLOCK User VAR inst : Callee ; lv : Level := Nope ; n : INT ; END_VAR inst ( a := n , q => n ) ; END_FUNCTION_BLOCK"));
    m.insert("User!bad-formal", d("User", "fb", "FUNCTION_BLOCK User VAR inst : Callee ; lv : Level := Low ; n : INT ; END_VAR inst ( nope := n ) ; END_FUNCTION_BLOCK"));
    m.insert("ExtUser!not-const", d("ExtUser", "fb", "FUNCTION_BLOCK ExtUser VAR_EXTERNAL G : INT ; END_VAR VAR n : INT ; END_VAR n := G ; END_FUNCTION_BLOCK"));
    m.insert("ExtUser!no-external", d("ExtUser", "fb", "FUNCTION_BLOCK ExtUser VAR n : INT ; END_VAR n := G ; END_FUNCTION_BLOCK"));
    m.insert("Rec1", d("Rec1", "fb", "FUNCTION_BLOCK Rec1 VAR r : Rec2 ; END_VAR END_FUNCTION_BLOCK"));
    m.insert("Rec2", d("Rec2", "fb", "FUNCTION_BLOCK Rec2 VAR r : Rec1 ; END_VAR END_FUNCTION_BLOCK"));
    m.insert("cfg!task", d("cfg", "configuration", "CONFIGURATION cfg VAR_GLOBAL CONSTANT G : INT := 1 ; END_VAR RESOURCE res ON PLC PROGRAM p1 WITH nope : Main ; END_RESOURCE END_CONFIGURATION"));
    m.insert("TypeRec1", d("TypeRec1", "type", "TYPE TypeRec1 : STRUCT a : TypeRec2 ; END_STRUCT ; END_TYPE"));
    m.insert("TypeRec2", d("TypeRec2", "type", "TYPE TypeRec2 : STRUCT b : TypeRec1 ; END_STRUCT ; END_TYPE"));
    m
}

/// Reference-kind table: one subject per way in which one top-level declaration can refer to another
/// (provider(s), consumer), plus a filler declaration that refers to nothing (it moves the others around
/// in every order the sort may produce). Faulty consumers carry one fault whose code and place must not move.
fn reference_kinds(thorough: bool) -> Vec<Subject> {
    let level = ("Level", "type", "TYPE Level : ( Low , High ) := Low ; END_TYPE");
    let rng = ("Rng", "type", "TYPE Rng : INT ( 0 .. 10 ) ; END_TYPE");
    let pt = ("Pt", "type", "TYPE Pt : STRUCT x : INT ; END_STRUCT ; END_TYPE");
    let arr = ("Arr", "type", "TYPE Arr : ARRAY [ 1 .. 3 ] OF INT ; END_TYPE");
    let str_t = ("Str", "type", "TYPE Str : STRING [ 10 ] ; END_TYPE");
    let a1 = ("A1", "type", "TYPE A1 : Level ; END_TYPE");
    let callee = ("Callee", "fb", "FUNCTION_BLOCK Callee VAR_INPUT a : INT ; END_VAR VAR_OUTPUT q : INT ; END_VAR q := a ; END_FUNCTION_BLOCK");
    let func = ("Fn", "function", "FUNCTION Fn : INT VAR_INPUT a : INT ; END_VAR Fn := a + 1 ; END_FUNCTION");
    let main = ("Main", "program", "PROGRAM Main VAR n : INT ; END_VAR n := 1 ; END_PROGRAM");
    let cfg = ("cfg", "configuration", "CONFIGURATION cfg VAR_GLOBAL CONSTANT G : INT := 1 ; END_VAR RESOURCE res ON PLC TASK t ( INTERVAL := T#100ms , PRIORITY := 1 ) ; PROGRAM p1 WITH t : Main ; END_RESOURCE END_CONFIGURATION");
    type D = (&'static str, &'static str, &'static str);
    // (label, providers, consumer, faulty)
    let table: Vec<(&'static str, Vec<D>, D, bool)> = vec![
        ("alias-of-enum", vec![level], ("C", "type", "TYPE C : Level ; END_TYPE"), false),
        ("alias-of-enum-with-default", vec![level], ("C", "type", "TYPE C : Level := High ; END_TYPE"), false),
        ("alias-of-alias", vec![level, a1], ("C", "type", "TYPE C : A1 ; END_TYPE"), false),
        ("struct-element-enum", vec![level], ("C", "type", "TYPE C : STRUCT lv : Level ; n : INT ; END_STRUCT ; END_TYPE"), false),
        ("struct-element-enum-default", vec![level], ("C", "type", "TYPE C : STRUCT lv : Level := High ; n : INT ; END_STRUCT ; END_TYPE"), false),
        ("struct-element-alias-default", vec![level, a1], ("C", "type", "TYPE C : STRUCT lv : A1 := High ; END_STRUCT ; END_TYPE"), false),
        ("struct-element-struct", vec![pt], ("C", "type", "TYPE C : STRUCT p : Pt ; END_STRUCT ; END_TYPE"), false),
        ("struct-element-subrange-default", vec![rng], ("C", "type", "TYPE C : STRUCT r : Rng := 3 ; END_STRUCT ; END_TYPE"), false),
        ("struct-element-array", vec![arr], ("C", "type", "TYPE C : STRUCT a : Arr ; END_STRUCT ; END_TYPE"), false),
        ("struct-element-string", vec![str_t], ("C", "type", "TYPE C : STRUCT s : Str ; END_STRUCT ; END_TYPE"), false),
        ("array-of-struct", vec![pt], ("C", "type", "TYPE C : ARRAY [ 1 .. 2 ] OF Pt ; END_TYPE"), false),
        ("array-of-enum", vec![level], ("C", "type", "TYPE C : ARRAY [ 1 .. 2 ] OF Level ; END_TYPE"), false),
        ("alias-of-subrange", vec![rng], ("C", "type", "TYPE C : Rng ; END_TYPE"), false),
        ("alias-of-struct", vec![pt], ("C", "type", "TYPE C : Pt ; END_TYPE"), false),
        ("struct-initialisation-type", vec![pt], ("C", "type", "TYPE C : Pt := ( x := 1 ) ; END_TYPE"), false),
        ("var-enum-default", vec![level], ("C", "fb", "FUNCTION_BLOCK C VAR lv : Level := High ; END_VAR lv := Low ; END_FUNCTION_BLOCK"), false),
        ("var-alias-default", vec![level, a1], ("C", "fb", "FUNCTION_BLOCK C VAR lv : A1 := High ; END_VAR lv := Low ; END_FUNCTION_BLOCK"), false),
        ("var-enum-typed-value", vec![level], ("C", "fb", "FUNCTION_BLOCK C VAR lv : Level := Level#High ; END_VAR lv := Low ; END_FUNCTION_BLOCK"), false),
        ("var-struct", vec![pt], ("C", "fb", "FUNCTION_BLOCK C VAR p : Pt ; END_VAR p.x := 1 ; END_FUNCTION_BLOCK"), false),
        ("var-struct-unused", vec![pt], ("C", "fb", "FUNCTION_BLOCK C VAR p : Pt ; n : INT ; END_VAR n := 1 ; END_FUNCTION_BLOCK"), false),
        ("var-array-unused", vec![arr], ("C", "fb", "FUNCTION_BLOCK C VAR a : Arr ; n : INT ; END_VAR n := 1 ; END_FUNCTION_BLOCK"), false),
        ("function-return-type-unused", vec![level], ("C", "function", "FUNCTION C : Level VAR_INPUT a : INT ; END_VAR a := 1 ; END_FUNCTION"), false),
        ("var-struct-initialised", vec![pt], ("C", "fb", "FUNCTION_BLOCK C VAR p : Pt := ( x := 1 ) ; END_VAR p.x := 2 ; END_FUNCTION_BLOCK"), false),
        ("var-array", vec![arr], ("C", "fb", "FUNCTION_BLOCK C VAR a : Arr ; END_VAR a [ 1 ] := 1 ; END_FUNCTION_BLOCK"), false),
        ("var-subrange-default", vec![rng], ("C", "fb", "FUNCTION_BLOCK C VAR r : Rng := 3 ; END_VAR r := 4 ; END_FUNCTION_BLOCK"), false),
        ("var-string-type", vec![str_t], ("C", "fb", "FUNCTION_BLOCK C VAR s : Str ; END_VAR s := 'a' ; END_FUNCTION_BLOCK"), false),
        ("fb-instance", vec![callee], ("C", "fb", "FUNCTION_BLOCK C VAR i : Callee ; n : INT ; END_VAR i ( a := n , q => n ) ; END_FUNCTION_BLOCK"), false),
        ("fb-instance-in-program", vec![callee], ("C", "program", "PROGRAM C VAR i : Callee ; n : INT ; END_VAR i ( a := n , q => n ) ; END_PROGRAM"), false),
        ("fb-as-input", vec![callee], ("C", "fb", "FUNCTION_BLOCK C VAR_IN_OUT i : Callee ; END_VAR VAR n : INT ; END_VAR n := 1 ; END_FUNCTION_BLOCK"), false),
        ("function-call", vec![func], ("C", "fb", "FUNCTION_BLOCK C VAR n : INT ; END_VAR n := Fn ( a := n ) ; END_FUNCTION_BLOCK"), false),
        ("function-calls-function", vec![func], ("C", "function", "FUNCTION C : INT VAR_INPUT a : INT ; END_VAR C := Fn ( a ) ; END_FUNCTION"), false),
        ("function-return-type", vec![level], ("C", "function", "FUNCTION C : Level VAR_INPUT a : INT ; END_VAR C := High ; END_FUNCTION"), false),
        ("function-input-type", vec![pt], ("C", "function", "FUNCTION C : INT VAR_INPUT p : Pt ; END_VAR C := p.x ; END_FUNCTION"), false),
        ("external-of-global", vec![main, cfg], ("C", "fb", "FUNCTION_BLOCK C VAR_EXTERNAL CONSTANT G : INT ; END_VAR VAR n : INT ; END_VAR n := G ; END_FUNCTION_BLOCK"), false),
        ("program-in-configuration", vec![main], ("C", "configuration", "CONFIGURATION C RESOURCE res ON PLC TASK t ( INTERVAL := T#100ms , PRIORITY := 1 ) ; PROGRAM p1 WITH t : Main ; END_RESOURCE END_CONFIGURATION"), false),
        ("global-of-enum-type", vec![level, main], ("C", "configuration", "CONFIGURATION C VAR_GLOBAL g : Level ; END_VAR RESOURCE res ON PLC PROGRAM p1 : Main ; END_RESOURCE END_CONFIGURATION"), false),
        ("global-of-struct-type", vec![pt, main], ("C", "configuration", "CONFIGURATION C VAR_GLOBAL g : Pt ; END_VAR RESOURCE res ON PLC PROGRAM p1 : Main ; END_RESOURCE END_CONFIGURATION"), false),
        // one fault in the consumer
        ("fault/alias-default-undeclared-value", vec![level], ("C", "type", "TYPE C : Level := Nope ; END_TYPE"), true),
        ("fault/struct-element-default-undeclared-value", vec![level], ("C", "type", "TYPE C : STRUCT lv : Level := Nope ; n : INT ; END_STRUCT ; END_TYPE"), true),
        ("fault/var-default-undeclared-value", vec![level], ("C", "fb", "FUNCTION_BLOCK C VAR lv : Level := Nope ; END_VAR lv := Low ; END_FUNCTION_BLOCK"), true),
        ("fault/var-alias-default-undeclared-value", vec![level, a1], ("C", "fb", "FUNCTION_BLOCK C VAR lv : A1 := Nope ; END_VAR lv := Low ; END_FUNCTION_BLOCK"), true),
        ("fault/global-unknown-type", vec![level, main], ("C", "configuration", "CONFIGURATION C VAR_GLOBAL g : Missing ; END_VAR RESOURCE res ON PLC PROGRAM p1 : Main ; END_RESOURCE END_CONFIGURATION"), true),
        ("fault/struct-element-unknown-type", vec![level], ("C", "type", "TYPE C : STRUCT lv : Level ; m : Missing ; END_STRUCT ; END_TYPE"), true),
        ("fault/var-unknown-type", vec![level], ("C", "fb", "FUNCTION_BLOCK C VAR lv : Level ; m : Missing ; END_VAR lv := Low ; END_FUNCTION_BLOCK"), true),
        ("fault/unknown-formal-of-instance", vec![callee], ("C", "fb", "FUNCTION_BLOCK C VAR i : Callee ; n : INT ; END_VAR i ( nope := n ) ; END_FUNCTION_BLOCK"), true),
        ("fault/undeclared-variable-beside-instance", vec![callee], ("C", "fb", "FUNCTION_BLOCK C VAR i : Callee ; n : INT ; END_VAR i ( a := n ) ; zz := 1 ; END_FUNCTION_BLOCK"), true),
        ("fault/external-not-constant", vec![main, cfg], ("C", "fb", "FUNCTION_BLOCK C VAR_EXTERNAL G : INT ; END_VAR VAR n : INT ; END_VAR n := G ; END_FUNCTION_BLOCK"), true),
        ("fault/undefined-task", vec![main], ("C", "configuration", "CONFIGURATION C RESOURCE res ON PLC PROGRAM p1 WITH nope : Main ; END_RESOURCE END_CONFIGURATION"), true),
        // a name that only another declaration declares locally (per-declaration state must not leak into the next one)
        ("fault/instance-declared-only-in-a-function", vec![callee, ("Holder", "function", "FUNCTION Holder : INT VAR_INPUT a : INT ; END_VAR VAR i : Callee ; END_VAR Holder := a ; END_FUNCTION")], ("C", "program", "PROGRAM C VAR n : INT ; END_VAR i ( a := n ) ; END_PROGRAM"), true),
        ("fault/instance-declared-only-in-another-function-block", vec![callee, ("Holder", "fb", "FUNCTION_BLOCK Holder VAR i : Callee ; n : INT ; END_VAR i ( a := n ) ; END_FUNCTION_BLOCK")], ("C", "program", "PROGRAM C VAR n : INT ; END_VAR i ( a := n ) ; END_PROGRAM"), true),
        ("fault/instance-declared-only-in-another-program", vec![callee, ("Holder", "program", "PROGRAM Holder VAR i : Callee ; n : INT ; END_VAR i ( a := n ) ; END_PROGRAM")], ("C", "fb", "FUNCTION_BLOCK C VAR n : INT ; END_VAR i ( a := n ) ; END_FUNCTION_BLOCK"), true),
        ("fault/variable-declared-only-in-a-function", vec![("Holder", "function", "FUNCTION Holder : INT VAR_INPUT zz : INT ; END_VAR Holder := zz ; END_FUNCTION")], ("C", "fb", "FUNCTION_BLOCK C VAR n : INT ; END_VAR n := zz ; END_FUNCTION_BLOCK"), true),
        ("fault/variable-declared-only-in-another-function-block", vec![("Holder", "fb", "FUNCTION_BLOCK Holder VAR zz : INT ; END_VAR zz := 1 ; END_FUNCTION_BLOCK")], ("C", "program", "PROGRAM C VAR n : INT ; END_VAR n := zz ; END_PROGRAM"), true),
        ("fault/variable-declared-only-in-another-program", vec![("Holder", "program", "PROGRAM Holder VAR zz : INT ; END_VAR zz := 1 ; END_PROGRAM")], ("C", "function", "FUNCTION C : INT VAR_INPUT a : INT ; END_VAR C := zz ; END_FUNCTION"), true),
        ("fault/constant-declared-only-in-another-function-block", vec![("Holder", "fb", "FUNCTION_BLOCK Holder VAR CONSTANT k : INT := 1 ; END_VAR VAR n : INT ; END_VAR n := k ; END_FUNCTION_BLOCK")], ("C", "fb", "FUNCTION_BLOCK C VAR n : INT ; END_VAR n := k ; END_FUNCTION_BLOCK"), true),
        ("fault/external-declared-only-in-another-function-block", vec![main, cfg, ("Holder", "fb", "FUNCTION_BLOCK Holder VAR_EXTERNAL CONSTANT G : INT ; END_VAR VAR n : INT ; END_VAR n := G ; END_FUNCTION_BLOCK")], ("C", "fb", "FUNCTION_BLOCK C VAR n : INT ; END_VAR n := G ; END_FUNCTION_BLOCK"), true),
        // the same fault in two unrelated declarations: both are reported, in every order
        ("fault/two-declarations-use-the-same-unknown-type", vec![level, ("Holder", "fb", "FUNCTION_BLOCK Holder VAR m : Missing ; n : INT ; END_VAR n := 1 ; END_FUNCTION_BLOCK")], ("C", "fb", "FUNCTION_BLOCK C VAR n : INT ; m : Missing ; END_VAR n := 2 ; END_FUNCTION_BLOCK"), true),
        ("fault/two-declarations-use-the-same-undeclared-variable", vec![("Holder", "fb", "FUNCTION_BLOCK Holder VAR n : INT ; END_VAR n := zz ; END_FUNCTION_BLOCK")], ("C", "program", "PROGRAM C VAR n : INT ; END_VAR n := zz ; END_PROGRAM"), true),
        ("fault/two-declarations-use-the-same-undeclared-enumeration-value", vec![level, ("Holder", "fb", "FUNCTION_BLOCK Holder VAR lv : Level := Nope ; END_VAR lv := Low ; END_FUNCTION_BLOCK")], ("C", "fb", "FUNCTION_BLOCK C VAR lv : Level := Nope ; END_VAR lv := Low ; END_FUNCTION_BLOCK"), true),
        // one global name in two configurations, constant in one of them only
        ("fault/global-constant-in-one-of-two-configurations", vec![main, cfg, ("cfg2", "configuration", "CONFIGURATION cfg2 VAR_GLOBAL G : INT := 2 ; END_VAR RESOURCE res ON PLC PROGRAM p1 : Main ; END_RESOURCE END_CONFIGURATION")], ("C", "fb", "FUNCTION_BLOCK C VAR_EXTERNAL G : INT ; END_VAR VAR n : INT ; END_VAR n := G ; END_FUNCTION_BLOCK"), true),
        ("fault/local-constant-with-the-name-of-an-external", vec![main, ("cfgp", "configuration", "CONFIGURATION cfgp VAR_GLOBAL G : INT := 2 ; END_VAR RESOURCE res ON PLC PROGRAM p1 : Main ; END_RESOURCE END_CONFIGURATION"), ("Holder", "fb", "FUNCTION_BLOCK Holder VAR CONSTANT G : INT := 1 ; END_VAR VAR n : INT ; END_VAR n := G ; END_FUNCTION_BLOCK")], ("C", "fb", "FUNCTION_BLOCK C VAR_EXTERNAL G : INT ; END_VAR VAR n : INT ; END_VAR n := G ; END_FUNCTION_BLOCK"), true),
        // the same declaration twice (each copy may be the whole content of its own file)
        ("fault/identical-function-block-twice", vec![("Twin", "fb", "FUNCTION_BLOCK Twin VAR n : INT ; END_VAR n := 1 ; END_FUNCTION_BLOCK")], ("Twin", "fb", "FUNCTION_BLOCK Twin VAR n : INT ; END_VAR n := 1 ; END_FUNCTION_BLOCK"), true),
        ("fault/identical-type-twice", vec![("Twin", "type", "TYPE Twin : ( A , B ) ; END_TYPE")], ("Twin", "type", "TYPE Twin : ( A , B ) ; END_TYPE"), true),
        ("fault/identical-function-twice", vec![("Twin", "function", "FUNCTION Twin : INT VAR_INPUT a : INT ; END_VAR Twin := a ; END_FUNCTION")], ("Twin", "function", "FUNCTION Twin : INT VAR_INPUT a : INT ; END_VAR Twin := a ; END_FUNCTION"), true),
        ("fault/identical-program-twice", vec![("Twin", "program", "PROGRAM Twin VAR n : INT ; END_VAR n := 1 ; END_PROGRAM")], ("Twin", "program", "PROGRAM Twin VAR n : INT ; END_VAR n := 1 ; END_PROGRAM"), true),
        ("fault/self-reference-through-provider", vec![("Pt", "type", "TYPE Pt : STRUCT c : C ; END_STRUCT ; END_TYPE")], ("C", "type", "TYPE C : STRUCT p : Pt ; END_STRUCT ; END_TYPE"), true),
    ];
    let filler_fb = ("Other", "fb", "FUNCTION_BLOCK Other VAR n : INT ; END_VAR n := 1 ; END_FUNCTION_BLOCK");
    let filler_ty = ("Unrelated", "type", "TYPE Unrelated : INT ( 0 .. 1 ) ; END_TYPE");
    let mut out = vec![];
    // every row twice: references spelled as declared, and spelled in upper case (identifiers are case-insensitive)
    let mut rows: Vec<(String, Vec<D>, (String, &'static str, String), bool)> = vec![];
    for (label, providers, consumer, faulty) in table {
        rows.push((label.to_string(), providers.clone(), (consumer.0.to_string(), consumer.1, consumer.2.to_string()), faulty));
        let names: Vec<&str> = providers.iter().map(|p| p.0).chain(["Low", "High", "G", "t"].into_iter()).collect();
        let upper: String = consumer.2.split(' ').map(|w| if names.contains(&w) { w.to_uppercase() } else { w.to_string() }).collect::<Vec<_>>().join(" ");
        if upper != consumer.2 {
            rows.push((format!("{}/references-in-upper-case", label), providers, (consumer.0.to_string(), consumer.1, upper), faulty));
        }
    }
    for (label, providers, consumer, faulty) in rows {
        let mut decls: Vec<Decl> = providers.iter().map(|(n, k, w)| d(n, k, w)).collect();
        let mut c = d(&consumer.0, consumer.1, &consumer.2);
        c.faulty = faulty;
        decls.push(c);
        decls.push(d(filler_fb.0, filler_fb.1, filler_fb.2));
        if decls.len() < 5 {
            decls.push(d(filler_ty.0, filler_ty.1, filler_ty.2));
        }
        if thorough && decls.len() < 6 {
            decls.push(d("Extra", "program", "PROGRAM Extra VAR n : INT ; END_VAR n := 2 ; END_PROGRAM"));
        }
        let name: &'static str = Box::leak(format!("{}{}", if faulty { "ref/" } else { "ref/valid/" }, label).into_boxed_str());
        // the rules for undeclared variables and enumeration values stop at their first finding: a unit with two
        // of them has two faults for the property (verdict only); an unknown type is reported at every use
        let single = faulty && !label.contains("the-same-undeclared");
        out.push(Subject { name, decls, single_fault: single });
    }
    out
}

pub fn subjects_for(thorough: bool) -> Vec<Subject> {
    let mut v = subjects();
    v.extend(reference_kinds(thorough));
    v
}

pub fn subjects() -> Vec<Subject> {
    let b = base_decls();
    let s = |name: &'static str, keys: &[&str], single_fault: bool| Subject { name, decls: keys.iter().map(|k| b[k].clone()).collect(), single_fault };
    vec![
        s("valid/alias-chain", &["Level", "LevelAlias", "Alias2", "AliasUser"], false),
        s("valid/struct-uses-enum", &["Level", "Pt", "Callee"], false),
        s("valid/fb-chain", &["Level", "Callee", "User", "Main"], false),
        s("valid/function-use", &["Fn", "FnUser", "Level"], false),
        s("valid/global-external", &["Level", "Callee", "User", "Main", "cfg"], false),
        s("valid/external-const", &["Level", "Callee", "User", "Main", "cfg", "ExtUser"], false),
        s("fault/duplicate-enum-value", &["Level!dup", "Callee", "User", "Main"], true),
        s("fault/undeclared-variable", &["Level", "Callee", "User!undeclared", "Main"], true),
        s("fault/undeclared-enum-value", &["Level", "Callee", "User!enum-value", "Main"], true),
        s("fault/unknown-formal", &["Level", "Callee", "User!bad-formal", "Main"], true),
        s("fault/external-not-constant", &["Level", "Callee", "User", "Main", "cfg", "ExtUser!not-const"], true),
        s("fault/global-without-external", &["Level", "Callee", "User", "Main", "cfg", "ExtUser!no-external"], true),
        s("fault/mutual-recursion-fb", &["Rec1", "Rec2", "Level"], true),
        s("fault/mutual-recursion-type", &["TypeRec1", "TypeRec2", "Level"], true),
        s("fault/undefined-task", &["Level", "Callee", "User", "Main", "cfg!task"], true),
        s("valid/all-8", &["Level", "LevelAlias", "Pt", "Callee", "User", "Main", "cfg", "ExtUser"], false),
        s("fault/undeclared-variable-among-8", &["Level", "LevelAlias", "Pt", "Callee", "User!undeclared", "Main", "cfg", "ExtUser"], true),
    ]
}

#[derive(Clone, Debug)]
pub struct Arrangement {
    /// declaration order (indices into the subject's declarations)
    pub perm: Vec<usize>,
    /// file of each position (restricted growth string)
    pub files: Vec<usize>,
    pub order: Vec<usize>,
}

/// Result of one arrangement: verdict and anchored codes.
#[derive(Clone, Debug, PartialEq, Eq, PartialOrd, Ord)]
pub struct Res {
    pub ok: bool,
    /// (code, declaration name, word index within the declaration) or (code, "-", 0) for unanchored labels
    pub anchored: BTreeSet<(String, String, usize)>,
}

fn file_texts(s: &Subject, a: &Arrangement) -> (Vec<String>, Vec<Vec<(usize, usize, usize)>>) {
    let nfiles = a.files.iter().max().map(|m| m + 1).unwrap_or(1);
    let mut files = vec![String::new(); nfiles];
    // per file: (start, end, declaration index)
    let mut ranges: Vec<Vec<(usize, usize, usize)>> = vec![vec![]; nfiles];
    for (pos, di) in a.perm.iter().enumerate() {
        let f = a.files[pos];
        let start = files[f].len();
        files[f].push_str(&s.decls[*di].text());
        ranges[f].push((start, files[f].len(), *di));
    }
    (files, ranges)
}

fn anchor(s: &Subject, files: &[String], ranges: &[Vec<(usize, usize, usize)>], names: &[String], d: &ironplc_dsl::diagnostic::Diagnostic) -> (String, String, usize) {
    anchor_of(s, files, ranges, names, d)
}

fn anchor_of(s: &Subject, files: &[String], ranges: &[Vec<(usize, usize, usize)>], names: &[String], d: &ironplc_dsl::diagnostic::Diagnostic) -> (String, String, usize) {
    // a recursion involves every declaration of the cycle equally: which one is named is not a
    // location the property can fix, so recursion diagnostics are compared by code only
    if d.code == "P0010" || d.code == "P0013" {
        return (d.code.clone(), "<some declaration of the cycle>".into(), 0);
    }
    let f = d.primary.file_id.to_string();
    let fi = names.iter().position(|n| *n == f);
    if let Some(fi) = fi {
        let off = d.primary.location.start;
        if let Some((st, _en, di)) = ranges[fi].iter().find(|(st, en, _)| *st <= off && off < *en) {
            if !(d.primary.location.start == 0 && d.primary.location.end == 0) {
                let within = &files[fi][*st..off];
                return (d.code.clone(), s.decls[*di].name.clone(), within.matches(' ').count());
            }
        }
    }
    (d.code.clone(), "-".into(), 0)
}

pub fn run_project(s: &Subject, a: &Arrangement) -> Result<Res, String> {
    let (files, ranges) = file_texts(s, a);
    let names: Vec<String> = (0..files.len()).map(|i| format!("/w/f{}.st", i)).collect();
    let anchor = |s: &Subject, files: &[String], ranges: &[Vec<(usize, usize, usize)>], names: &[String], d: &ironplc_dsl::diagnostic::Diagnostic| anchor_of(s, files, ranges, names, d);
    let _w = crate::util::watch::enter(&files.join("\n(* next file *)\n"));
    let r = crate::util::catch(|| {
        let mut p = FileBackedProject::new();
        for (n, t) in names.iter().zip(files.iter()) {
            p.change_text_document(&front::fid(n), t.clone());
        }
        ironplcc::verif::set_order(Some(a.order.clone()));
        let r = p.semantic();
        ironplcc::verif::set_order(None);
        r
    });
    match r {
        Err(p) => Err(format!("panic at {}", p.loc)),
        Ok(Ok(())) => Ok(Res { ok: true, anchored: BTreeSet::new() }),
        Ok(Err(ds)) => Ok(Res { ok: false, anchored: ds.iter().map(|d| anchor(s, &files, &ranges, &names, d)).collect() }),
    }
}

pub fn run_analyze(s: &Subject, a: &Arrangement) -> Result<Res, String> {
    let (files, ranges) = file_texts(s, a);
    let names: Vec<String> = (0..files.len()).map(|i| format!("/w/f{}.st", i)).collect();
    let mut libs = vec![];
    for i in &a.order {
        match front::parse(&files[*i], &names[*i]) {
            Ok(l) => libs.push(l),
            Err(d) => return Err(format!("file does not parse: {}", d.code)),
        }
    }
    let refs: Vec<&ironplc_dsl::common::Library> = libs.iter().collect();
    match crate::util::catch(|| ironplc_analyzer::stages::analyze(&refs)) {
        Err(p) => Err(format!("panic at {}", p.loc)),
        Ok(Ok(())) => Ok(Res { ok: true, anchored: BTreeSet::new() }),
        Ok(Err(ds)) => Ok(Res { ok: false, anchored: ds.iter().map(|d| anchor(s, &files, &ranges, &names, d)).collect() }),
    }
}

pub fn arrangements(n: usize, deep: bool) -> (Vec<Arrangement>, &'static str) {
    let thorough = true;
    let mut out = vec![];
    if n <= 5 || (deep && n <= 6) {
        for perm in permutations(n) {
            for files in set_partitions(n, 3) {
                let nf = files.iter().max().unwrap() + 1;
                for order in permutations(nf) {
                    out.push(Arrangement { perm: perm.clone(), files: files.clone(), order });
                }
            }
        }
        (out, "all permutations x all set partitions into <= 3 files x all file orders")
    } else {
        // stated finite family for larger sets
        let mut perms: Vec<Vec<usize>> = vec![(0..n).collect(), (0..n).rev().collect()];
        for k in 1..n {
            let mut r: Vec<usize> = (0..n).collect();
            r.rotate_left(k);
            perms.push(r);
        }
        for k in 0..n - 1 {
            let mut t: Vec<usize> = (0..n).collect();
            t.swap(k, k + 1);
            perms.push(t);
        }
        if thorough {
            for i in 0..n {
                for j in i + 2..n {
                    let mut t: Vec<usize> = (0..n).collect();
                    t.swap(i, j);
                    perms.push(t);
                }
            }
        }
        for perm in perms {
            for files in set_partitions(n, 2) {
                let nf = files.iter().max().unwrap() + 1;
                for order in permutations(nf) {
                    out.push(Arrangement { perm: perm.clone(), files: files.clone(), order });
                }
            }
        }
        (out, "identity, reversal, all rotations, all adjacent transpositions (thorough: all transpositions) x all set partitions into <= 2 files x all file orders")
    }
}

fn describe(s: &Subject, a: &Arrangement) -> String {
    let (files, _) = file_texts(s, a);
    format!(
        "declaration order {:?}, files {:?}, file order {:?} => {}",
        a.perm.iter().map(|i| s.decls[*i].name.as_str()).collect::<Vec<_>>(),
        a.files,
        a.order,
        files.iter().map(|t| crate::util::short(t, 50)).collect::<Vec<_>>().join(" | ")
    )
}

fn many_files_run(n: usize, fault: Option<usize>, o: &str) -> Result<(bool, BTreeSet<(String, String)>), String> {
    let order: Vec<usize> = match o {
        "reversed" => (0..n).rev().collect(),
        "rotated" => (0..n).map(|i| (i + n / 2) % n).collect(),
        "even-first" => (0..n).filter(|i| i % 2 == 0).chain((0..n).filter(|i| i % 2 == 1)).collect(),
        _ => (0..n).collect(),
    };
    let _w = crate::util::watch::enter(&format!("alias chain over {} files, fault {:?}, order {}", n, fault, o));
    let r = crate::util::catch(|| {
        let mut p = FileBackedProject::new();
        for i in 0..n {
            // file i declares T{i} as an alias of T{i+1}; the last one is an enumeration
            let mut t = if i + 1 < n { format!("TYPE T{} : T{} ; END_TYPE\n", i, i + 1) } else { format!("TYPE T{} : ( A , B ) ; END_TYPE\n", i) };
            if fault == Some(i) {
                t.push_str(&format!("TYPE Bad{} : ( X , X ) ; END_TYPE\n", i));
            }
            p.change_text_document(&front::fid(&format!("/w/f{:03}.st", i)), t);
        }
        ironplcc::verif::set_order(Some(order.clone()));
        let r = p.semantic();
        ironplcc::verif::set_order(None);
        r
    });
    match r {
        Err(p) => Err(format!("panic at {}", p.loc)),
        Ok(Ok(())) => Ok((true, BTreeSet::new())),
        Ok(Err(ds)) => Ok((false, ds.iter().map(|d| (d.code.clone(), d.primary.file_id.to_string())).collect())),
    }
}

pub fn run(ctx: &mut Ctx) {
    let thorough = ctx.tier.thorough();
    let subs = subjects_for(thorough);
    ctx.rule = "subject sets (6 valid cross-referencing sets, 10 single-fault sets, 2 sets of 8 declarations, and the reference-kind table: one set per way a top-level declaration can refer to another — alias, structure element with and without default, array element, variable type / default / initialiser, instance, call, result and parameter type, external, program and global in a configuration — as provider(s) + consumer + a filler declaration (thorough: two fillers), 37 valid and 12 single-fault consumers) x arrangements (<= 5 declarations: all permutations x all set partitions into <= 3 files x all file iteration orders; more: the stated family x <= 2 files) x {analyze on per-file libraries, FileBackedProject::semantic with the file-order seam}; distinct = distinct (subject, arrangement, entry point)".into();
    ctx.assumptions.push("anchor of a label = (name of the enclosing top-level declaration, lexeme index inside it), so that moving a declaration to another file or offset does not change its anchor; labels that point into no declaration (e.g. the 0..0 default span) are compared by code only".into());
    ctx.assumptions.push("hash seeds cannot be enumerated: every orbit representative is additionally executed 8 times on fresh threads (repetition, not enumeration)".into());
    let mut total = 0u64;
    let mut unexpected: Vec<Value> = vec![];
    for s in &subs {
        if ctx.over_budget(s.name) {
            break;
        }
        let (arrs, family) = arrangements(s.decls.len(), thorough);
        ctx.bounds.insert(format!("arrangements[{}]", s.name), json!(format!("{} ({})", arrs.len(), family)));
        let results: Vec<(Result<Res, String>, Result<Res, String>)> = arrs.par_iter().map(|a| (run_project(s, a), run_analyze(s, a))).collect();
        // group by result
        let mut groups: BTreeMap<String, (usize, usize)> = BTreeMap::new(); // rendering -> (count, first index)
        let render = |r: &Result<Res, String>, single: bool| -> String {
            match r {
                Err(e) => format!("ERROR {}", e),
                Ok(r) if r.ok => "OK".to_string(),
                Ok(r) => {
                    if single {
                        format!("Err {:?}", r.anchored)
                    } else {
                        "Err".to_string()
                    }
                }
            }
        };
        for (i, (rp, ra)) in results.iter().enumerate() {
            total += 2;
            ctx.evaluations += 2;
            ctx.transitions += 2;
            ctx.distinct(&format!("{}|{:?}|{:?}|{:?}", s.name, arrs[i].perm, arrs[i].files, arrs[i].order));
            let kp = render(rp, s.single_fault);
            let ka = render(ra, s.single_fault);
            if kp != ka {
                ctx.fail(
                    &format!("{}#project-and-analyze-disagree", s.name),
                    &format!("{}: Project::semantic gives {} but analyze on the same libraries gives {}", describe(s, &arrs[i]), kp, ka),
                    json!({"subject": s.name, "perm": arrs[i].perm, "files": arrs[i].files, "order": arrs[i].order}),
                );
            }
            let e = groups.entry(kp).or_insert((0, i));
            e.0 += 1;
        }
        ctx.outcome_n(&format!("{}: {} distinct result(s)", s.name, groups.len()), arrs.len() as u64);
        if groups.len() == 1 {
            let k = groups.keys().next().unwrap();
            let kind = if k == "OK" { "accepted in every arrangement".to_string() } else { format!("rejected in every arrangement: {}", crate::util::short(k, 80)) };
            ctx.outcome_n(&format!("{} sets {}", if s.single_fault { "single-fault" } else { "valid" }, if k == "OK" { "accepted in every arrangement" } else { "rejected in every arrangement" }), 1);
            if (k == "OK") == s.single_fault {
                unexpected.push(json!({"subject": s.name, "result": kind}));
            }
        }
        if groups.len() > 1 {
            // the majority result is the reference; every other result is reported with its smallest witness
            let (major, _) = groups.iter().max_by_key(|(_, v)| v.0).unwrap();
            let major = major.clone();
            let maj_idx = groups[&major].1;
            for (k, (n, idx)) in &groups {
                if *k == major {
                    continue;
                }
                let verdict_differs = (k == "OK") != (major == "OK");
                let observable = if k.starts_with("ERROR") { "crash" } else if verdict_differs { "verdict" } else { "code-or-location" };
                // which arrangement dimension differs between the witness and the reference?
                ctx.fail(
                    &format!("{}#{}-depends-on-arrangement", s.name, observable),
                    &format!("{} arrangement(s) give {} — e.g. {} ;; the majority ({}) gives {} — e.g. {}", n, k, describe(s, &arrs[*idx]), groups[&major].0, major, describe(s, &arrs[maj_idx])),
                    json!({"subject": s.name, "perm": arrs[*idx].perm, "files": arrs[*idx].files, "order": arrs[*idx].order, "reference": {"perm": arrs[maj_idx].perm, "files": arrs[maj_idx].files, "order": arrs[maj_idx].order}}),
                );
            }
        }
        // run independence: the representative and a multi-file arrangement, 8 times on fresh threads
        let reps: Vec<&Arrangement> = vec![&arrs[0], &arrs[arrs.len() - 1], &arrs[arrs.len() / 2]];
        for a in reps {
            let mut seen = BTreeSet::new();
            for _ in 0..8 {
                let r = std::thread::scope(|sc| sc.spawn(|| run_project(s, a)).join().unwrap());
                seen.insert(render(&r, s.single_fault));
                ctx.transitions += 1;
            }
            if seen.len() > 1 {
                ctx.fail(
                    &format!("{}#result-depends-on-the-run", s.name),
                    &format!("{}: repeated runs give {:?}", describe(s, a), seen),
                    json!({"subject": s.name, "perm": a.perm, "files": a.files, "order": a.order}),
                );
            }
        }
        ctx.sample(json!({"subject": s.name, "arrangement": describe(s, &arrs[arrs.len() / 3]), "arrangements": arrs.len()}));
    }
    ctx.states = total / 2;
    ctx.extra.insert("sets_whose_verdict_differs_from_their_name (order independence is still checked on them)".into(), json!(unexpected));

    // many files: a chain of N declarations, one per file, N around the sizes at which fixed-width tables end;
    // valid, and with one fault in the first / middle / last file; file orders: identity, reversed, rotated,
    // even files first. The verdict (and for the faulty sets the code and the faulty file) must not move.
    let sizes = [8usize, 9, 16, 17, 32, 33, 64, 65, 128, 129, 256, 257];
    let mut many_jobs: Vec<(usize, Option<usize>, &'static str)> = vec![]; // (n, faulty file, order name)
    for &n in &sizes {
        for fault in [None, Some(0), Some(n / 2), Some(n - 1)] {
            for o in ["identity", "reversed", "rotated", "even-first"] {
                many_jobs.push((n, fault, o));
            }
        }
    }
    let many_res: Vec<(usize, Option<usize>, &'static str, Result<(bool, BTreeSet<(String, String)>), String>)> = many_jobs
        .par_iter()
        .map(|(n, fault, o)| (*n, *fault, *o, many_files_run(*n, *fault, o)))
        .collect();
    for (n, fault, o, res) in &many_res {
        ctx.evaluations += 1;
        ctx.transitions += 1;
        ctx.distinct(&format!("many|{}|{:?}|{}", n, fault, o));
        let fname = match fault {
            None => "valid".to_string(),
            Some(0) => "fault-in-first-file".to_string(),
            Some(k) if *k == n - 1 => "fault-in-last-file".to_string(),
            Some(_) => "fault-in-middle-file".to_string(),
        };
        let expected: Result<(bool, BTreeSet<(String, String)>), String> = match fault {
            None => Ok((true, BTreeSet::new())),
            Some(k) => Ok((false, [("P0005".to_string(), format!("/w/f{:03}.st", k))].into_iter().collect())),
        };
        if *res != expected {
            ctx.fail(
                &format!("many-files/{}#{}", fname, match res { Err(_) => "crash", Ok((true, _)) => "reported-ok", Ok(_) => "wrong-diagnostics" }),
                &format!("{} files (alias chain, one declaration per file), {}, file order {}: expected {:?}, observed {:?}", n, fname, o, expected, res),
                json!({"mode":"many-files","n":n,"fault":fault,"order":o}),
            );
        }
    }
    ctx.bounds.insert("many_files".into(), json!("alias chain over N files, N in 8,9,16,17,32,33,64,65,128,129,256,257 x {valid, fault in first/middle/last file} x 4 file orders"));

    // conformance of the seam: the real binary (random hash order) x N per multi-file set must give a result that one of the enumerated file orders gives
    let reps = if thorough { 20 } else { 10 };
    let scratch = Scratch::new("c06");
    let mut jobs = vec![];
    for (si, s) in subs.iter().enumerate() {
        let n = s.decls.len();
        // one file per declaration (up to 3 files: first, middle, rest) in source order
        let files: Vec<usize> = (0..n).map(|i| (i * 3 / n).min(2)).collect();
        jobs.push((si, Arrangement { perm: (0..n).collect(), files, order: vec![0, 1, 2] }));
    }
    let conf: Vec<(usize, Option<String>)> = jobs
        .par_iter()
        .map(|(si, a)| {
            let s = &subs[*si];
            let (files, _) = file_texts(s, a);
            let mut enumerated = BTreeSet::new();
            for order in permutations(files.len()) {
                let mut aa = a.clone();
                aa.order = order;
                if let Ok(r) = run_project(s, &aa) {
                    let codes: BTreeSet<String> = r.anchored.iter().map(|x| x.0.clone()).collect();
                    enumerated.insert((r.ok, codes));
                }
            }
            let dir = scratch.sub(&format!("c{}", si));
            let mut args = vec!["check".to_string()];
            for (k, t) in files.iter().enumerate() {
                let p = dir.join(format!("f{}.st", k));
                std::fs::write(&p, t).unwrap();
                args.push(p.to_string_lossy().to_string());
            }
            let argv: Vec<&str> = args.iter().map(|x| x.as_str()).collect();
            let mut seen = BTreeSet::new();
            // for a single fault also where the binary says it is: (code, declaration the printed file:line:column lies in)
            let mut places: BTreeSet<Vec<(String, String)>> = BTreeSet::new();
            let (_, ranges) = file_texts(s, a);
            for r in 0..reps {
                let tmp = scratch.sub(&format!("c{}t{}", si, r));
                let run = cli::run(&argv, &tmp, Duration::from_secs(30));
                let codes: BTreeSet<String> = run.diags.iter().map(|d| d.code.clone()).collect();
                seen.insert((run.exit == Some(0), codes));
                if s.single_fault {
                    let mut at: Vec<(String, String)> = vec![];
                    for d in &run.diags {
                        // P9999 (not implemented) accompanies other diagnostics and names no construct
                        if d.code == "P0010" || d.code == "P0013" || d.code == "P9999" {
                            continue;
                        }
                        let place = match &d.at {
                            None => "<no location printed>".to_string(),
                            Some((path, line, col)) => {
                                let fi = files.iter().enumerate().position(|(k, _)| path.ends_with(&format!("f{}.st", k)));
                                match fi {
                                    None => format!("<unknown file {}>", path),
                                    Some(fi) => {
                                        // the texts are ASCII: byte offset of line:column
                                        let mut off = 0usize;
                                        for (ln, l) in files[fi].split_inclusive('\n').enumerate() {
                                            if ln as u64 + 1 == *line {
                                                off += (*col as usize).saturating_sub(1);
                                                break;
                                            }
                                            off += l.len();
                                        }
                                        match ranges[fi].iter().find(|(st, en, _)| *st <= off && off < *en) {
                                            Some((_, _, di)) => format!("in declaration {}", s.decls[*di].name),
                                            None => format!("<f{}.st:{}:{} is outside every declaration>", fi, line, col),
                                        }
                                    }
                                }
                            }
                        };
                        at.push((d.code.clone(), place));
                    }
                    at.sort();
                    places.insert(at);
                }
            }
            let faulty: Vec<&str> = s.decls.iter().filter(|d| d.faulty).map(|d| d.name.as_str()).collect();
            let misplaced: Vec<_> = places.iter().flatten().filter(|(_, place)| faulty.len() == 1 && !s.name.contains("the-same") && *place != format!("in declaration {}", faulty[0])).collect();
            let outside: Vec<_> = seen.iter().filter(|x| !enumerated.contains(*x)).collect();
            let msg = if !outside.is_empty() {
                Some(format!("the binary produced {:?}, the enumerated file orders produce {:?}", outside, enumerated))
            } else if seen.len() > 1 {
                Some(format!("repeated runs of the same command line give {} different results: {:?}", seen.len(), seen))
            } else if places.len() > 1 {
                Some(format!("repeated runs of the same command line print different locations: {:?}", places))
            } else if !misplaced.is_empty() {
                Some(format!("the single fault is in declaration {} but the binary prints {:?}", faulty[0], misplaced))
            } else {
                None
            };
            (*si, msg)
        })
        .collect();
    for (si, m) in conf {
        ctx.traces += reps as u64;
        if let Some(m) = m {
            ctx.fail(&format!("{}#binary-run-to-run", subs[si].name), &m, json!({"subject": subs[si].name, "mode": "binary"}));
        }
    }
    ctx.extra.insert("binary_runs".into(), json!(ctx.traces));
}

pub fn replay(case: &Value) -> Result<String, String> {
    if case["mode"] == json!("many-files") {
        let n = case["n"].as_u64().ok_or("n")? as usize;
        let fault = case["fault"].as_u64().map(|x| x as usize);
        let r = many_files_run(n, fault, case["order"].as_str().unwrap_or("identity"));
        let expected = match fault {
            None => Ok((true, BTreeSet::new())),
            Some(k) => Ok((false, [("P0005".to_string(), format!("/w/f{:03}.st", k))].into_iter().collect())),
        };
        return if r == expected { Ok(format!("as expected: {:?}", r)) } else { Err(format!("expected {:?}, observed {:?}", expected, r)) };
    }
    let name = case["subject"].as_str().ok_or("subject")?;
    let n = case["perm"].as_array().map(|a| a.len()).unwrap_or(0);
    let mut subs = subjects_for(false);
    subs.extend(subjects_for(true));
    let s = subs.iter().find(|s| s.name == name && (n == 0 || s.decls.len() == n)).ok_or("unknown subject")?;
    let get = |v: &Value| -> Option<Arrangement> {
        Some(Arrangement {
            perm: v["perm"].as_array()?.iter().map(|x| x.as_u64().unwrap_or(0) as usize).collect(),
            files: v["files"].as_array()?.iter().map(|x| x.as_u64().unwrap_or(0) as usize).collect(),
            order: v["order"].as_array()?.iter().map(|x| x.as_u64().unwrap_or(0) as usize).collect(),
        })
    };
    let a = get(case).ok_or("arrangement")?;
    let r = run_project(s, &a)?;
    let reference = match get(&case["reference"]) {
        Some(b) => run_project(s, &b)?,
        None => {
            let n = s.decls.len();
            run_project(s, &Arrangement { perm: (0..n).collect(), files: vec![0; n], order: vec![0] })?
        }
    };
    let same = if s.single_fault { r == reference } else { r.ok == reference.ok };
    if same {
        Ok(format!("same result as the reference arrangement: {:?}", r))
    } else {
        Err(format!("{:?} vs reference {:?}", r, reference))
    }
}
