//! C05 — every reported position points at the text it is about.
//!
//! (a) tiling: tokens of tokenize_program tile the source (text == slice, contiguous, ordered, char
//!     boundaries, line/column of the span start) on every C01 program, trivia variants, OSCAT
//!     headers and texts with lexical errors;
//! (b) identifiers: every written identifier occurrence is carried by an Id with exactly that span
//!     and the file id given to parse_program;
//! (c) diagnostics: every label of every diagnostic produced for single-token mutants of the C01
//!     programs and for the semantic-fault worlds lies inside its file on character boundaries, and
//!     for planted faults inside the faulty construct on lexeme boundaries.

use crate::corpus;
use crate::front;
use crate::gram::Case;
use crate::lex::*;
use crate::report::Ctx;
use ironplc_dsl::core::Id;
use ironplc_dsl::visitor::Visitor;
use rayon::prelude::*;
use serde_json::{json, Value};
use std::collections::BTreeSet;

// ---------------------------------------------------------------------------
// (a) tiling

/// Returns problems found: (key suffix, description).
pub fn tiling_problems(text: &str) -> Vec<(String, String)> {
    tiling_problems_units(text).0
}

/// Also returns which column units (bytes, chars, UTF-16) fit every token of the document, and the
/// first token that contradicts each unit.
pub fn tiling_problems_units(text: &str) -> (Vec<(String, String)>, [bool; 3], [String; 3]) {
    let mut first_bad: [String; 3] = [String::new(), String::new(), String::new()];
    let r = tiling_inner(text, &mut first_bad);
    (r.0, r.1, first_bad)
}

fn tiling_inner(text: &str, first_bad: &mut [String; 3]) -> (Vec<(String, String)>, [bool; 3]) {
    let mut out = vec![];
    let (tokens, _diags) = front::tokenize(text, "doc.st");
    // The lexer sees the preprocessed text; the preprocessor promises identical positions.
    let mut pos = 0usize;
    let mut units_ok = [true, true, true]; // bytes, chars, utf16
    // inside a blanked OSCAT description the lexer sees blanks (one per byte): the columns of the
    // white space tokens there are columns of the blanked text and are not compared
    let blanked_region = match (text.find("(*@KEY@:DESCRIPTION*)"), text.find("(*@KEY@:END_DESCRIPTION*)")) {
        (Some(a), Some(b)) if a < b => Some((a + 21, b)),
        _ => None,
    };
    let (mut scan_pos, mut scan_line, mut scan_last_nl) = (0usize, 0usize, 0usize);
    for (i, t) in tokens.iter().enumerate() {
        let (s, e) = (t.span.start, t.span.end);
        if s > e || e > text.len() {
            out.push(("span-out-of-bounds".into(), format!("token {} {:?} has span {}..{} in a text of {} bytes", i, t.token_type, s, e, text.len())));
            return (out, units_ok);
        }
        if !text.is_char_boundary(s) || !text.is_char_boundary(e) {
            out.push(("span-not-on-char-boundary".into(), format!("token {} {:?} span {}..{}", i, t.token_type, s, e)));
            return (out, units_ok);
        }
        if s < pos {
            out.push((format!("spans-overlap/{:?}", t.token_type), format!("token {} {:?} starts at {} before the previous token ended at {}", i, t.token_type, s, pos)));
            return (out, units_ok);
        }
        if s > pos {
            // a gap is legal only where the lexer reported an error (unmatched text) — checked by the caller via diagnostics
            let gap = &text[pos..s];
            out.push(("gap-between-tokens".into(), format!("bytes {}..{} ({:?}) are covered by no token", pos, s, crate::util::short(gap, 20))));
        }
        let slice = &text[s..e];
        let blanked = slice.chars().all(|c| c == ' ' || c == '\n') || t.text.chars().all(|c| c == ' ' || c == '\n');
        if t.text != slice && !(blanked && t.text.len() == slice.len()) {
            out.push((format!("text-differs-from-slice/{:?}", t.token_type), format!("token {} {:?} text {:?} but source[{}..{}] is {:?}", i, t.token_type, crate::util::short(&t.text, 20), s, e, crate::util::short(slice, 20))));
        }
        // line / column of the span start
        // incremental: spans are processed in increasing order (checked above)
        for (k, b) in text.as_bytes()[scan_pos..s].iter().enumerate() {
            if *b == b'\n' {
                scan_line += 1;
                scan_last_nl = scan_pos + k + 1;
            }
        }
        scan_pos = s;
        let line = scan_line;
        let last_nl = scan_last_nl;
        let seg = &text[last_nl..s];
        if t.line != line {
            out.push((format!("wrong-line/{:?}", t.token_type), format!("token {} {:?} at offset {} is on line {} but reports line {}", i, t.token_type, s, line, t.line)));
            return (out, units_ok);
        }
        let cols = [seg.len(), seg.chars().count(), seg.encode_utf16().count()];
        let in_blanked = blanked_region.map(|(a, b)| last_nl >= a && last_nl <= b && s <= b + 1).unwrap_or(false);
        if in_blanked && matches!(t.token_type, ironplc_parser::token::TokenType::Whitespace | ironplc_parser::token::TokenType::Newline) {
            pos = e;
            continue;
        }
        for u in 0..3 {
            if cols[u] != t.col && units_ok[u] {
                units_ok[u] = false;
                first_bad[u] = format!("token {} {:?} at offset {} (line {}) reports column {}; bytes/chars/utf16 columns are {:?}", i, t.token_type, s, line, t.col, cols);
            }
        }
        if !units_ok.iter().any(|x| *x) {
            out.push((format!("wrong-column/{:?}", t.token_type), format!("token {} {:?} at offset {} (line {}) reports column {}; bytes/chars/utf16 columns are {:?}", i, t.token_type, s, line, t.col, cols)));
            return (out, units_ok);
        }
        pos = e;
    }
    if pos != text.len() {
        out.push(("tail-not-covered".into(), format!("tokens end at {} but the text has {} bytes", pos, text.len())));
    }
    (out, units_ok)
}

fn oscat_docs() -> Vec<(String, String)> {
    let mut out = vec![];
    for (name, body) in [
        ("ascii", "plain header text\nsecond line"),
        ("two-byte", "Z\u{e4}hler f\u{fc}r St\u{fc}ck\nzweite Zeile \u{e9}"),
        ("three-byte", "price 5 \u{20ac} \u{2122}\nline \u{20ac}"),
        ("four-byte", "smile \u{1F600}\nend"),
        ("empty", ""),
    ] {
        let text = format!(
            "FUNCTION_BLOCK Fb\n(*@KEY@:DESCRIPTION*)\n{}\n(*@KEY@:END_DESCRIPTION*)\nVAR\n  a : INT; (* after \u{e9} *)\nEND_VAR\n  a := 1;\nEND_FUNCTION_BLOCK\n",
            body
        );
        out.push((format!("oscat-header/{}", name), text.clone()));
        out.push((format!("oscat-header-crlf/{}", name), text.replace('\n', "\r\n")));
        // the description on the same line as the keys, and a second header later in the file
        out.push((format!("oscat-header-one-line/{}", name), text.replace("(*@KEY@:DESCRIPTION*)\n", "(*@KEY@:DESCRIPTION*) ").replace("\n(*@KEY@:END_DESCRIPTION*)", " (*@KEY@:END_DESCRIPTION*)")));
        out.push((format!("oscat-header-twice/{}", name), format!("{}{}", text, text.replace("FUNCTION_BLOCK Fb", "FUNCTION_BLOCK Fb2"))));
    }
    out
}

// ---------------------------------------------------------------------------
// (b) identifier spans

struct Ids {
    v: Vec<(String, usize, usize, String)>,
}
impl Visitor<()> for Ids {
    type Value = ();
    fn visit_id(&mut self, n: &Id) -> Result<(), ()> {
        self.v.push((n.original.clone(), n.span.start, n.span.end, n.span.file_id.to_string()));
        Ok(())
    }
}

/// identifier-like lexemes that the grammar treats as keywords (not stored as Id)
fn pseudo_keyword(t: &str) -> bool {
    // the generator writes these in upper case and user identifiers never do
    matches!(t, "INTERVAL" | "PRIORITY" | "N" | "R" | "S" | "L" | "D" | "P" | "SD" | "DS" | "SL" | "P0" | "P1")
}

pub fn id_problems(c: &Case) -> Option<Vec<(String, String)>> {
    let sp = spell(&c.lx.v);
    let lib = front::parse(&sp.text, "the-file.st").ok()?;
    let mut ids = Ids { v: vec![] };
    let _ = ids.walk(&lib);
    let mut out = vec![];
    let occurrences: Vec<&Placed> = sp.lexemes().filter(|p| p.class == Class::Ident && !pseudo_keyword(&p.text)).collect();
    let carried: BTreeSet<(usize, usize)> = ids.v.iter().map(|x| (x.1, x.2)).collect();
    for o in &occurrences {
        if !carried.contains(&(o.byte, o.end_byte())) {
            let li = o.lex.unwrap_or(0);
            // context = the nearest preceding block / structure keyword (qualifiers and names are skipped)
            let prev = (0..li)
                .rev()
                .map(|k| c.lx.v[k].text.to_uppercase())
                .find(|t| matches!(t.as_str(), "VAR" | "VAR_INPUT" | "VAR_OUTPUT" | "VAR_IN_OUT" | "VAR_EXTERNAL" | "VAR_GLOBAL" | "VAR_ACCESS" | "VAR_CONFIG" | "TYPE" | "STRUCT" | ":" | ":=" | "(" | "FROM" | "TO" | "WITH" | "ON" | "PROGRAM" | "FUNCTION" | "FUNCTION_BLOCK" | "CONFIGURATION" | "RESOURCE" | "TASK" | "STEP" | "INITIAL_STEP" | "ACTION" | "TRANSITION"))
                .unwrap_or_else(|| "<start>".into());
            out.push((format!("id-occurrence-not-carried/after-{}", prev), format!("identifier `{}` at {}..{} (after `{}`) is carried by no Id of the library", o.text, o.byte, o.end_byte(), prev)));
        }
    }
    for (orig, s, e, f) in &ids.v {
        if is_reserved(orig) || orig.is_empty() {
            continue; // names synthesised from keywords (elementary types) carry no position
        }
        if f != "the-file.st" {
            out.push(("id-with-wrong-file".into(), format!("Id `{}` carries file id {:?}", orig, f)));
            continue;
        }
        let ok = sp.text.get(*s..*e) == Some(orig.as_str()) && occurrences.iter().any(|o| o.byte == *s && o.end_byte() == *e);
        if !ok {
            let kind = if *s == 0 && *e == 0 { "default-span" } else { "span-is-not-its-spelling" };
            out.push((format!("id-{}/{}", kind, c.group), format!("Id `{}` carries span {}..{} which reads {:?}", orig, s, e, sp.text.get(*s..*e).map(|x| crate::util::short(x, 20)))));
        }
    }
    Some(out)
}

// ---------------------------------------------------------------------------
// (c) diagnostic labels of single-token mutants

fn label_problems(text: &str) -> Vec<(String, String)> {
    let mut out = vec![];
    let mut diags = vec![];
    let (_, td) = front::tokenize(text, "m.st");
    diags.extend(td);
    match front::parse(text, "m.st") {
        Err(d) => diags.push(d),
        Ok(lib) => {
            let (_, ds) = front::analyze_libs(&[&lib]);
            diags.extend(ds);
        }
    }
    for d in diags {
        let mut labels = vec![("primary", d.primary.clone())];
        labels.extend(d.secondary.iter().map(|l| ("secondary", l.clone())));
        for (kind, l) in labels {
            let f = l.file_id.to_string();
            if f.is_empty() {
                if d.code != "P9999" && d.code != "P0030" {
                    out.push((format!("label-without-file/{}/{}", d.code, kind), format!("{} label of {} names no file", kind, d.code)));
                }
                continue;
            }
            if f != "m.st" {
                out.push((format!("label-in-unknown-file/{}", d.code), format!("{} label of {} names file {:?}", kind, d.code, f)));
                continue;
            }
            let (s, e) = (l.location.start, l.location.end);
            if !(s <= e && e <= text.len()) {
                out.push((format!("label-out-of-bounds/{}/{}", d.code, kind), format!("{} label of {} is {}..{}, the text has {} bytes", kind, d.code, s, e, text.len())));
            } else if !text.is_char_boundary(s) || !text.is_char_boundary(e) {
                out.push((format!("label-not-on-char-boundary/{}/{}", d.code, kind), format!("{} label of {} is {}..{}", kind, d.code, s, e)));
            }
        }
    }
    out
}

pub fn run(ctx: &mut Ctx) {
    // quick = the former thorough tier (deviation bound 2, complete menu, every program mutated);
    // thorough = deviation bound 3 for (a) and (b), every 20th program mutated in (c)
    let deep = ctx.tier.thorough();
    let thorough = true;
    let cases = crate::gram::generate(if deep { 3 } else { 2 });
    ctx.rule = "(a) every C01 program in canonical spelling, every base document x every trivia menu member at every gap at once and at each single gap (all members), OSCAT description headers with 1-4 byte characters, texts with an invalid character, every prefix of every base document and of every program with at most one deviation that ends after a lexeme (as it is, with a line end, with a comment); (b) every C01 program that parses: identifier occurrences vs Id spans; (c) every single-token deletion / duplication / neighbour swap of every base document and every C01 program (quick: of every program with at most one deviation and every third with two; thorough: every program with at most two and every 20th with three) : labels of all diagnostics; (d) every single-fault world of C02 (deviation bound 1) in five spellings (one line per declaration, one lexeme per line with LF and CRLF, a non-ASCII comment before every lexeme, two documents) opened in the real server: every published range must be the label's line / UTF-16 column; distinct = distinct source text".into();
    ctx.assumptions.push("line = number of LF before the span start; column accepted in bytes, chars or UTF-16 units as long as one unit fits every token of the document".into());
    ctx.assumptions.push("inside a blanked OSCAT header token text may be blanks instead of the original characters, but must have the same byte length".into());

    // ---- (a)
    let mut texts: Vec<(String, String)> = vec![]; // (class label, text)
    for c in &cases {
        texts.push((format!("canonical/{}", c.group), c.text()));
    }
    // END_IF written without its optional semicolon (the parser inserts a synthetic token there)
    for c in &cases {
        let lx = &c.lx.v;
        for i in 0..lx.len().saturating_sub(1) {
            if lx[i].text == "END_IF" && lx[i + 1].text == ";" {
                let mut m = lx.clone();
                m.remove(i + 1);
                texts.push(("end-if-without-semicolon".to_string(), spell(&m).text));
                break;
            }
        }
    }
    // truncated texts: every prefix that ends after a lexeme, as it is, followed by a line end, and followed
    // by a comment (what an editor holds while the text is being typed; the end of input is a position too)
    {
        let mut hosts: Vec<Vec<Lexeme>> = corpus::docs().into_iter().map(|d| d.lx.v).collect();
        hosts.extend(cases.iter().filter(|c| c.labels.len() <= 1).map(|c| c.lx.v.clone()));
        for lx in hosts {
            for k in 1..lx.len() {
                let t = spell(&lx[..k]).text;
                texts.push(("truncated".to_string(), t.clone()));
                texts.push(("truncated+line-end".to_string(), format!("{}\n", t)));
                if lx[k - 1].text.eq_ignore_ascii_case("END_IF") || k % 5 == 0 {
                    texts.push(("truncated+comment".to_string(), format!("{} (* c *)\n", t)));
                    texts.push(("truncated+crlf".to_string(), format!("{}\r\n", t)));
                }
            }
        }
    }
    let menu = corpus::trivia_menu();
    for d in corpus::docs() {
        let lx = &d.lx.v;
        for (mname, mtext) in &menu {
            let sp = spell_with(lx, mtext, mtext, &|_, g| if g == Glue::Hard { String::new() } else { mtext.to_string() });
            texts.push((format!("every-gap/{}", mname), sp.text));
        }
        let gaps: Vec<usize> = (0..lx.len() - 1).filter(|i| gap(&lx[*i], &lx[i + 1]) != Glue::Hard).collect();
        for (gi, &i) in gaps.iter().enumerate() {
            for (mi, (mname, mtext)) in menu.iter().enumerate() {
                if !thorough && (gi + mi) % 3 != 0 {
                    continue;
                }
                let sp = spell_with(lx, "", "\n", &|j, g| if j == i { mtext.to_string() } else if g == Glue::Blank { " ".into() } else { String::new() });
                texts.push((format!("gap/{}", mname), sp.text));
            }
        }
        // long lines and many lines (line and column counters have a width)
        if d.name == corpus::docs()[0].name {
            for len in [250usize, 254, 255, 256, 257, 65533, 65534, 65535, 65536, 65537, 70000] {
                let pad = "x".repeat(len);
                let sp = spell_with(lx, &format!("(* {} *) ", pad), "\n", &|_, g| if g == Glue::Blank { " ".into() } else { String::new() });
                texts.push(("long-first-line".to_string(), sp.text));
                let sp = spell_with(lx, &"\n".repeat(len), "\n", &|_, g| if g == Glue::Blank { " ".into() } else { String::new() });
                texts.push(("many-leading-lines".to_string(), sp.text));
            }
        }
        // invalid characters
        for bad in ["?", "\u{e9}", "$", "\u{1F600}", "\u{0}"] {
            for pos in [0usize, lx.len() / 3, lx.len() - 2] {
                let sp = spell_with(lx, "", "\n", &|j, g| if j == pos { format!(" {} ", bad) } else if g == Glue::Blank { " ".into() } else { String::new() });
                texts.push((format!("invalid-char/U+{:04X}", bad.chars().next().unwrap() as u32), sp.text));
            }
        }
        // `//` line comments (the lexer makes a comment token of them whatever the parser option says): after every line
        // with LF and with CRLF, before the first lexeme, as the last line without a line end, two in a row
        {
            let lines = spell_with(lx, "", "\n", &|j, g| if j % 4 == 3 { "\n".to_string() } else if g == Glue::Blank { " ".into() } else { String::new() }).text;
            texts.push(("line-comment/after-every-line".to_string(), lines.replace('\n', " // c \u{e9}\n")));
            texts.push(("line-comment/after-every-line-crlf".to_string(), lines.replace('\n', " // c\r\n")));
            texts.push(("line-comment/before-the-first-lexeme".to_string(), format!("// header\n{}", lines)));
            texts.push(("line-comment/two-in-a-row".to_string(), format!("// one\n// two \u{1F600}\n{}", lines)));
            texts.push(("line-comment/last-line-without-line-end".to_string(), format!("{}// end", lines)));
            texts.push(("line-comment/holding-a-comment-opener".to_string(), lines.replacen('\n', " // (* not opened\n", 1)));
            texts.push(("line-comment/empty".to_string(), lines.replace('\n', " //\n")));
        }
        // characters that text-handling code likes to treat specially (byte-order mark, other line ends, invisible
        // and replacement characters, control characters), written with nothing around them: as the very first
        // character of the text, as the very last one, twice in a row, and in the gap after every third lexeme.
        // Whatever the lexer makes of them, positions are positions in the text as it was given
        for sp_ch in ["\u{FEFF}", "\u{A0}", "\u{85}", "\u{2028}", "\u{2029}", "\u{200B}", "\u{FFFD}", "\u{B}", "\u{1A}", "\u{7F}", "\u{1}"] {
            let code = format!("U+{:04X}", sp_ch.chars().next().unwrap() as u32);
            let base = spell_with(lx, "", "\n", &|_, g| if g == Glue::Blank { " ".into() } else { String::new() }).text;
            texts.push((format!("special-char-first/{}", code), format!("{}{}", sp_ch, base)));
            texts.push((format!("special-char-first-twice/{}", code), format!("{}{}{}", sp_ch, sp_ch, base)));
            texts.push((format!("special-char-first-then-line-end/{}", code), format!("{}\n{}", sp_ch, base)));
            texts.push((format!("special-char-last/{}", code), format!("{}{}", base, sp_ch)));
            texts.push((format!("special-char-alone/{}", code), sp_ch.to_string()));
            for pos in (0..lx.len() - 1).step_by(3) {
                if gap(&lx[pos], &lx[pos + 1]) == Glue::Hard {
                    continue;
                }
                let sp = spell_with(lx, "", "\n", &|j, g| if j == pos { sp_ch.to_string() } else if g == Glue::Blank { " ".into() } else { String::new() });
                texts.push((format!("special-char-in-a-gap/{}", code), sp.text));
            }
        }
    }
    texts.extend(oscat_docs());
    let tiling_units: Vec<(Vec<(String, String)>, [bool; 3], [String; 3])> = texts
        .par_iter()
        .map(|(_, t)| {
            let (mut p, units, bad) = tiling_problems_units(t);
            // gaps are legal exactly where the lexer reports unmatched text
            let (_, diags) = front::tokenize(t, "doc.st");
            if !diags.is_empty() {
                p.retain(|x| x.0 != "gap-between-tokens" && x.0 != "tail-not-covered");
                for d in &diags {
                    let (s, e) = (d.primary.location.start, d.primary.location.end);
                    if !(s <= e && e <= t.len() && t.is_char_boundary(s) && t.is_char_boundary(e)) {
                        p.push((format!("lexical-error-label-invalid/{}", d.code), format!("label {}..{} in a text of {} bytes", s, e, t.len())));
                    }
                }
            }
            (p, units, bad)
        })
        .collect();
    // one column unit must fit every token of every document of the run
    let mut fit = [0usize; 3];
    for (_, u, _) in &tiling_units {
        for k in 0..3 {
            if u[k] {
                fit[k] += 1;
            }
        }
    }
    let best = (0..3).max_by_key(|k| (fit[*k], *k)).unwrap();
    ctx.extra.insert("column_unit_that_fits".into(), json!(["bytes", "chars", "utf16"][best]));
    let mut tiling: Vec<Vec<(String, String)>> = vec![];
    for (p, u, bad) in tiling_units {
        let mut p = p;
        if !u[best] && !p.iter().any(|x| x.0.starts_with("wrong-column")) {
            p.push(("column-not-in-the-unit-used-elsewhere".into(), format!("columns elsewhere are {}; here: {}", ["bytes", "chars", "utf16"][best], bad[best])));
        }
        tiling.push(p);
    }
    for ((class, text), probs) in texts.iter().zip(tiling.iter()) {
        ctx.evaluations += 1;
        ctx.transitions += 1;
        ctx.distinct(text);
        if probs.is_empty() {
            ctx.outcome("tiles");
        }
        for (k, w) in probs {
            ctx.outcome(k.split('/').next().unwrap_or("?"));
            let cls = class.split('/').next().unwrap_or("");
            let key = if cls == "canonical" { format!("tiling/{}/canonical", k) } else { format!("tiling/{}/{}", k, class) };
            ctx.fail(&key, &format!("{}: {}", class, w), json!({"mode":"tiling","class":class,"text":text}));
        }
    }
    ctx.sample(json!({"part":"tiling","class": texts[texts.len() - 3].0, "text": crate::util::short(&texts[texts.len() - 3].1, 200)}));

    // ---- (b)
    let idres: Vec<Option<Vec<(String, String)>>> = cases.par_iter().map(id_problems).collect();
    let mut id_checked = 0u64;
    for (c, r) in cases.iter().zip(idres.iter()) {
        if let Some(probs) = r {
            id_checked += 1;
            ctx.evaluations += 1;
            ctx.transitions += 1;
            if probs.is_empty() {
                ctx.outcome("identifier spans exact");
            }
            for (k, w) in probs {
                ctx.outcome(k.split('/').next().unwrap_or("?"));
                ctx.fail(&format!("ids/{}", k), &format!("{}: {}", c.id(), w), json!({"mode":"ids","case":c.id(),"text":c.text()}));
            }
        }
    }
    ctx.extra.insert("programs_with_identifier_check".into(), json!(id_checked));
    ctx.sample(json!({"part":"identifiers","case": cases[cases.len() / 2].id(), "text": crate::util::short(&cases[cases.len() / 2].text(), 200)}));

    // ---- (c) single-token mutants: labels of whatever is diagnosed
    let mut hosts: Vec<(String, Vec<Lexeme>)> = corpus::docs().into_iter().map(|d| (format!("doc:{}", d.name), d.lx.v)).collect();
    // quick: every program with at most one deviation and every third program with two;
    // thorough: every program with at most two deviations and every 20th with three
    let (full, stride) = if deep { (2, 20) } else { (1, 3) };
    for (i, c) in cases.iter().enumerate() {
        if c.labels.len() <= full || i % stride == 0 {
            hosts.push((c.id(), c.lx.v.clone()));
        }
    }
    let label_res: Vec<(u64, Vec<(String, String, String)>)> = hosts
        .par_iter()
        .map(|(name, lx)| {
            let mut n = 0u64;
            let mut fails = vec![];
            let n_lx = lx.len();
            for i in 0..n_lx {
                for op in 0..3 {
                    let mut m = lx.clone();
                    match op {
                        0 => {
                            m.remove(i);
                        }
                        1 => {
                            let d = m[i].clone();
                            m.insert(i, d);
                        }
                        _ => {
                            if i + 1 >= n_lx {
                                continue;
                            }
                            m.swap(i, i + 1);
                        }
                    }
                    // glue marks may no longer hold after an edit: spell with a blank everywhere
                    let text: String = m.iter().map(|l| l.text.as_str()).collect::<Vec<_>>().join(" ");
                    n += 1;
                    for (k, w) in label_problems(&text) {
                        fails.push((k, format!("{} edit {}@{}: {}", name, ["delete", "duplicate", "swap"][op], i, w), text.clone()));
                    }
                }
            }
            (n, fails)
        })
        .collect();
    let mut mutants = 0u64;
    for (n, fails) in label_res {
        mutants += n;
        for (k, w, text) in fails {
            ctx.fail(&format!("labels/{}", k), &w, json!({"mode":"labels","text":text}));
        }
    }
    ctx.evaluations += mutants;
    ctx.transitions += mutants;
    ctx.outcome_n("mutant labels inside text", mutants);
    ctx.extra.insert("single_token_mutants".into(), json!(mutants));
    ctx.states = ctx.evaluations;
    ctx.traces = ctx.evaluations;

    // (c) for planted semantic faults is performed by the C02 world check's label oracle and reported there under C05 keys
    crate::checks::c02::label_oracle_into(ctx);
    // (d) the same faults through the language server: the published range must be the position of the label
    crate::checks::c02::lsp_range_oracle_into(ctx);
    // (e) the same faults as the command line prints them, one declaration per file: every file that holds a label
    // of a diagnostic has its own location block, and the block names a place where one of that file's labels starts
    printed_locations_into(ctx);
    // description blocks: tokens and label positions are those of the text after a reference blanking
    crate::oscat::run_into(ctx, if ctx.tier.thorough() { 7 } else { 6 });
}

/// (path, text) of a world written one declaration per file into `dir`.
fn one_file_per_declaration(w: &crate::world::World, dir: &std::path::Path) -> Vec<(String, String)> {
    w.decls
        .iter()
        .enumerate()
        .map(|(i, d)| {
            // a comment line first (with a character of each UTF-8 width), so that offsets, lines and columns all differ from file to file
            let text = format!("(* {} {} \u{e9}\u{20ac}\u{1F600} *)\n{}{}", i, "x".repeat(i * 3), " ".repeat(i), d.text());
            (dir.join(format!("d{}_{}.st", i, d.name.to_lowercase())).to_string_lossy().to_string(), text)
        })
        .collect()
}

fn printed_location_problems(files: &[(String, String)], tmp: &std::path::Path, dir: &std::path::Path) -> Vec<(String, String)> {
    use ironplcc::project::{FileBackedProject, Project};
    let mut out = vec![];
    for (p, t) in files {
        std::fs::write(p, t).unwrap();
    }
    let mut proj = FileBackedProject::new();
    for (p, t) in files {
        proj.change_text_document(&front::fid(p), t.clone());
    }
    let diags = match crate::util::catch(|| proj.semantic()) {
        Ok(Err(ds)) => ds,
        Ok(Ok(())) => vec![],
        Err(pn) => return vec![("semantic-panicked".into(), format!("Project::semantic panicked at {}", pn.loc))],
    };
    let run = crate::cli::run(&["check", dir.to_str().unwrap()], tmp, std::time::Duration::from_secs(30));
    if run.crashed() {
        return vec![("check-crashed".into(), run.summary())];
    }
    // 1-based line and column (in characters) of a byte offset
    let place = |text: &str, off: usize| -> (u64, u64) {
        let off = off.min(text.len());
        let before = &text[..off];
        let line = before.matches('\n').count() as u64 + 1;
        let col = before.rsplit('\n').next().unwrap_or("").chars().count() as u64 + 1;
        (line, col)
    };
    let mut printed: Vec<&crate::cli::CliDiag> = run.diags.iter().collect();
    for d in &diags {
        if d.code == "P9999" {
            continue;
        }
        // labels per file
        let mut per_file: std::collections::BTreeMap<String, Vec<(u64, u64)>> = Default::default();
        for l in std::iter::once(&d.primary).chain(d.secondary.iter()) {
            let f = l.file_id.to_string();
            if let Some((_, text)) = files.iter().find(|(p, _)| *p == f) {
                per_file.entry(f).or_default().push(place(text, l.location.start));
            }
        }
        if per_file.is_empty() {
            continue;
        }
        let pf = d.primary.file_id.to_string();
        let Some(first) = per_file.get(&pf).map(|v| v[0]) else { continue };
        // the printed diagnostic of this code whose first block is the primary label's place
        let Some(k) = printed.iter().position(|c| c.code == d.code && c.at.as_ref().map(|a| a.0 == pf && (a.1, a.2) == first).unwrap_or(false)) else {
            out.push((format!("{}/primary-label-not-printed-at-its-place", d.code), format!("{} has its primary label at {}:{}:{}; printed: {:?}", d.code, pf, first.0, first.1, run.diags.iter().filter(|c| c.code == d.code).map(|c| &c.all_at).collect::<Vec<_>>())));
            continue;
        };
        let c = printed.remove(k);
        let files_printed: std::collections::BTreeSet<&String> = c.all_at.iter().map(|a| &a.0).collect();
        let files_labelled: std::collections::BTreeSet<&String> = per_file.keys().collect();
        if files_printed != files_labelled {
            out.push((format!("{}/files-of-the-printed-blocks-differ-from-files-of-the-labels", d.code), format!("{}: labels lie in {:?}, location blocks are printed for {:?}", d.code, files_labelled, files_printed)));
            continue;
        }
        for (f, l, col) in &c.all_at {
            if !per_file[f].contains(&(*l, *col)) {
                out.push((format!("{}/block-names-no-label", d.code), format!("{}: the block {}:{}:{} is where no label of that file starts ({:?})", d.code, f, l, col, per_file[f])));
            }
        }
    }
    out
}

fn printed_locations_into(ctx: &mut Ctx) {
    let ws: Vec<crate::world::World> = crate::checks::c02::worlds(1).into_iter().filter(|w| w.violated.len() == 1 && !w.labels.iter().any(|l| l.starts_with("site=") || l.starts_with("hostpos="))).collect();
    let scratch = crate::util::Scratch::new("c05e");
    let res: Vec<Vec<(String, String)>> = ws
        .par_iter()
        .enumerate()
        .map(|(n, w)| {
            let dir = scratch.sub(&format!("w{}", n));
            let tmp = scratch.sub(&format!("t{}", n));
            let files = one_file_per_declaration(w, &dir);
            printed_location_problems(&files, &tmp, &dir)
        })
        .collect();
    let mut n = 0u64;
    for (w, probs) in ws.iter().zip(res.iter()) {
        n += 1;
        ctx.distinct(&format!("printed|{}", w.labels.join(",")));
        for (k, what) in probs {
            ctx.fail(&format!("printed-location/{}", k), &format!("[{}] {}", w.labels.join(","), what), json!({"mode":"printed-location","text":"","files": w.decls.iter().map(|d| d.text()).collect::<Vec<_>>(), "names": w.decls.iter().map(|d| d.name.clone()).collect::<Vec<_>>()}));
        }
    }
    ctx.evaluations += n;
    ctx.transitions += n;
    ctx.traces += n;
    ctx.bounds.insert("printed_locations".into(), json!(format!("{} single-fault worlds, one declaration per file, through `ironplcc check <directory>`", n)));
}

pub fn replay(case: &Value) -> Result<String, String> {
    let text = case["text"].as_str().ok_or("text")?;
    match case["mode"].as_str() {
        Some("description-blocks") => crate::oscat::replay(text),
        Some("tiling") => {
            let mut p = tiling_problems(text);
            let (_, diags) = front::tokenize(text, "doc.st");
            if !diags.is_empty() {
                p.retain(|x| x.0 != "gap-between-tokens" && x.0 != "tail-not-covered");
            }
            if p.is_empty() {
                Ok("tokens tile the text".into())
            } else {
                Err(format!("{:?}", p))
            }
        }
        Some("ids") => {
            let id = case["case"].as_str().ok_or("case")?;
            let c = &crate::gram::find_case(id).ok_or("unknown case")?;
            match id_problems(c) {
                Some(p) if !p.is_empty() => Err(format!("{:?}", p)),
                _ => Ok("identifier spans exact".into()),
            }
        }
        Some("labels") => {
            let p = label_problems(text);
            if p.is_empty() {
                Ok("labels inside the text".into())
            } else {
                Err(format!("{:?}", p))
            }
        }
        Some("world-label") => crate::checks::c02::replay_label(case),
        Some("lsp-range") => crate::checks::c02::replay_lsp_range(case),
        Some("printed-location") => {
            let scratch = crate::util::Scratch::new("c05er");
            let (dir, tmp) = (scratch.sub("d"), scratch.sub("t"));
            let names: Vec<String> = case["names"].as_array().ok_or("names")?.iter().map(|x| x.as_str().unwrap_or("").to_string()).collect();
            let files: Vec<(String, String)> = case["files"]
                .as_array()
                .ok_or("files")?
                .iter()
                .enumerate()
                .map(|(i, t)| (dir.join(format!("d{}_{}.st", i, names.get(i).cloned().unwrap_or_default().to_lowercase())).to_string_lossy().to_string(), format!("(* {} {} \u{e9}\u{20ac}\u{1F600} *)\n{}{}", i, "x".repeat(i * 3), " ".repeat(i), t.as_str().unwrap_or(""))))
                .collect();
            let p = printed_location_problems(&files, &tmp, &dir);
            if p.is_empty() {
                Ok("every labelled file has its location block at a label".into())
            } else {
                Err(format!("{:?}", p))
            }
        }
        _ => Err("unknown replay mode".into()),
    }
}
