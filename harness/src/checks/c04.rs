//! C04 — total and terminating: no input crashes or hangs lex, parse, analyse or render.
//!
//! E2: exhaustive single-edit neighbourhoods of valid programs over the whole lexeme alphabet, all
//! short byte strings and token strings, nesting constructors x depth 1..12 x {valid, bad core,
//! missing closer}, 64 KiB families, literal extremes. Inputs run in isolated worker processes
//! (a stack overflow or allocation failure aborts a process): the parent bisects a dying shard down
//! to the single culprit. Crash candidates and the nesting/size families also go to the real binary.

use crate::cli;
use crate::corpus;
use crate::front;
use crate::lex::*;
use crate::report::Ctx;
use crate::util::Scratch;
use ironplc_plc2plc::write_to_string;
use serde_json::{json, Value};
use std::io::Write;
use std::process::{Command, Stdio};
use std::time::{Duration, Instant};

const BUDGET: Duration = Duration::from_secs(5);

pub fn alphabet() -> Vec<&'static str> {
    let mut a: Vec<&'static str> = vec![
        // punctuation and operators
        "(", ")", "[", "]", "{", "}", ",", ";", ":", ".", "..", "#", ":=", "=>", "+", "-", "*", "/", "**", "=", "<>", "<", ">", "<=", ">=", "&",
        // literals of every token class and extremes
        "0", "1", "42", "1_000", "007", "16#FF", "8#17", "2#1010", "1.5", "1.0E3", "1.0E+3", "1.0E-3", "'s'", "\"w\"", "''", "x", "Fn", "inst", "T", "D", "ms", "h", "s", "d", "m", "E",
        "340282366920938463463374607431768211455", "340282366920938463463374607431768211456", "99999999999999999999", "18446744073709551616", "9223372036854775808", "1.0E400",
        "0.5", "1.999999999999999999", "%IX1", "%QW12", "%M4", "%I*", "%IX1.2.3", "%MD4294967296",
        // textual keywords the grammar matches by text
        "INTERVAL", "PRIORITY", "N", "R", "S", "L", "P", "SD", "DS", "SL", "P1", "P0",
        // comments and OSCAT keys
        "(* c *)", "(*", "*)", "// c", "(*@KEY@:DESCRIPTION*)", "(*@KEY@:END_DESCRIPTION*)",
        // invalid characters
        "?", "$", "\u{e9}", "\u{1F600}",
    ];
    a.extend(KEYWORDS.iter().copied());
    a.extend(TYPE_KEYWORDS.iter().copied());
    a
}

fn hosts() -> Vec<(String, Vec<String>)> {
    let mut out: Vec<(String, Vec<String>)> = vec![];
    for d in corpus::docs() {
        out.push((format!("doc:{}", d.name), d.lx.v.iter().map(|l| l.text.clone()).collect()));
    }
    // one minimal program per production group (the default derivation), plus selected forms
    let cases = crate::gram::generate(0);
    let mut seen = std::collections::BTreeSet::new();
    for c in cases {
        if !c.labels.is_empty() && c.group.starts_with("expr.") {
            continue;
        }
        if seen.insert(c.group) || (c.labels.len() == 1 && (c.group == "stmt" || c.group == "var.block" || c.group == "type")) {
            out.push((c.id(), c.lx.v.iter().map(|l| l.text.clone()).collect()));
        }
    }
    // an OSCAT-style document and duration / date literals
    out.push(("oscat".into(), "FUNCTION_BLOCK Osc (*@KEY@:DESCRIPTION*) any text (*@KEY@:END_DESCRIPTION*) VAR a : INT ; t : TIME := T#1.5s ; END_VAR a := 1 ; END_FUNCTION_BLOCK".split(' ').map(|s| s.to_string()).collect()));
    out.push((
        "literals".into(),
        "FUNCTION_BLOCK Lits VAR t : TIME := T#5ms ; d : DATE := D#2021-02-03 ; o : TIME_OF_DAY := TOD#12:30:15 ; r : REAL := 1.5 ; w : WORD := WORD#16#FF ; n : INT ( 1 .. 5 ) ; END_VAR END_FUNCTION_BLOCK"
            .split(' ')
            .map(|s| s.to_string())
            .collect(),
    ));
    out.push((
        "configuration".into(),
        "CONFIGURATION c VAR_GLOBAL g : INT ; END_VAR RESOURCE r ON PLC TASK t ( INTERVAL := T#100ms , PRIORITY := 1 ) ; PROGRAM p WITH t : Main ( a := 1 , q => g ) ; END_RESOURCE VAR_CONFIG r.p.x AT %IX1 : BOOL ; END_VAR END_CONFIGURATION"
            .split(' ')
            .map(|s| s.to_string())
            .collect(),
    ));
    out
}

/// Enumerates the inputs of a family in a fixed order; `f` is called with (sub-family label, input bytes).
pub fn enumerate(family: &str, thorough: bool, f: &mut dyn FnMut(&str, Vec<u8>)) {
    match family {
        "edit1" => {
            let alpha = alphabet();
            for (name, toks) in hosts() {
                let n = toks.len();
                f(&format!("host:{}", name), toks.join(" ").into_bytes());
                for i in 0..n {
                    // delete / duplicate / swap with next
                    let mut v = toks.clone();
                    v.remove(i);
                    f("delete", v.join(" ").into_bytes());
                    let mut v = toks.clone();
                    v.insert(i, toks[i].clone());
                    f("duplicate", v.join(" ").into_bytes());
                    if i + 1 < n {
                        let mut v = toks.clone();
                        v.swap(i, i + 1);
                        f("swap", v.join(" ").into_bytes());
                    }
                    for (ai, a) in alpha.iter().enumerate() {
                        // the quick tier lays a checkerboard over the long hosts (every lexeme at every second position,
                        // every position with every second lexeme); the short hosts and the thorough tier are complete
                        if !thorough && n > 40 && (i + ai) % 2 == 1 {
                            continue;
                        }
                        let mut v = toks.clone();
                        v[i] = a.to_string();
                        f("replace", v.join(" ").into_bytes());
                        let mut v = toks.clone();
                        v.insert(i, a.to_string());
                        f("insert", v.join(" ").into_bytes());
                    }
                }
            }
        }
        "edit2" => {
            // double edits on the small hosts: insert every pair of alphabet lexemes at every position (thorough)
            let alpha = alphabet();
            let small: Vec<(String, Vec<String>)> = hosts().into_iter().filter(|h| h.1.len() <= 24).take(if thorough { 8 } else { 1 }).collect();
            for (_, toks) in small {
                let step = if thorough { 1 } else { 8 };
                for i in (0..=toks.len()).step_by(step) {
                    for a in &alpha {
                        for b in &alpha {
                            let mut v = toks.clone();
                            v.insert(i.min(toks.len()), format!("{} {}", a, b));
                            f("insert-pair", v.join(" ").into_bytes());
                        }
                    }
                }
            }
        }
        "bytes" => {
            f("len0", vec![]);
            for a in 0u16..=255 {
                f("len1", vec![a as u8]);
            }
            for a in 0u16..=255 {
                for b in 0u16..=255 {
                    f("len2", vec![a as u8, b as u8]);
                }
            }
            if thorough {
                // every string of length 3 over a 64-byte alphabet with every byte class the lexer distinguishes
                let al: Vec<u8> = b" \t\n\r\x0c()*/'\"#%.:;,=<>+-&[]{}_$?01289AEFTXZaefimstx@\\".iter().copied().chain([0u8, 0x7f, 0x80, 0xc3, 0xa9, 0xe2, 0xf0, 0xff]).collect();
                for a in &al {
                    for b in &al {
                        for c in &al {
                            f("len3", vec![*a, *b, *c]);
                        }
                    }
                }
            }
        }
        "tokens" => {
            let alpha = alphabet();
            for a in &alpha {
                f("1-token", a.as_bytes().to_vec());
            }
            for a in &alpha {
                for b in &alpha {
                    f("2-tokens", format!("{} {}", a, b).into_bytes());
                    f("2-tokens-abutting", format!("{}{}", a, b).into_bytes());
                }
            }
            if thorough {
                for a in &alpha {
                    for b in &alpha {
                        for c in &alpha {
                            f("3-tokens", format!("{} {} {}", a, b, c).into_bytes());
                        }
                    }
                }
            }
        }
        "nesting" => {
            let wrap_expr = |depth: usize, open: &str, close: &str, core: &str, closers: usize| -> String {
                format!("FUNCTION_BLOCK F VAR a : INT ; arr : ARRAY [ 1 .. 2 ] OF INT ; END_VAR a := {}{}{} ; END_FUNCTION_BLOCK", open.repeat(depth), core, close.repeat(closers))
            };
            for depth in 1..=12usize {
                for (cname, core, missing) in [("valid", "a", 0usize), ("bad-core", "+ ;", 0), ("missing-closer", "a", 1)] {
                    let closers = depth - missing.min(depth);
                    f(&format!("paren/{}", cname), wrap_expr(depth, "( ", " )", core, closers).into_bytes());
                    f(&format!("call/{}", cname), wrap_expr(depth, "Fn ( ", " )", core, closers).into_bytes());
                    f(&format!("subscript/{}", cname), wrap_expr(depth, "arr [ ", " ]", core, closers).into_bytes());
                    f(&format!("unary-not/{}", cname), wrap_expr(depth, "NOT ( ", " )", core, closers).into_bytes());
                    f(&format!("binary-left/{}", cname), wrap_expr(depth, "( 1 + ", " )", core, closers).into_bytes());
                    // statement nesting
                    for (sname, open, close) in [
                        ("if", "IF a > 0 THEN ", " END_IF ;"),
                        ("case", "CASE a OF 1 : ", " END_CASE ;"),
                        ("for", "FOR a := 1 TO 2 DO ", " END_FOR ;"),
                        ("while", "WHILE a > 0 DO ", " END_WHILE ;"),
                        ("repeat", "REPEAT ", " UNTIL a > 0 END_REPEAT ;"),
                        ("elsif-chain", "IF a > 0 THEN a := 1 ; ELSIF a > 1 THEN ", " END_IF ;"),
                    ] {
                        let core_s = match cname {
                            "valid" => "a := 1 ;",
                            "bad-core" => "a := ;",
                            _ => "a := 1 ;",
                        };
                        f(
                            &format!("stmt-{}/{}", sname, cname),
                            format!("FUNCTION_BLOCK F VAR a : INT ; END_VAR {}{}{} END_FUNCTION_BLOCK", open.repeat(depth), core_s, close.repeat(closers)).into_bytes(),
                        );
                    }
                    // initialisers
                    f(
                        &format!("struct-init/{}", cname),
                        format!("TYPE T : S := {}{}{} ; END_TYPE", "( x := ".repeat(depth), if cname == "bad-core" { ";" } else { "1" }, " )".repeat(closers)).into_bytes(),
                    );
                    f(
                        &format!("array-repeat/{}", cname),
                        format!("TYPE T : ARRAY [ 1 .. 2 ] OF INT := [ {}{}{} ] ; END_TYPE", "2 ( ".repeat(depth), if cname == "bad-core" { ";" } else { "1" }, " )".repeat(closers)).into_bytes(),
                    );
                    f(&format!("comment-openers/{}", cname), format!("{} c {} FUNCTION_BLOCK F END_FUNCTION_BLOCK", "(* ".repeat(depth), "*) ".repeat(closers)).into_bytes());
                }
            }
        }
        "size" => {
            let k64 = 64 * 1024;
            let rep = |unit: &str, sep: &str, total: usize| -> String {
                let n = total / (unit.len() + sep.len()).max(1);
                vec![unit; n.max(1)].join(sep)
            };
            let fb = |body: &str| format!("FUNCTION_BLOCK F VAR a : INT ; END_VAR {} END_FUNCTION_BLOCK", body);
            f("expr-chain-64k", fb(&format!("a := {} ;", rep("a", " + ", k64))).into_bytes());
            f("expr-chain-and-64k", fb(&format!("a := {} ;", rep("a", " AND ", k64))).into_bytes());
            f("expr-chain-pow-64k", fb(&format!("a := {} ;", rep("a", " ** ", k64))).into_bytes());
            f("statement-list-64k", fb(&rep("a := 1 ;", " ", k64)).into_bytes());
            f("semicolons-64k", fb(&rep(";", "", k64)).into_bytes());
            f("var-block-64k", format!("FUNCTION_BLOCK F VAR {} END_VAR END_FUNCTION_BLOCK", (0..k64 / 14).map(|i| format!("v{} : INT ;", i)).collect::<Vec<_>>().join(" ")).into_bytes());
            f("enum-10k-values", format!("TYPE E : ( {} ) ; END_TYPE", (0..10_000).map(|i| format!("V{}", i)).collect::<Vec<_>>().join(" , ")).into_bytes());
            f("comment-64k", format!("(* {} *) FUNCTION_BLOCK F END_FUNCTION_BLOCK", "c".repeat(k64)).into_bytes());
            f("string-64k", fb(&format!("a := '{}' ;", "s".repeat(k64))).into_bytes());
            f("identifier-64k", fb(&format!("{} := 1 ;", "i".repeat(k64))).into_bytes());
            f("digits-64k", fb(&format!("a := {} ;", "9".repeat(k64))).into_bytes());
            f("declarations-5k", (0..5000).map(|i| format!("FUNCTION_BLOCK F{} END_FUNCTION_BLOCK", i)).collect::<Vec<_>>().join("\n").into_bytes());
            f("call-args-64k", fb(&format!("a := Fn ( {} ) ;", rep("a", " , ", k64))).into_bytes());
            f("case-arms-64k", fb(&format!("CASE a OF {} END_CASE ;", (0..k64 / 14).map(|i| format!("{} : a := 1 ;", i)).collect::<Vec<_>>().join(" "))).into_bytes());
            f("elsif-chain-64k", fb(&format!("IF a > 0 THEN a := 1 ; {} END_IF ;", rep("ELSIF a > 1 THEN a := 2 ;", " ", k64))).into_bytes());
            f("invalid-chars-64k", rep("?", "", k64).into_bytes());
            f("open-comment-64k", format!("(* {}", "c".repeat(k64)).into_bytes());
            f("deep-mix-12", {
                let mut s = String::from("a := 1 ;");
                for _ in 0..12 {
                    s = format!("IF a > ( ( a ) ) THEN WHILE a > 0 DO {} END_WHILE ; END_IF ;", s);
                }
                fb(&s).into_bytes()
            });
        }
        "literals" => {
            // (the complete field sweeps of time and date literals are C09's and C01's; here every 25th of them
            // in the quick tier — a crash that depends on one field value among thousands is found by C01, which
            // parses them all under the same panic guard)
            for (k, l) in crate::checks::c09::literals().into_iter().enumerate() {
                if !thorough && (l.label.starts_with("tod/") || l.label.starts_with("date/") || l.label.starts_with("dt/")) && k % 25 != 0 {
                    continue;
                }
                let text = spell(&crate::checks::c09::program(&l).v).text;
                f("c09-literal", text.into_bytes());
            }
            // literal extremes in other positions: subrange bounds, array bounds, string lengths, task priority / interval, case selectors
            for big in ["340282366920938463463374607431768211455", "340282366920938463463374607431768211456", "18446744073709551616", "4294967296", "9223372036854775808", "0"] {
                f("subrange-bound", format!("TYPE R : INT ( 0 .. {} ) ; END_TYPE", big).into_bytes());
                f("subrange-bound-negative", format!("TYPE R : INT ( -{} .. 0 ) ; END_TYPE", big).into_bytes());
                f("subrange-both", format!("TYPE R : INT ( -{} .. {} ) ; END_TYPE", big, big).into_bytes());
                f("array-bound", format!("TYPE A : ARRAY [ 0 .. {} ] OF INT ; END_TYPE", big).into_bytes());
                f("string-length", format!("TYPE S : STRING [ {} ] ; END_TYPE", big).into_bytes());
                f("array-repeat-count", format!("TYPE A : ARRAY [ 0 .. 1 ] OF INT := [ {} ( 0 ) ] ; END_TYPE", big).into_bytes());
                f("task-priority", format!("CONFIGURATION c RESOURCE r ON PLC TASK t ( PRIORITY := {} ) ; PROGRAM p WITH t : Main ; END_RESOURCE END_CONFIGURATION", big).into_bytes());
                f("transition-priority", format!("FUNCTION_BLOCK F INITIAL_STEP s0 : END_STEP STEP s1 : END_STEP TRANSITION ( PRIORITY := {} ) FROM s0 TO s1 := TRUE ; END_TRANSITION END_FUNCTION_BLOCK", big).into_bytes());
                f("case-selector", format!("FUNCTION_BLOCK F VAR a : INT ; END_VAR CASE a OF {} : a := 1 ; -{} .. {} : a := 2 ; END_CASE ; END_FUNCTION_BLOCK", big, big, big).into_bytes());
                f("for-bounds", format!("FUNCTION_BLOCK F VAR a : INT ; END_VAR FOR a := -{} TO {} BY {} DO a := a ; END_FOR ; END_FUNCTION_BLOCK", big, big, big).into_bytes());
            }
            for iv in ["5", "TRUE", "'s'", "1.5", "D#2021-01-01", "TOD#12:00:00", "16#FF", "T#-5ms", "T#1.5d"] {
                f("task-interval-kind", format!("CONFIGURATION c RESOURCE r ON PLC TASK t ( INTERVAL := {} , PRIORITY := 1 ) ; PROGRAM p WITH t : Main ; END_RESOURCE END_CONFIGURATION", iv).into_bytes());
            }
        }
        "bodies" => {
            // every string up to length 4 (thorough 5) over a small alphabet of the characters that are special
            // in a lexical context, placed in that context
            let contexts: [(&str, &str, &str, &[&str]); 9] = [
                ("single-quoted-initial-value", "FUNCTION_BLOCK F VAR s : STRING := '", "' ; END_VAR END_FUNCTION_BLOCK", &["$", "4", "A", "g", "\u{e9}", "\u{20ac}", "\u{1F600}", "'", "\"", "N"]),
                ("double-quoted-initial-value", "FUNCTION_BLOCK F VAR s : WSTRING := \"", "\" ; END_VAR END_FUNCTION_BLOCK", &["$", "0", "4", "A", "g", "\u{e9}", "\u{20ac}", "\u{1F600}", "'", "\""]),
                ("single-quoted-in-statement", "FUNCTION_BLOCK F VAR s : STRING ; END_VAR s := '", "' ; END_FUNCTION_BLOCK", &["$", "4", "A", "\u{e9}", "\u{1F600}", "'", "\n", "T"]),
                ("comment", "FUNCTION_BLOCK F VAR a : INT ; END_VAR (*", "*) a := 1 ; END_FUNCTION_BLOCK", &["*", ")", "(", "\u{e9}", "\u{1F600}", "\n", "\r", "@", " "]),
                ("duration", "FUNCTION_BLOCK F VAR t : TIME := T#", " ; END_VAR END_FUNCTION_BLOCK", &["1", "0", "9", ".", "_", "-", "d", "h", "m", "s"]),
                ("based-integer", "FUNCTION_BLOCK F VAR x : INT := 16#", " ; END_VAR END_FUNCTION_BLOCK", &["0", "9", "F", "f", "G", "_", "#", ".", "-", "\u{e9}"]),
                ("direct-address", "PROGRAM P VAR x AT %", " : BOOL ; END_VAR END_PROGRAM", &["I", "Q", "M", "X", "W", "*", "0", "9", ".", "_"]),
                ("number", "FUNCTION_BLOCK F VAR x : LREAL := 1", " ; END_VAR END_FUNCTION_BLOCK", &["0", "9", ".", "E", "e", "+", "-", "_", "#"]),
                ("date-and-time", "FUNCTION_BLOCK F VAR x : DT := DT#2021-", " ; END_VAR END_FUNCTION_BLOCK", &["0", "1", "2", "9", "-", ":", ".", "_"]),
            ];
            let max_len = if thorough { 5 } else { 4 };
            for (name, pre, post, alpha) in contexts {
                let mut level: Vec<String> = vec![String::new()];
                for _ in 0..=max_len {
                    for body in &level {
                        f(name, format!("{}{}{}", pre, body, post).into_bytes());
                    }
                    let mut next = Vec::with_capacity(level.len() * alpha.len());
                    for body in &level {
                        for a in alpha {
                            next.push(format!("{}{}", body, a));
                        }
                    }
                    level = next;
                }
            }
        }
        "truncate" => {
            // every prefix of every host that ends after a lexeme: as it is, with a line end, with a comment, with an opened comment or string
            for (_name, toks) in hosts() {
                for k in 0..=toks.len() {
                    let t = toks[..k].join(" ");
                    f("prefix", t.clone().into_bytes());
                    f("prefix+line-end", format!("{}\n", t).into_bytes());
                    f("prefix+comment", format!("{} (* c *)\n", t).into_bytes());
                    f("prefix+open-comment", format!("{} (* c", t).into_bytes());
                    f("prefix+open-string", format!("{} 'c", t).into_bytes());
                    f("prefix+crlf", format!("{}\r\n", t).into_bytes());
                }
            }
        }
        "resources" => {
            // the repository's own test resources: as they are, cut after every line, and with every single line removed
            let dir = std::path::Path::new("/repo/compiler/resources/test");
            let mut names: Vec<std::path::PathBuf> = std::fs::read_dir(dir).map(|d| d.filter_map(|e| e.ok()).map(|e| e.path()).collect()).unwrap_or_default();
            names.sort();
            for p in names {
                let Ok(bytes) = std::fs::read(&p) else { continue };
                f("as-is", bytes.clone());
                let Ok(text) = String::from_utf8(bytes) else { continue };
                let lines: Vec<&str> = text.split_inclusive('\n').collect();
                for k in 1..lines.len() {
                    f("cut-after-line", lines[..k].concat().into_bytes());
                    let mut v = lines.clone();
                    v.remove(k - 1);
                    f("line-removed", v.concat().into_bytes());
                }
            }
        }
        "long-tokens" => {
            // a syntax error whose offending token is a long string or comment with one special character at every
            // offset (messages quote, shorten and escape the offending text)
            let chars = ["\u{e9}", "\u{20ac}", "\u{1F600}", "\u{85}", "\u{9f}", "\u{7f}", "\u{1b}", "\u{200b}", "\u{feff}", "\t"];
            let max_pad = if thorough { 300 } else { 130 };
            // every length up to max_pad, and the lengths around every power of two up to 8 KiB (where a buffer, a cut-off
            // or a block boundary would be)
            let mut pads: Vec<usize> = (0..max_pad).collect();
            for p2 in [256usize, 512, 1024, 2048, 4096, 8192] {
                pads.extend(p2 - 8..p2 + 6);
            }
            for ch in chars {
                for &pad in &pads {
                    // text that never ends (an opened comment, an opened string) is one offending piece up to the end of the input
                    if pad >= max_pad || pad % 4 == 0 {
                        let tail = ch.repeat(3);
                        f("comment-never-closed", format!("FUNCTION_BLOCK F VAR x : INT ; END_VAR x := 1 ; (*{}{}{}", "x".repeat(pad), ch, tail).into_bytes());
                        f("string-never-closed", format!("FUNCTION_BLOCK F VAR s : STRING ; END_VAR s := '{}{}{}", "x".repeat(pad), ch, tail).into_bytes());
                        f("wide-string-never-closed", format!("FUNCTION_BLOCK F VAR s : WSTRING ; END_VAR s := \"{}{}{}", "x".repeat(pad), ch, tail).into_bytes());
                    }
                    let body = format!("{}{}", "x".repeat(pad), ch);
                    f("string-where-none-is-allowed", format!("FUNCTION_BLOCK F VAR x : INT ; END_VAR x := 1 '{}' ; END_FUNCTION_BLOCK", body).into_bytes());
                    f("comment-where-none-is-allowed", format!("FUNCTION_BLOCK F VAR x : INT ; END_VAR x := INT(* {} *)#5 ; END_FUNCTION_BLOCK", body).into_bytes());
                    f("string-with-invalid-escape", format!("FUNCTION_BLOCK F VAR s : STRING ; END_VAR s := '{}$ ' ; END_FUNCTION_BLOCK", body).into_bytes());
                    f("comment-at-end-of-cut-text", format!("PROGRAM P VAR a : INT ; END_VAR a := 1 ; (* {} *)", body).into_bytes());
                    f("identifier-where-none-is-allowed", format!("FUNCTION_BLOCK F VAR x : INT ; END_VAR x := 1 {}q ; END_FUNCTION_BLOCK", "y".repeat(pad)).into_bytes());
                }
            }
        }
        "graphs" => {
            // reference graphs among declarations (C07's space): every digraph on up to 3 nodes in every realisation,
            // on 4 nodes as function blocks and as structures; analysis must end on cyclic input too
            use crate::checks::c07::{realise, Graph, Real};
            for n in 1..=4usize {
                let reals: Vec<Real> = if n <= 3 { vec![Real::Fb, Real::Struct, Real::AliasMix, Real::FbStructMix(0b0101), Real::FbStructMix(0b0010)] } else { vec![Real::Fb, Real::Struct] };
                for mask in 0u64..(1u64 << (n * n)) {
                    let g = Graph::from_mask(n, mask);
                    for real in &reals {
                        let order: Vec<usize> = (0..n).collect();
                        f("declaration-graph", realise(&g, *real, &order).into_bytes());
                        if thorough || n <= 3 {
                            let order: Vec<usize> = (0..n).rev().collect();
                            f("declaration-graph-reversed", realise(&g, *real, &order).into_bytes());
                        }
                    }
                }
            }
        }
        "case-mapping" => {
            // characters whose upper- or lower-case form has another length in bytes (code that searches a case-folded
            // copy and slices the original goes wrong on them), 1 to 4 of them, in every textual context, with
            // multi-byte text of every width packed around the places an offset could shift to
            let chars = ["\u{fb01}", "\u{131}", "\u{390}", "\u{130}", "\u{df}", "\u{149}", "\u{1f0}", "\u{1e9e}", "\u{17f}", "\u{212a}", "\u{1f80}", "\u{10400}"];
            let fillers = ["\u{b0}\u{e4}\u{b2}\u{b0}\u{e4}\u{b2}", "\u{20ac}\u{20ac}\u{20ac}\u{20ac}", "\u{1F600}\u{1F600}\u{1F600}", "\u{b0}\u{20ac}\u{1F600}\u{b0}\u{20ac}", "xyz"];
            let code = "FUNCTION_BLOCK F VAR a : INT ; END_VAR IF a > 1 THEN a := 1 ; END_IF END_FUNCTION_BLOCK";
            for c in chars {
                for k in 1..=4usize {
                    let cs = c.repeat(k);
                    for fl in fillers {
                        f("comment-before-description", format!("(* {} *)\n(*@KEY@:DESCRIPTION*)\n{}\n(*@KEY@:END_DESCRIPTION*)(* {} *)\n{} (* {} *)", cs, fl, fl, code, fl).into_bytes());
                        f("inside-description", format!("(*@KEY@:DESCRIPTION*)\n{} {}\n(*@KEY@:END_DESCRIPTION*)(* {} *)\n{} (* {} *)", cs, fl, fl, code, fl).into_bytes());
                        f("description-in-lower-case-keys", format!("(* {} *)(*@key@:description*)\n{}\n(*@key@:end_description*)(* {} *)\n{}", cs, fl, fl, code).into_bytes());
                        f("comment-before-code", format!("(* {} *) {} (* {} *)", cs, code, fl).into_bytes());
                        f("comment-before-end-if", format!("FUNCTION_BLOCK F VAR a : INT ; END_VAR (* {} *) IF a > 1 THEN a := 1 ; END_IF (* {} *) END_FUNCTION_BLOCK (* {} *)", cs, fl, fl).into_bytes());
                        f("string-before-code", format!("FUNCTION_BLOCK F VAR s : STRING := '{}' ; t : STRING := '{}' ; END_VAR IF s = t THEN s := t ; END_IF END_FUNCTION_BLOCK (* {} *)", cs, fl, fl).into_bytes());
                        f("invalid-text-before-code", format!("{} {} (* {} *)", cs, code, fl).into_bytes());
                        f("two-descriptions", format!("(*@KEY@:DESCRIPTION*){}(*@KEY@:END_DESCRIPTION*)\n{}\n(*@KEY@:DESCRIPTION*){}(*@KEY@:END_DESCRIPTION*)(* {} *)", cs, code, fl, fl).into_bytes());
                    }
                }
            }
        }
        "invocations" => {
            // function block invocations: a callee with 0..3 inputs, 0..3 in-outs and 0..2 outputs, called with
            // 0..8 positional arguments, with every named subset, and with a mixture; and the same for a function
            let maxv = if thorough { 3 } else { 2 };
            for i in 0..=maxv {
                for o in 0..=maxv {
                    for q in 0..=2usize {
                        let mut callee = String::from("FUNCTION_BLOCK Callee ");
                        if i > 0 {
                            callee.push_str(&format!("VAR_INPUT {} END_VAR ", (0..i).map(|k| format!("a{} : INT ;", k)).collect::<Vec<_>>().join(" ")));
                        }
                        if o > 0 {
                            callee.push_str(&format!("VAR_IN_OUT {} END_VAR ", (0..o).map(|k| format!("io{} : INT ;", k)).collect::<Vec<_>>().join(" ")));
                        }
                        if q > 0 {
                            callee.push_str(&format!("VAR_OUTPUT {} END_VAR ", (0..q).map(|k| format!("q{} : INT ;", k)).collect::<Vec<_>>().join(" ")));
                        }
                        callee.push_str("END_FUNCTION_BLOCK ");
                        let names: Vec<String> = (0..i).map(|k| format!("a{}", k)).chain((0..o).map(|k| format!("io{}", k))).collect();
                        let mut calls: Vec<String> = vec![];
                        for n in 0..=(i + o + 2) {
                            calls.push((0..n).map(|_| "x".to_string()).collect::<Vec<_>>().join(" , "));
                            if q > 0 {
                                calls.push((0..n).map(|_| "x".to_string()).chain(std::iter::once("q0 => x".to_string())).collect::<Vec<_>>().join(" , "));
                            }
                        }
                        for mask in 0u32..(1 << names.len()) {
                            let picked: Vec<String> = names.iter().enumerate().filter(|(k, _)| mask & (1 << k) != 0).map(|(_, nm)| format!("{} := x", nm)).collect();
                            calls.push(picked.join(" , "));
                            if q > 0 {
                                calls.push(picked.iter().cloned().chain(std::iter::once("q0 => x".to_string())).collect::<Vec<_>>().join(" , "));
                            }
                            if !picked.is_empty() {
                                calls.push(format!("{} , x", picked.join(" , ")));
                                calls.push(format!("x , {}", picked.join(" , ")));
                            }
                        }
                        for c in calls {
                            f("function-block-invocation", format!("{}FUNCTION_BLOCK Host VAR inst : Callee ; x : INT ; END_VAR inst ( {} ) ; END_FUNCTION_BLOCK", callee, c).into_bytes());
                        }
                    }
                }
            }
        }
        _ => panic!("unknown family {}", family),
    }
}

pub const FAMILIES: [&str; 14] = ["edit1", "edit2", "bytes", "tokens", "nesting", "size", "literals", "bodies", "graphs", "truncate", "resources", "long-tokens", "invocations", "case-mapping"];

fn decode(bytes: &[u8]) -> String {
    match std::str::from_utf8(bytes) {
        Ok(s) => s.to_string(),
        // the file reader falls back to Windows-1252; Latin-1 is the same for every byte the lexer distinguishes
        Err(_) => bytes.iter().map(|b| *b as char).collect(),
    }
}

/// Runs the four stages; returns the first failure as (stage, location/message).
fn stages(text: &str) -> Result<u8, (String, String)> {
    let mut reached = 0u8;
    let r = crate::util::catch(|| front::tokenize(text, "in.st"));
    if let Err(p) = r {
        return Err(("tokenize".into(), format!("{} :: {}", p.loc, crate::util::short(&p.msg, 80))));
    }
    reached = reached.max(1);
    let lib = match crate::util::catch(|| front::parse(text, "in.st")) {
        Err(p) => return Err(("parse".into(), format!("{} :: {}", p.loc, crate::util::short(&p.msg, 80)))),
        Ok(Err(_)) => return Ok(reached),
        Ok(Ok(l)) => l,
    };
    reached = 2;
    match crate::util::catch(|| ironplc_analyzer::stages::analyze(&[&lib])) {
        Err(p) => return Err(("analyze".into(), format!("{} :: {}", p.loc, crate::util::short(&p.msg, 80)))),
        Ok(r) => {
            if r.is_ok() {
                reached = 3;
            }
        }
    }
    match crate::util::catch(|| write_to_string(&lib)) {
        Err(p) => return Err(("render".into(), format!("{} :: {}", p.loc, crate::util::short(&p.msg, 80)))),
        Ok(_) => {}
    }
    Ok(reached.max(2))
}

/// Worker: processes inputs [start, end) of a family; prints one line per failure and a final summary.
/// exit 0 = slice completed; exit 3 = stopped at a timeout (line `T <index>` printed).
pub fn worker(args: &[String]) -> i32 {
    let family = args[0].as_str();
    let start: usize = args[1].parse().unwrap();
    let end: usize = args[2].parse().unwrap();
    let thorough = args.get(3).map(|s| s == "thorough").unwrap_or(false);
    let stride: usize = args.get(4).and_then(|s| s.parse().ok()).unwrap_or(1);
    let offset: usize = args.get(5).and_then(|s| s.parse().ok()).unwrap_or(0);
    crate::util::install_panic_hook();
    let (tx, rx) = std::sync::mpsc::channel::<(usize, String, Vec<u8>)>();
    let (rtx, rrx) = std::sync::mpsc::channel::<(usize, String, Result<u8, (String, String)>, f64)>();
    // the subject runs on a thread with the 8 MiB stack the real binary's main thread has
    std::thread::Builder::new()
        .stack_size(8 << 20)
        .spawn(move || {
            while let Ok((idx, sub, bytes)) = rx.recv() {
                let t0 = Instant::now();
                let text = decode(&bytes);
                let r = stages(&text);
                if rtx.send((idx, sub, r, t0.elapsed().as_secs_f64())).is_err() {
                    break;
                }
            }
        })
        .unwrap();
    let out = std::io::stdout();
    let mut out = out.lock();
    let mut idx = 0usize;
    let mut done = 0usize;
    let mut reached = [0u64; 4];
    let mut slowest = 0f64;
    let mut stop: Option<i32> = None;
    enumerate(family, thorough, &mut |sub, bytes| {
        let i = idx;
        idx += 1;
        if i < start || i >= end || i % stride != offset || stop.is_some() {
            return;
        }
        tx.send((i, sub.to_string(), bytes)).unwrap();
        match rrx.recv_timeout(BUDGET) {
            Ok((ri, rsub, r, secs)) => {
                done += 1;
                slowest = slowest.max(secs);
                match r {
                    Ok(st) => reached[st as usize] += 1,
                    Err((stage, loc)) => {
                        let _ = writeln!(out, "P {} {} {} {}", ri, rsub, stage, loc);
                    }
                }
            }
            Err(_) => {
                let _ = writeln!(out, "T {} {}", i, sub);
                let _ = out.flush();
                stop = Some(3);
            }
        }
    });
    let _ = writeln!(out, "OK {} {} {} {} {} {:.4}", done, reached[0], reached[1], reached[2], reached[3], slowest);
    let _ = out.flush();
    stop.unwrap_or(0)
}

fn count(family: &str, thorough: bool) -> (usize, std::collections::HashSet<u64>) {
    let mut n = 0;
    let mut distinct = std::collections::HashSet::new();
    enumerate(family, thorough, &mut |_, b| {
        n += 1;
        let mut h: u64 = 0xcbf29ce484222325;
        for x in &b {
            h ^= *x as u64;
            h = h.wrapping_mul(0x100000001b3);
        }
        distinct.insert(h);
    });
    (n, distinct)
}

fn input_at(family: &str, thorough: bool, index: usize) -> Option<(String, Vec<u8>)> {
    let mut i = 0;
    let mut found = None;
    enumerate(family, thorough, &mut |sub, bytes| {
        if i == index && found.is_none() {
            found = Some((sub.to_string(), bytes));
        }
        i += 1;
    });
    found
}

#[derive(Debug)]
enum Obs {
    Panic { index: usize, sub: String, stage: String, loc: String },
    Timeout { index: usize, sub: String },
    Abort { index: usize, signal: Option<i32>, code: Option<i32> },
}

static CONFIRMED_TIMEOUTS: std::sync::atomic::AtomicUsize = std::sync::atomic::AtomicUsize::new(0);

struct SliceResult {
    obs: Vec<Obs>,
    done: u64,
    reached: [u64; 4],
    slowest: f64,
}

/// Runs one worker process on [start, end); on abnormal death bisects down to the culprit.
fn run_slice(family: &str, thorough: bool, start: usize, end: usize, stride: usize, offset: usize) -> SliceResult {
    let mut res = SliceResult { obs: vec![], done: 0, reached: [0; 4], slowest: 0.0 };
    if start >= end {
        return res;
    }
    let exe = std::env::current_exe().expect("current exe");
    let out = Command::new(exe)
        .args(["--worker", "C04", family, &start.to_string(), &end.to_string(), if thorough { "thorough" } else { "quick" }, &stride.to_string(), &offset.to_string()])
        .stdin(Stdio::null())
        .stderr(Stdio::null())
        .output()
        .expect("spawn worker");
    let stdout = String::from_utf8_lossy(&out.stdout).to_string();
    let mut completed = false;
    let mut timeout_at: Option<usize> = None;
    for line in stdout.lines() {
        let mut p = line.splitn(5, ' ');
        match p.next() {
            Some("P") => {
                let index = p.next().and_then(|x| x.parse().ok()).unwrap_or(0);
                let sub = p.next().unwrap_or("").to_string();
                let stage = p.next().unwrap_or("").to_string();
                let loc = p.next().unwrap_or("").to_string();
                res.obs.push(Obs::Panic { index, sub, stage, loc });
            }
            Some("T") => {
                let index = p.next().and_then(|x| x.parse().ok()).unwrap_or(0);
                let sub = p.next().unwrap_or("").to_string();
                timeout_at = Some(index);
                res.obs.push(Obs::Timeout { index, sub });
            }
            Some("OK") => {
                completed = true;
                let v: Vec<f64> = line.split(' ').skip(1).filter_map(|x| x.parse().ok()).collect();
                if v.len() >= 6 {
                    res.done += v[0] as u64;
                    for k in 0..4 {
                        res.reached[k] += v[1 + k] as u64;
                    }
                    res.slowest = res.slowest.max(v[5]);
                }
            }
            _ => {}
        }
    }
    use std::os::unix::process::ExitStatusExt;
    if let Some(t) = timeout_at {
        // an implementation that hangs on a whole class of inputs would cost the budget once per input:
        // after three confirmed time-outs of a run the rest of the slice is left unexplored (and says so)
        if CONFIRMED_TIMEOUTS.load(std::sync::atomic::Ordering::SeqCst) >= 3 {
            return res;
        }
        // a time-out is a wall-clock observation: confirm it alone in a fresh worker before believing it
        if !(end == start + 1 && stride == 1) {
            let again = run_slice(family, thorough, t, t + 1, 1, 0);
            if again.obs.iter().any(|o| matches!(o, Obs::Timeout { .. })) {
                CONFIRMED_TIMEOUTS.fetch_add(1, std::sync::atomic::Ordering::SeqCst);
            }
            if !again.obs.iter().any(|o| matches!(o, Obs::Timeout { .. })) {
                res.obs.retain(|o| !matches!(o, Obs::Timeout { index, .. } if *index == t));
                res.obs.extend(again.obs);
                res.done += again.done;
                for k in 0..4 {
                    res.reached[k] += again.reached[k];
                }
                res.slowest = res.slowest.max(again.slowest);
            }
        }
        // continue behind the input that timed out
        let rest = run_slice(family, thorough, t + 1, end, stride, offset);
        res.obs.extend(rest.obs);
        res.done += rest.done;
        for k in 0..4 {
            res.reached[k] += rest.reached[k];
        }
        res.slowest = res.slowest.max(rest.slowest);
        return res;
    }
    if !completed {
        // the worker died (stack overflow, allocation failure …): bisect
        // how many inputs of this stripe lie in [start, end)?
        let first = (start..end).find(|i| i % stride == offset);
        let n_in = match first {
            Some(f) => (end - 1 - f) / stride + 1,
            None => 0,
        };
        if n_in == 0 {
            return res;
        }
        if n_in == 1 {
            res.obs.retain(|o| !matches!(o, Obs::Panic { .. }));
            res.obs.push(Obs::Abort { index: first.unwrap(), signal: out.status.signal(), code: out.status.code() });
            return res;
        }
        res.obs.clear();
        let mid = start + (end - start) / 2;
        for (a, b) in [(start, mid), (mid, end)] {
            let r = run_slice(family, thorough, a, b, stride, offset);
            res.obs.extend(r.obs);
            res.done += r.done;
            for k in 0..4 {
                res.reached[k] += r.reached[k];
            }
            res.slowest = res.slowest.max(r.slowest);
        }
    }
    res
}

pub fn run(ctx: &mut Ctx) {
    let thorough = ctx.tier.thorough();
    ctx.rule = "families: edit1 (every host x every token position x {delete, duplicate, swap, replace by / insert each lexeme of the alphabet}), edit2 (every pair of alphabet lexemes inserted at positions of small hosts), bytes (every byte string of length <= 2; thorough: length 3 over a 70-byte alphabet), tokens (every token string of length <= 2, spaced and abutting; thorough: length 3), nesting (19 constructors x depth 1..12 x {valid, bad core, missing closer}), size (18 inputs of ~64 KiB), literals (the C09 space and numeric extremes in 10 other positions); distinct = inputs are distinct by construction (counted); bodies (every string up to length 4, thorough 5, over the characters that are special inside a single- or double-quoted string, a comment, a duration, a based integer, a direct address, a number and a date-and-time literal, in that context); graphs (every reference graph among up to 4 declarations, cyclic ones included); truncate (every prefix of every host that ends after a lexeme, bare and followed by a line end, a comment, an opened comment, an opened string); resources (every file of compiler/resources/test as it is, cut after every line, and with every single line removed); long-tokens (a syntax error at a string or comment of 1 to 130 characters, thorough 300, ending in a multi-byte, control or zero-width character); invocations (a callee with 0..2, thorough 3, inputs and in-outs and 0..2 outputs x every positional argument count, every named subset, with and without an output, and mixtures); case-mapping (12 characters whose upper- or lower-case form has another byte length x 1..4 of them x 8 textual contexts x 5 multi-byte fillers)".into();
    ctx.assumptions.push(format!("each input runs tokenize, parse, and if it parses analyze and render, under catch_unwind on a thread with an 8 MiB stack in a worker process; budget {} s per input; the build has overflow checks and debug assertions on", BUDGET.as_secs()));
    ctx.assumptions.push("byte strings that are not UTF-8 are decoded as Latin-1 (the file reader falls back to Windows-1252, which differs only in 0x80-0x9F, all of which the lexer treats alike)".into());
    ctx.bounds.insert("alphabet_lexemes".into(), json!(alphabet().len()));
    ctx.bounds.insert("hosts".into(), json!(hosts().iter().map(|h| h.0.clone()).collect::<Vec<_>>()));
    let workers = 16usize;
    let mut candidates: Vec<(String, String, Vec<u8>)> = vec![]; // (family, sub, bytes) for the binary
    for family in FAMILIES {
        if ctx.over_budget(family) {
            break;
        }
        let (n, hashes) = count(family, thorough);
        for h in hashes {
            ctx.distinct_hash(h);
        }
        ctx.bounds.insert(format!("inputs[{}]", family), json!(n));
        // striped shards: worker w takes the inputs with index % workers == w (balances cheap and costly hosts)
        let slices: Vec<usize> = (0..workers.min(n.max(1))).collect();
        let results: Vec<SliceResult> = std::thread::scope(|sc| {
            let hs: Vec<_> = slices.iter().map(|w| sc.spawn(move || run_slice(family, thorough, 0, n, workers.min(n.max(1)), *w))).collect();
            hs.into_iter().map(|h| h.join().unwrap()).collect()
        });
        let mut reached = [0u64; 4];
        let mut done = 0u64;
        let mut slowest = 0f64;
        for r in results {
            done += r.done;
            slowest = slowest.max(r.slowest);
            for k in 0..4 {
                reached[k] += r.reached[k];
            }
            for o in r.obs {
                match o {
                    Obs::Panic { index, sub, stage, loc } => {
                        let (locpart, msg) = loc.split_once(" :: ").unwrap_or((&loc, ""));
                        let input = input_at(family, thorough, index);
                        let text = input.as_ref().map(|x| String::from_utf8_lossy(&x.1).to_string()).unwrap_or_default();
                        ctx.outcome("panic");
                        ctx.fail(
                            &format!("{}@{}", stage, locpart),
                            &format!("{} panics at {} ({}) on [{}/{}#{}] {:?}", stage, locpart, msg, family, sub, index, crate::util::short(&text, 160)),
                            json!({"family": family, "index": index, "thorough": thorough, "text": text}),
                        );
                        if let Some((s, b)) = input {
                            candidates.push((family.to_string(), s, b));
                        }
                    }
                    Obs::Timeout { index, sub } => {
                        let input = input_at(family, thorough, index);
                        let text = input.as_ref().map(|x| String::from_utf8_lossy(&x.1).to_string()).unwrap_or_default();
                        ctx.outcome("timeout");
                        ctx.fail(&format!("timeout@{}/{}", family, sub), &format!("input #{} of {}/{} ran beyond {} s: {:?}", index, family, sub, BUDGET.as_secs(), crate::util::short(&text, 120)), json!({"family": family, "index": index, "thorough": thorough, "text": crate::util::short(&text, 4000)}));
                        done += 1;
                    }
                    Obs::Abort { index, signal, code } => {
                        let input = input_at(family, thorough, index);
                        let (sub, text) = input.as_ref().map(|x| (x.0.clone(), String::from_utf8_lossy(&x.1).to_string())).unwrap_or_default();
                        ctx.outcome("abort");
                        ctx.fail(
                            &format!("abort@{}/{}", family, sub),
                            &format!("the process died (signal {:?}, exit {:?}) on input #{} of {}/{}: {:?} ({} bytes)", signal, code, index, family, sub, crate::util::short(&text, 100), text.len()),
                            json!({"family": family, "index": index, "thorough": thorough, "text_prefix": crate::util::short(&text, 2000)}),
                        );
                        done += 1;
                        if let Some((s, b)) = input {
                            candidates.push((family.to_string(), s, b));
                        }
                    }
                }
            }
        }
        ctx.evaluations += done;
        ctx.transitions += done;
        ctx.outcome_n(&format!("{}: rejected by lexer/parser", family), reached[1] + reached[0]);
        ctx.outcome_n(&format!("{}: parsed, analysis found errors", family), reached[2]);
        ctx.outcome_n(&format!("{}: all four stages OK", family), reached[3]);
        ctx.extra.insert(format!("stage_reach[{}]", family), json!({"lexer-or-parser-rejects": reached[0] + reached[1], "parsed+rendered (analysis errors)": reached[2], "all stages ok": reached[3], "slowest_input_s": slowest}));
        if done != n as u64 && CONFIRMED_TIMEOUTS.load(std::sync::atomic::Ordering::SeqCst) < 3 {
            ctx.fail("machinery/inputs-lost", &format!("family {}: {} of {} inputs accounted for", family, done, n), json!({"family": family}));
        }
    }
    if CONFIRMED_TIMEOUTS.load(std::sync::atomic::Ordering::SeqCst) >= 3 {
        ctx.exhaustive = false;
        ctx.extra.insert("stopped_early".into(), json!("three inputs ran beyond the time budget (confirmed alone): the slices they were found in were not explored further"));
    }
    ctx.states = ctx.evaluations;
    // samples
    for (fam, idx) in [("edit1", 1234usize), ("nesting", 77), ("tokens", 4321)] {
        if let Some((sub, b)) = input_at(fam, thorough, idx) {
            ctx.sample(json!({"family": fam, "sub": sub, "index": idx, "input": crate::util::short(&String::from_utf8_lossy(&b), 200)}));
        }
    }
    // the real binary: nesting and size families, literal extremes, and every crash candidate
    let scratch = Scratch::new("c04");
    let mut bin_inputs: Vec<(String, String, Vec<u8>)> = candidates;
    for fam in ["nesting", "size"] {
        enumerate(fam, thorough, &mut |sub, bytes| bin_inputs.push((fam.to_string(), sub.to_string(), bytes)));
    }
    let mut lit_n = 0;
    enumerate("literals", thorough, &mut |sub, bytes| {
        lit_n += 1;
        if sub != "c09-literal" || lit_n % 25 == 0 {
            bin_inputs.push(("literals".to_string(), sub.to_string(), bytes));
        }
    });
    use rayon::prelude::*;
    let bin_res: Vec<(usize, Vec<(String, String)>)> = bin_inputs
        .par_iter()
        .enumerate()
        .map(|(i, (_fam, _sub, bytes))| {
            let dir = scratch.sub(&format!("b{}", i));
            let tmp = scratch.sub(&format!("bt{}", i));
            let f = dir.join("in.st");
            std::fs::write(&f, bytes).unwrap();
            let mut bad = vec![];
            for cmd in ["check", "echo", "tokenize"] {
                let mut c = Command::new(cli::ironplcc());
                c.args([cmd, f.to_str().unwrap()]).env("TMPDIR", &tmp).stdin(Stdio::null()).stdout(Stdio::null()).stderr(Stdio::null());
                let t0 = Instant::now();
                let mut child = c.spawn().expect("spawn ironplcc");
                let status = loop {
                    match child.try_wait() {
                        Ok(Some(s)) => break Some(s),
                        Ok(None) => {
                            if t0.elapsed() > Duration::from_secs(20) {
                                let _ = child.kill();
                                let _ = child.wait();
                                break None;
                            }
                            std::thread::sleep(Duration::from_millis(2));
                        }
                        Err(_) => break None,
                    }
                };
                use std::os::unix::process::ExitStatusExt;
                match status {
                    None => bad.push((cmd.to_string(), "timeout".to_string())),
                    Some(s) => {
                        if s.code() == Some(101) {
                            bad.push((cmd.to_string(), "exit-101-panic".to_string()));
                        } else if let Some(sig) = s.signal() {
                            bad.push((cmd.to_string(), format!("signal-{}", sig)));
                        }
                    }
                }
            }
            (i, bad)
        })
        .collect();
    for (i, bad) in bin_res {
        ctx.traces += 3;
        let (fam, sub, bytes) = &bin_inputs[i];
        for (cmd, what) in bad {
            ctx.fail(
                &format!("binary-{}/{}@{}/{}", cmd, what, fam, sub),
                &format!("`ironplcc {}` ends with {} on {}/{}: {:?} ({} bytes)", cmd, what, fam, sub, crate::util::short(&String::from_utf8_lossy(bytes), 100), bytes.len()),
                json!({"family": fam, "sub": sub, "mode": "binary", "text_prefix": crate::util::short(&String::from_utf8_lossy(bytes), 2000)}),
            );
        }
    }
    ctx.extra.insert("binary_runs".into(), json!(ctx.traces));
}

pub fn replay(case: &Value) -> Result<String, String> {
    let family = case["family"].as_str().ok_or("family")?;
    let thorough = case["thorough"].as_bool().unwrap_or(false);
    if let Some(index) = case["index"].as_u64() {
        let r = run_slice(family, thorough, index as usize, index as usize + 1, 1, 0);
        if r.obs.is_empty() {
            Ok("all stages return".into())
        } else {
            Err(format!("{:?}", r.obs))
        }
    } else {
        Err("binary-mode replays are re-derived by running the check".into())
    }
}
