//! C03 — no error is masked: a defect anywhere in the compilation set makes check fail.
//!
//! Every faulty unit (file-level: invalid character, syntax error, unclosed comment; declaration-level:
//! each independent rule; same name twice for every declaration kind pair x {identical, different
//! body, different case}) x companions (0..2 quick / 0..3 thorough valid declarations, including ones
//! that use the faulty name) x every position x every partition into <= 3 files x every file iteration
//! order (H2 seam), through the in-memory FileBackedProject; toposort multiset conservation through H3.

use crate::cli;
use crate::explore::{permutations, set_partitions};
use crate::report::Ctx;
use crate::util::Scratch;
use crate::world::{d, Decl};
use ironplcc::project::{FileBackedProject, Project};
use rayon::prelude::*;
use serde_json::{json, Value};
use std::collections::BTreeSet;
use std::time::Duration;

#[derive(Clone, Debug)]
pub struct Fault {
    pub kind: String,
    /// the declarations of the faulty unit (1, or 2 for duplicates)
    pub decls: Vec<Decl>,
    /// a whole file that does not parse (then `decls` holds one pseudo declaration with the file text)
    pub file_level: bool,
    /// code that must be present when the companions are valid and do not clash; None = any code
    pub code: Option<&'static str>,
    /// file-level faults: the codes one of which must be reported for that file
    pub file_codes: Vec<&'static str>,
    /// a valid companion that is related to the fault by name (declares what the faulty unit lacks,
    /// or uses the same names): state must not leak from it into the judgement of the faulty unit
    pub related: Option<Decl>,
}

const RELATED: usize = usize::MAX - 1;
/// companions the analyzer answers with "not implemented" (P9999): they are no errors of the user's,
/// and they must not hide one either
const UNSUPPORTED1: usize = usize::MAX - 2;
const UNSUPPORTED2: usize = usize::MAX - 3;

fn unsupported_companion(k: usize) -> Decl {
    if k == UNSUPPORTED1 {
        d("Unsup1", "fb", "FUNCTION_BLOCK Unsup1 VAR CONSTANT Table : ARRAY [ 1 .. 3 ] OF INT := [ 1 , 2 , 3 ] ; END_VAR VAR n : INT ; END_VAR n := 1 ; END_FUNCTION_BLOCK")
    } else {
        d("Unsup2", "program", "PROGRAM Unsup2 VAR CONSTANT Flag AT %MW1 : INT := 1 ; END_VAR VAR n : INT ; END_VAR n := 1 ; END_PROGRAM")
    }
}

fn companions_pool() -> Vec<Decl> {
    vec![
        d("Level", "type", "TYPE Level : ( Low , High ) := Low ; END_TYPE"),
        d("Callee", "fb", "FUNCTION_BLOCK Callee VAR_INPUT a : INT ; END_VAR VAR_OUTPUT q : INT ; END_VAR q := a ; END_FUNCTION_BLOCK"),
        d("User", "fb", "FUNCTION_BLOCK User VAR inst : Callee ; lv : Level := Low ; n : INT ; END_VAR inst ( a := n , q => n ) ; END_FUNCTION_BLOCK"),
        d("Main", "program", "PROGRAM Main VAR u : User ; END_VAR u ( ) ; END_PROGRAM"),
    ]
}

/// A companion that uses the (possibly duplicated) name inside its body.
fn name_user(name: &str, kind: &str) -> Option<Decl> {
    match kind {
        "fb" => Some(d("NameUser", "fb", &format!("FUNCTION_BLOCK NameUser VAR i : {} ; END_VAR i ( ) ; END_FUNCTION_BLOCK", name))),
        "type" => Some(d("NameUser", "fb", &format!("FUNCTION_BLOCK NameUser VAR v : {} ; n : INT ; END_VAR n := 1 ; END_FUNCTION_BLOCK", name))),
        "function" => Some(d("NameUser", "fb", &format!("FUNCTION_BLOCK NameUser VAR n : INT ; END_VAR n := {} ( 1 ) ; END_FUNCTION_BLOCK", name))),
        _ => None,
    }
}

fn dup_forms(name: &str) -> Vec<(&'static str, &'static str, String, String)> {
    // (kind label, decl kind, first body, different second body)
    vec![
        ("type-enum", "type", format!("TYPE {} : ( A1 , B1 ) := A1 ; END_TYPE", name), format!("TYPE {} : ( C1 , D1 ) := C1 ; END_TYPE", name)),
        ("type-struct", "type", format!("TYPE {} : STRUCT x : INT ; END_STRUCT ; END_TYPE", name), format!("TYPE {} : STRUCT y : BOOL ; END_STRUCT ; END_TYPE", name)),
        ("type-subrange", "type", format!("TYPE {} : INT ( 0 .. 5 ) ; END_TYPE", name), format!("TYPE {} : INT ( 1 .. 9 ) ; END_TYPE", name)),
        ("type-array", "type", format!("TYPE {} : ARRAY [ 1 .. 2 ] OF INT ; END_TYPE", name), format!("TYPE {} : ARRAY [ 1 .. 3 ] OF BOOL ; END_TYPE", name)),
        ("type-simple", "type", format!("TYPE {} : INT := 5 ; END_TYPE", name), format!("TYPE {} : INT := 6 ; END_TYPE", name)),
        ("type-string", "type", format!("TYPE {} : STRING [ 10 ] ; END_TYPE", name), format!("TYPE {} : STRING [ 20 ] ; END_TYPE", name)),
        ("type-alias", "type", format!("TYPE {} : Level ; END_TYPE", name), format!("TYPE {} : Level ; END_TYPE", name)),
        ("fb", "fb", format!("FUNCTION_BLOCK {} VAR a : INT ; END_VAR a := 1 ; END_FUNCTION_BLOCK", name), format!("FUNCTION_BLOCK {} VAR b : BOOL ; END_VAR b := TRUE ; END_FUNCTION_BLOCK", name)),
        ("function", "function", format!("FUNCTION {} : INT VAR_INPUT a : INT ; END_VAR {} := a ; END_FUNCTION", name, name), format!("FUNCTION {} : INT VAR_INPUT b : INT ; END_VAR {} := b + 1 ; END_FUNCTION", name, name)),
        ("program", "program", format!("PROGRAM {} VAR a : INT ; END_VAR a := 1 ; END_PROGRAM", name), format!("PROGRAM {} VAR b : INT ; END_VAR b := 2 ; END_PROGRAM", name)),
    ]
}

pub fn faults() -> Vec<Fault> {
    let mut out = vec![];
    let one = |kind: &str, words: &str, code: &'static str, related: Option<&str>| Fault {
        kind: kind.into(),
        decls: vec![d("Faulty", "decl", words)],
        file_level: false,
        code: Some(code),
        file_codes: vec![],
        related: related.map(|w| d("Related", "decl", w)),
    };
    // file-level
    for (kind, text, codes) in [
        ("file:invalid-character", "FUNCTION_BLOCK Bad1 VAR a : INT ; END_VAR a := ? ; END_FUNCTION_BLOCK", vec!["P0031"]),
        ("file:syntax-error", "FUNCTION_BLOCK Bad2 VAR a : INT ; END_VAR a := ; END_FUNCTION_BLOCK", vec!["P0002"]),
        ("file:unclosed-comment", "FUNCTION_BLOCK Bad3 END_FUNCTION_BLOCK (* never closed", vec!["P0001", "P0031", "P0002"]),
        ("file:stray-token", "END_VAR", vec!["P0002"]),
    ] {
        out.push(Fault { kind: kind.into(), decls: vec![d("BadFile", "file", text)], file_level: true, code: None, file_codes: codes, related: None });
    }
    // declaration-level faults that do not depend on other declarations
    out.push(one("decl:P0003-duplicate-struct-element", "TYPE BadSt : STRUCT x : INT ; x : BOOL ; END_STRUCT ; END_TYPE", "P0003", Some("TYPE GoodSt : STRUCT x : INT ; y : BOOL ; END_STRUCT ; END_TYPE")));
    out.push(one("decl:P0004-subrange-limits", "TYPE BadRng : INT ( 10 .. -10 ) ; END_TYPE", "P0004", Some("TYPE GoodRng : INT ( -10 .. 10 ) ; END_TYPE")));
    out.push(one(
        "decl:P0004-array-bounds-of-a-variable",
        "FUNCTION_BLOCK BadArr VAR a : ARRAY [ 1 .. 4 , 8 .. 2 ] OF INT ; END_VAR END_FUNCTION_BLOCK",
        "P0004",
        Some("FUNCTION_BLOCK GoodArr VAR a : ARRAY [ 1 .. 4 , 2 .. 8 ] OF INT ; END_VAR END_FUNCTION_BLOCK"),
    ));
    out.push(one(
        "decl:P0004-array-bounds-of-a-structure-element",
        "TYPE BadStArr : STRUCT a : ARRAY [ 8 .. 2 ] OF INT ; END_STRUCT ; END_TYPE",
        "P0004",
        Some("TYPE GoodStArr : STRUCT a : ARRAY [ 2 .. 8 ] OF INT ; END_STRUCT ; END_TYPE"),
    ));
    out.push(one(
        "decl:P0012-initial-value-of-an-undeclared-enumeration",
        "FUNCTION_BLOCK BadLv VAR lv : NoSuchLevel := Critical ; END_VAR END_FUNCTION_BLOCK",
        "P0012",
        Some("FUNCTION_BLOCK GoodLv VAR lv : INT := 1 ; END_VAR END_FUNCTION_BLOCK"),
    ));
    out.push(one("decl:P0005-duplicate-enum-value", "TYPE BadEn : ( A2 , A2 ) := A2 ; END_TYPE", "P0005", Some("TYPE GoodEn : ( A2 , B2 ) := A2 ; END_TYPE")));
    out.push(one(
        "decl:P0016-constant-without-initial-value",
        "FUNCTION_BLOCK BadK VAR CONSTANT k : INT ; END_VAR END_FUNCTION_BLOCK",
        "P0016",
        Some("FUNCTION_BLOCK GoodK VAR CONSTANT k : INT := 1 ; END_VAR END_FUNCTION_BLOCK"),
    ));
    out.push(one("decl:P0016-in-function", "FUNCTION BadFn : INT VAR CONSTANT k : INT ; END_VAR BadFn := 1 ; END_FUNCTION", "P0016", Some("FUNCTION GoodFn : INT VAR CONSTANT k : INT := 2 ; END_VAR GoodFn := k ; END_FUNCTION")));
    out.push(one(
        "decl:P0011-undefined-task",
        "CONFIGURATION badcfg RESOURCE r ON PLC PROGRAM p WITH nope : Main ; END_RESOURCE END_CONFIGURATION",
        "P0011",
        // a valid configuration that declares a task of the very name the faulty one lacks
        Some("CONFIGURATION goodcfg RESOURCE r2 ON PLC TASK nope ( PRIORITY := 1 ) ; PROGRAM p2 WITH nope : Main ; END_RESOURCE END_CONFIGURATION"),
    ));
    // an undeclared variable is not cured by a declaration of that name somewhere else: variables belong to their unit
    out.push(one(
        "decl:P0015-undeclared-variable",
        "FUNCTION_BLOCK BadUse VAR a : INT ; END_VAR a := zz9 ; END_FUNCTION_BLOCK",
        "P0015",
        Some("FUNCTION_BLOCK GoodUse VAR zz9 : INT ; END_VAR zz9 := 1 ; END_FUNCTION_BLOCK"),
    ));
    out.push(one(
        "decl:P0015-undeclared-variable-and-a-user-that-declares-it",
        "FUNCTION_BLOCK BadUse2 VAR a : INT ; END_VAR a := zz9 ; END_FUNCTION_BLOCK",
        "P0015",
        Some("FUNCTION_BLOCK GoodUser VAR zz9 : INT ; inner : BadUse2 ; END_VAR inner ( ) ; zz9 := 1 ; END_FUNCTION_BLOCK"),
    ));
    out.push(one(
        "decl:P0015-undeclared-variable-in-a-program-beside-a-global-of-that-name",
        "PROGRAM BadProg VAR a : INT ; END_VAR a := zz9 ; END_PROGRAM",
        "P0015",
        Some("CONFIGURATION cfg9 VAR_GLOBAL zz9 : INT ; END_VAR RESOURCE r9 ON PLC TASK t9 ( PRIORITY := 1 ) ; PROGRAM p9 WITH t9 : Main ; END_RESOURCE END_CONFIGURATION"),
    ));
    out.push(one(
        "decl:P0015-undeclared-variable-in-a-function-beside-a-function-that-declares-it",
        "FUNCTION BadFn2 : INT VAR_INPUT a : INT ; END_VAR BadFn2 := a + zz9 ; END_FUNCTION",
        "P0015",
        Some("FUNCTION GoodFn2 : INT VAR_INPUT zz9 : INT ; END_VAR GoodFn2 := zz9 ; END_FUNCTION"),
    ));
    // P0017 needs the callee to exist: a self-contained pair
    out.push(Fault {
        kind: "decl:P0017-constant-fb-instance".into(),
        decls: vec![d("Inner7", "fb", "FUNCTION_BLOCK Inner7 VAR a : INT ; END_VAR END_FUNCTION_BLOCK"), d("BadFbK", "fb", "FUNCTION_BLOCK BadFbK VAR CONSTANT i : Inner7 ; END_VAR END_FUNCTION_BLOCK")],
        file_level: false,
        code: Some("P0017"),
        file_codes: vec![],
        related: Some(d("GoodFbK", "fb", "FUNCTION_BLOCK GoodFbK VAR i : Inner7 ; END_VAR END_FUNCTION_BLOCK")),
    });
    // duplicates: same kind
    let forms = dup_forms("Dup");
    for (label, kind, first, second) in &forms {
        for (variant, second_text) in [("identical", first.clone()), ("different-body", second.clone()), ("different-case", second.replace("Dup", "DUP"))] {
            out.push(Fault {
                kind: format!("duplicate:{}/{}:{}", label, label, variant),
                decls: vec![d("Dup", kind, first), d("Dup", kind, &second_text)],
                file_level: false,
                code: None,
                file_codes: vec![],
                related: None,
            });
        }
    }
    // duplicates: different kinds sharing a name
    let pick = |l: &str| forms.iter().find(|f| f.0 == l).unwrap().clone();
    for (a, b) in [("type-enum", "fb"), ("type-struct", "function"), ("type-enum", "program"), ("fb", "function"), ("fb", "program"), ("type-enum", "type-struct"), ("type-alias", "fb"), ("type-simple", "fb"), ("type-string", "function")] {
        let (fa, fb_) = (pick(a), pick(b));
        for swap in [false, true] {
            let (x, y) = if swap { (&fb_, &fa) } else { (&fa, &fb_) };
            out.push(Fault {
                kind: format!("duplicate:{}/{}:{}", x.0, y.0, "cross-kind"),
                decls: vec![d("Dup", x.1, &x.2), d("Dup", y.1, &y.2)],
                file_level: false,
                code: None,
                file_codes: vec![],
                related: None,
            });
        }
    }
    out
}

#[derive(Clone, Debug)]
pub struct CaseSpec {
    pub fault: usize,
    /// companion declarations (indices into the pool, usize::MAX = the name-using companion)
    pub companions: Vec<usize>,
    /// sequence of items: None = companion k in order, Some(j) = j-th faulty declaration
    pub sequence: Vec<(bool, usize)>, // (is_fault_decl, index)
    /// file assignment of each sequence item (restricted growth string)
    pub files: Vec<usize>,
    pub order: Vec<usize>,
}

struct Outcome {
    key: Option<String>,
    what: String,
    class: &'static str,
}

fn texts_of(f: &Fault, pool: &[Decl], c: &CaseSpec) -> Vec<String> {
    let nfiles = c.files.iter().max().map(|m| m + 1).unwrap_or(0);
    let mut files = vec![String::new(); nfiles];
    for (k, (is_fault, idx)) in c.sequence.iter().enumerate() {
        let decl = if *is_fault {
            f.decls[*idx].clone()
        } else if *idx == usize::MAX {
            name_user("Dup", f.decls[0].kind).unwrap_or_else(|| pool[0].clone())
        } else if *idx == RELATED {
            f.related.clone().unwrap_or_else(|| pool[0].clone())
        } else if *idx == UNSUPPORTED1 || *idx == UNSUPPORTED2 {
            unsupported_companion(*idx)
        } else {
            pool[*idx].clone()
        };
        files[c.files[k]].push_str(&decl.text());
    }
    files
}

/// File names are data too: the set must be judged the same whatever the files are called.
pub const NAME_POLICIES: [&str; 4] = ["plain", "names-differ-in-case-only", "same-name-in-different-directories", "one-name-is-a-prefix-of-the-other"];
pub fn file_names(policy: usize, n: usize) -> Vec<String> {
    (0..n)
        .map(|i| match policy {
            1 => {
                // Unit.st, unit.st, UNIT.st, uNIT.st … : bit k of i decides the case of letter k
                let base = "unit";
                let nm: String = base.chars().enumerate().map(|(k, ch)| if (i + 1) >> k & 1 == 1 { ch.to_ascii_uppercase() } else { ch }).collect();
                format!("/w/{}.st", nm)
            }
            2 => format!("/w/d{}/unit.st", i),
            3 => format!("/w/u{}", ".st".repeat(i + 1)),
            _ => format!("/w/f{}.st", i),
        })
        .collect()
}

fn run_case(f: &Fault, pool: &[Decl], c: &CaseSpec) -> Outcome {
    let first = run_case_named(f, pool, c, 0);
    if first.key.is_some() || c.files.iter().max().map(|m| m + 1).unwrap_or(0) < 2 || c.companions.len() > 2 {
        return first;
    }
    for policy in 1..NAME_POLICIES.len() {
        let mut o = run_case_named(f, pool, c, policy);
        if let Some(k) = o.key.take() {
            o.key = Some(format!("{}/{}", k, NAME_POLICIES[policy]));
            o.what = format!("[file names {:?}] {}", file_names(policy, 3), o.what);
            return o;
        }
    }
    first
}

thread_local! {
    static REPEAT_OK: std::cell::Cell<u8> = const { std::cell::Cell::new(0) };
}

fn run_case_named(f: &Fault, pool: &[Decl], c: &CaseSpec, policy: usize) -> Outcome {
    let files = texts_of(f, pool, c);
    let names: Vec<String> = file_names(policy, files.len());
    let _w = crate::util::watch::enter(&files.join("\n(* next file *)\n"));
    let r = crate::util::catch(|| {
        let mut p = FileBackedProject::new();
        for (n, t) in names.iter().zip(files.iter()) {
            p.change_text_document(&crate::front::fid(n), t.clone());
        }
        ironplcc::verif::set_order(Some(c.order.clone()));
        let r = p.semantic();
        // the same project asked again (an editor asks after every keystroke), and asked again after a
        // valid document was added: a failing set stays failing
        let small = c.companions.len() <= 2 && policy == 0;
        let again_ok = small && r.is_err() && p.semantic().is_ok();
        let after_add_ok = small && r.is_err() && {
            p.change_text_document(&crate::front::fid("/w/zz_added_later.st"), "FUNCTION_BLOCK AddedLater VAR n : INT ; END_VAR n := 1 ; END_FUNCTION_BLOCK\n".to_string());
            p.semantic().is_ok()
        };
        ironplcc::verif::set_order(None);
        if again_ok || after_add_ok {
            REPEAT_OK.with(|c| c.set(if again_ok { 1 } else { 2 }));
        }
        r
    });
    let repeat = REPEAT_OK.with(|c| c.replace(0));
    if repeat != 0 && r.as_ref().map(|x| x.is_err()).unwrap_or(false) {
        let how = if repeat == 1 { "asked-again" } else { "asked-again-after-adding-a-valid-document" };
        return Outcome {
            key: Some(format!("{}#failing-set-reported-OK-when-{}", f.kind, how)),
            what: format!("semantic() fails on the set, but the same project {} returns Ok; files: {:?}", how.replace('-', " "), files.iter().map(|t| crate::util::short(t, 70)).collect::<Vec<_>>()),
            class: "masked: reported OK",
        };
    }
    let companions_shape = if c.companions.is_empty() {
        "alone"
    } else if c.companions.contains(&usize::MAX) {
        "with-companions-using-the-name"
    } else if c.companions.contains(&RELATED) {
        "with-a-related-valid-declaration"
    } else if c.companions.contains(&UNSUPPORTED1) || c.companions.contains(&UNSUPPORTED2) {
        "with-a-declaration-the-analyzer-does-not-implement"
    } else {
        "with-valid-companions"
    };
    let layout = if files.len() == 1 { "one-file" } else { "several-files" };
    match r {
        Err(p) => Outcome { key: Some(format!("{}+{}#panic@{}", f.kind, companions_shape, p.loc)), what: format!("semantic() panicked at {}", p.loc), class: "panic" },
        Ok(Ok(())) => Outcome {
            key: Some(format!("{}+{}/{}#OK", f.kind, companions_shape, layout)),
            what: format!("the set contains {} but semantic() returns Ok; files: {:?}", f.kind, files.iter().map(|t| crate::util::short(t, 70)).collect::<Vec<_>>()),
            class: "masked: reported OK",
        },
        Ok(Err(ds)) => {
            let codes: BTreeSet<String> = ds.iter().map(|d| d.code.clone()).collect();
            if f.file_level {
                // the faulty file is the one holding the pseudo declaration
                let k = c.sequence.iter().position(|s| s.0).unwrap();
                let file = &names[c.files[k]];
                let ok = ds.iter().any(|d| f.file_codes.contains(&d.code.as_str()) && d.primary.file_id.to_string() == *file);
                if !ok {
                    return Outcome {
                        key: Some(format!("{}+{}/{}#file-diagnostic-missing", f.kind, companions_shape, layout)),
                        what: format!("the diagnostics {:?} do not contain {:?} for the faulty file", codes, f.file_codes),
                        class: "masked: other error only",
                    };
                }
            } else if let Some(code) = f.code {
                if !codes.contains(code) {
                    return Outcome {
                        key: Some(format!("{}+{}/{}#code-missing", f.kind, companions_shape, layout)),
                        what: format!("the diagnostics {:?} do not contain {}", codes, code),
                        class: "masked: other error only",
                    };
                }
            }
            Outcome { key: None, what: String::new(), class: "diagnosed" }
        }
    }
}

pub fn cases(deep: bool) -> (Vec<Fault>, Vec<Decl>, Vec<CaseSpec>) {
    // quick = the former thorough tier (3 companions, 4 files); thorough = 4 companions, 5 files
    let thorough = true;
    let fs = faults();
    let pool = companions_pool();
    let max_comp = if deep { 4 } else { 3 };
    let mut out = vec![];
    // companion lists: prefixes of the pool in dependency order (so that they are valid on their own), plus the name user
    let mut comp_lists: Vec<Vec<usize>> = vec![vec![]];
    for k in 1..=max_comp.min(pool.len()) {
        comp_lists.push((0..k).collect());
    }
    comp_lists.push(vec![0, 1, 2, 3]);
    for (fi, f) in fs.iter().enumerate() {
        let mut lists = comp_lists.clone();
        if f.kind.starts_with("duplicate") && name_user("Dup", f.decls[0].kind).is_some() {
            lists.push(vec![usize::MAX]);
            lists.push(vec![0, usize::MAX]);
        }
        if !f.file_level {
            lists.push(vec![UNSUPPORTED1]);
            lists.push(vec![UNSUPPORTED2]);
            lists.push(vec![0, UNSUPPORTED1]);
        }
        if f.related.is_some() {
            lists.push(vec![RELATED]);
            lists.push(vec![0, RELATED]);
            lists.push(vec![0, 1, 2, 3, RELATED]);
        }
        for comps in &lists {
            if comps.len() > max_comp + 1 && !thorough {
                continue;
            }
            let nf = f.decls.len();
            let total = comps.len() + nf;
            // positions of the faulty declarations among the companions (order of faulty decls kept)
            let mut position_sets: Vec<Vec<usize>> = vec![];
            fn choose(n: usize, k: usize, start: usize, cur: &mut Vec<usize>, out: &mut Vec<Vec<usize>>) {
                if cur.len() == k {
                    out.push(cur.clone());
                    return;
                }
                for i in start..n {
                    cur.push(i);
                    choose(n, k, i + 1, cur, out);
                    cur.pop();
                }
            }
            choose(total, nf, 0, &mut vec![], &mut position_sets);
            for pos in position_sets {
                let mut seq: Vec<(bool, usize)> = vec![];
                let (mut ci, mut fj) = (0, 0);
                for i in 0..total {
                    if fj < nf && pos[fj] == i {
                        seq.push((true, fj));
                        fj += 1;
                    } else {
                        seq.push((false, comps[ci]));
                        ci += 1;
                    }
                }
                let max_files = if deep { 5 } else { 4 };
                for files in set_partitions(total, max_files) {
                    // a file-level fault is a file of its own
                    if f.file_level {
                        let k = seq.iter().position(|s| s.0).unwrap();
                        if files.iter().enumerate().any(|(i, fl)| i != k && *fl == files[k]) {
                            continue;
                        }
                    }
                    let nfiles = files.iter().max().unwrap() + 1;
                    for order in permutations(nfiles) {
                        out.push(CaseSpec { fault: fi, companions: comps.clone(), sequence: seq.clone(), files: files.clone(), order });
                    }
                }
            }
        }
    }
    (fs, pool, out)
}

pub fn run(ctx: &mut Ctx) {
    let thorough = ctx.tier.thorough();
    let (fs, pool, specs) = cases(thorough);
    ctx.rule = "faulty unit (4 file-level faults, 7 independent declaration-level faults, same-name pairs: 10 declaration forms x {identical, different body, different case} and 18 cross-kind pairs) x companion lists (prefixes of a valid dependency chain, and companions that use the duplicated name) x every position of the faulty declarations x every set partition into files x every file iteration order, and for sets of at least two files with at most two companions also under three further file-naming policies (names that differ in case only, the same name in different directories, one name a prefix of the other); every failing project with at most two companions is asked a second time, and a third time after a valid document was added; distinct = distinct (fault, companions, positions, partition, order)".into();
    ctx.bounds.insert("faults".into(), json!(fs.len()));
    ctx.bounds.insert("max_companions".into(), json!(if thorough { 5 } else { 4 }));
    ctx.bounds.insert("max_files".into(), json!(if thorough { 5 } else { 4 }));
    ctx.assumptions.push("file iteration order is owned through the H2 seam (all permutations); 'undeclared' codes are exempt from monotonicity as the property says; the companions are valid on their own (asserted)".into());
    // the companions alone must be valid (non-vacuity / soundness of the monotonicity argument)
    for k in 1..=pool.len() {
        let text: String = pool[..k].iter().map(|d| d.text()).collect();
        let (v, _) = crate::front::check_texts(&[&text]);
        if !v.is_ok() {
            ctx.fail("machinery/companions-not-valid", &format!("companion prefix {} is not valid on its own: {}", k, v.short()), json!({"text": text}));
        }
    }
    let outs: Vec<Outcome> = specs.par_iter().map(|c| run_case(&fs[c.fault], &pool, c)).collect();
    let total = specs.len() as u64;
    for (i, (c, o)) in specs.iter().zip(outs.iter()).enumerate() {
        ctx.evaluations += 1;
        ctx.transitions += 1;
        ctx.distinct(&format!("{}|{:?}|{:?}|{:?}|{:?}", c.fault, c.companions, c.sequence, c.files, c.order));
        ctx.outcome(o.class);
        if let Some(k) = &o.key {
            let policy = NAME_POLICIES.iter().position(|p| k.ends_with(&format!("/{}", p))).unwrap_or(0);
            ctx.fail(k, &o.what, json!({"fault": fs[c.fault].kind, "files": texts_of(&fs[c.fault], &pool, c), "order": c.order, "names": file_names(policy, 8)}));
        }
        if ctx.want_sample(i as u64, total) {
            ctx.sample(json!({"fault": fs[c.fault].kind, "files": texts_of(&fs[c.fault], &pool, c).iter().map(|t| crate::util::short(t, 120)).collect::<Vec<_>>(), "file_order": c.order, "outcome": o.class}));
        }
    }
    ctx.states = total;

    // (5) toposort conserves the multiset of declarations whenever it returns Ok
    let mut topo_checked = 0u64;
    for f in &fs {
        if f.file_level {
            continue;
        }
        for comps in [vec![], vec![0usize, 1, 2, 3]] {
            let mut text = String::new();
            for c in &comps {
                text.push_str(&pool[*c].text());
            }
            for dcl in &f.decls {
                text.push_str(&dcl.text());
            }
            if let Ok(lib) = crate::front::parse(&text, "t.st") {
                let before = lib.elements.len();
                if let Ok(Ok(sorted)) = crate::util::catch(|| ironplc_analyzer::verif::toposort(lib.clone())) {
                    topo_checked += 1;
                    let mut a: Vec<String> = lib.elements.iter().map(|e| format!("{:?}", e)).collect();
                    let mut b: Vec<String> = sorted.elements.iter().map(|e| format!("{:?}", e)).collect();
                    a.sort();
                    b.sort();
                    if a != b {
                        ctx.fail(
                            &format!("{}#declaration-sort-loses-or-duplicates-declarations", f.kind),
                            &format!("xform_toposort_declarations returns {} declarations for {} in the input", sorted.elements.len(), before),
                            json!({"fault": f.kind, "files": [text]}),
                        );
                    }
                }
            }
        }
    }
    ctx.extra.insert("toposort_conservation_checks".into(), json!(topo_checked));
    ctx.transitions += topo_checked;

    // (6) the same through the real binary for a systematic subset (random hash order: any enumerated order may be hit)
    let stride = (specs.len() / if thorough { 600 } else { 300 }).max(1);
    let subset: Vec<usize> = (0..specs.len()).filter(|i| i % stride == 0).collect();
    let scratch = Scratch::new("c03");
    let cli_res: Vec<(usize, Option<String>)> = subset
        .par_iter()
        .map(|i| {
            let c = &specs[*i];
            let files = texts_of(&fs[c.fault], &pool, c);
            let dir = scratch.sub(&format!("s{}", i));
            let tmp = scratch.sub(&format!("t{}", i));
            let mut args = vec!["check".to_string()];
            let policy = (*i / stride) % NAME_POLICIES.len();
            for (t, nm) in files.iter().zip(file_names(policy, files.len())) {
                let p = dir.join(nm.trim_start_matches("/w/"));
                std::fs::create_dir_all(p.parent().unwrap()).unwrap();
                std::fs::write(&p, t).unwrap();
                args.push(p.to_string_lossy().to_string());
            }
            let a: Vec<&str> = args.iter().map(|s| s.as_str()).collect();
            let r = cli::run(&a, &tmp, Duration::from_secs(30));
            // the in-process verdicts over all orders of this partition
            let mut verdicts = BTreeSet::new();
            for order in permutations(files.len()) {
                let mut cc = c.clone();
                cc.order = order;
                verdicts.insert(run_case(&fs[c.fault], &pool, &cc).class == "masked: reported OK");
            }
            let cli_ok = r.exit == Some(0);
            let consistent = verdicts.contains(&cli_ok) && !r.crashed();
            if !consistent {
                return (*i, Some(format!("binary {} but in-process 'reported OK' over all file orders is {:?}", r.summary(), verdicts)));
            }
            // the same set presented as a directory, and as one listed file plus a directory holding the others
            // (listed file first and last; the first and the last file of the set as the listed one)
            let names = file_names(0, files.len());
            let mut presentations: Vec<(String, Vec<String>)> = vec![];
            let all = dir.join("all");
            std::fs::create_dir_all(&all).unwrap();
            for (t, nm) in files.iter().zip(names.iter()) {
                std::fs::write(all.join(nm.trim_start_matches("/w/")), t).unwrap();
            }
            presentations.push(("directory".into(), vec![all.to_string_lossy().to_string()]));
            if files.len() >= 2 {
                for (which, k) in [("first", 0usize), ("last", files.len() - 1)] {
                    let d = dir.join(format!("split-{}", which));
                    let rest = d.join("rest");
                    std::fs::create_dir_all(&rest).unwrap();
                    let listed = d.join(names[k].trim_start_matches("/w/"));
                    for (j, (t, nm)) in files.iter().zip(names.iter()).enumerate() {
                        if j == k {
                            std::fs::write(&listed, t).unwrap();
                        } else {
                            std::fs::write(rest.join(nm.trim_start_matches("/w/")), t).unwrap();
                        }
                    }
                    let (l, r) = (listed.to_string_lossy().to_string(), rest.to_string_lossy().to_string());
                    presentations.push((format!("{}-file-listed-then-directory", which), vec![l.clone(), r.clone()]));
                    presentations.push((format!("directory-then-{}-file-listed", which), vec![r, l]));
                }
            }
            for (pname, pargs) in presentations {
                let mut a: Vec<&str> = vec!["check"];
                a.extend(pargs.iter().map(|x| x.as_str()));
                let r = cli::run(&a, &tmp, Duration::from_secs(30));
                if !(verdicts.contains(&(r.exit == Some(0))) && !r.crashed()) {
                    return (*i, Some(format!("presented as {}: binary {} but in-process 'reported OK' over all file orders is {:?}", pname, r.summary(), verdicts)));
                }
            }
            (*i, None)
        })
        .collect();
    for (i, r) in cli_res {
        ctx.traces += 1;
        if let Some(m) = r {
            let pres = if m.starts_with("presented as ") { m["presented as ".len()..].split(':').next().unwrap_or("").to_string() } else { String::new() };
            ctx.fail(&format!("{}#binary-differs-from-in-process{}", fs[specs[i].fault].kind, if pres.is_empty() { String::new() } else { format!("/{}", pres) }), &m, json!({"fault": fs[specs[i].fault].kind, "files": texts_of(&fs[specs[i].fault], &pool, &specs[i])}));
        }
    }
    ctx.extra.insert("cli_runs".into(), json!(ctx.traces));
    // what is written before or after a description block is code: a fault there is reported
    crate::oscat::run_into(ctx, if thorough { 7 } else { 6 });
}

pub fn replay(case: &Value) -> Result<String, String> {
    if case["mode"] == json!("description-blocks") {
        return crate::oscat::replay(case["text"].as_str().ok_or("text")?);
    }
    let files: Vec<String> = case["files"].as_array().ok_or("files")?.iter().map(|x| x.as_str().unwrap_or("").to_string()).collect();
    let order: Option<Vec<usize>> = case["order"].as_array().map(|a| a.iter().map(|x| x.as_u64().unwrap_or(0) as usize).collect());
    let mut p = FileBackedProject::new();
    let names: Vec<String> = match case["names"].as_array() {
        Some(a) => a.iter().map(|x| x.as_str().unwrap_or("").to_string()).collect(),
        None => file_names(0, files.len()),
    };
    for (i, t) in files.iter().enumerate() {
        p.change_text_document(&crate::front::fid(&names[i]), t.clone());
    }
    ironplcc::verif::set_order(order);
    let r = p.semantic();
    ironplcc::verif::set_order(None);
    match r {
        Ok(()) => Err(format!("the set contains {} but semantic() returns Ok", case["fault"])),
        Err(ds) => Ok(format!("diagnosed: {:?}", ds.iter().map(|d| d.code.clone()).collect::<Vec<_>>())),
    }
}
