//! C15 — semantic tokens decode to exactly the highlighted lexemes of the document.
//!
//! Every base document x every non-glued gap x every trivia menu member (one gap at a time, and
//! all gaps at once), sent to the real server (in-process), decoded by the LSP relative rule and
//! compared with the generator's own lexeme table; token requests after edit histories; invalid
//! text; stdio conformance against the real binary.

use crate::corpus;
use crate::lex::*;
use crate::lspx::*;
use crate::report::Ctx;
use rayon::prelude::*;
use serde_json::{json, Value};

const URI: &str = "file:///w/a.st";
const URI_B: &str = "file:///w/b.st";

// legend indices as declared in the server capabilities (read from the initialize result)
#[derive(Clone, Debug)]
struct Legend {
    names: Vec<String>,
}

impl Legend {
    fn name(&self, i: u64) -> String {
        self.names.get(i as usize).cloned().unwrap_or_else(|| format!("#{}", i))
    }
}

/// The legend the server declares in the initialize result.
fn declared_legend() -> Option<Legend> {
    let (sc, cc) = lsp_server::Connection::memory();
    let h = std::thread::spawn(move || ironplcc::verif::serve(sc, ironplcc::lsp_project::LspProject::new(Box::new(ironplcc::project::FileBackedProject::new()))));
    let _ = cc.sender.send(serde_json::from_value(json!({"id":1,"method":"initialize","params":{"capabilities":{}}})).unwrap());
    let mut out = None;
    if let Ok(m) = cc.receiver.recv_timeout(WATCHDOG) {
        let v = serde_json::to_value(&m).unwrap();
        let declared: Vec<String> = v["result"]["capabilities"]["semanticTokensProvider"]["legend"]["tokenTypes"]
            .as_array()
            .map(|a| a.iter().map(|x| x.as_str().unwrap_or("?").to_string()).collect())
            .unwrap_or_default();
        if !declared.is_empty() {
            out = Some(Legend { names: declared });
        }
    }
    drop(cc);
    let _ = h.join();
    out
}

fn default_legend() -> Legend {
    // fallback only: the legend is read from the initialize response (declared_legend)
    Legend {
        names: ["variable", "keyword", "modifier", "comment", "string", "operator"].iter().map(|s| s.to_string()).collect(),
    }
}

#[derive(Clone, Debug)]
pub struct Variant {
    pub doc: String,
    /// label of the trivia deviation ("canonical", "gap:<member>", "all:<member>", "invalid-char")
    pub label: String,
    /// classes around the deviated gap (left·right), empty for whole-document variants
    pub site: String,
    pub spelled: Spelled,
    pub valid: bool,
}

fn variants(deep: bool) -> Vec<Variant> {
    // quick = the former thorough tier (complete menu at every single gap) plus the simplest program of every
    // grammar group; thorough adds every program of the reference grammar with one deviation, each also with
    // every menu member at every gap at once
    let thorough = true;
    let mut out = vec![];
    let menu = corpus::trivia_menu();
    for c in crate::gram::generate(if deep { 1 } else { 0 }) {
        let lx = &c.lx.v;
        if lx.len() < 2 || !crate::front::tokenize(&spell(lx).text, "/w/x.st").1.is_empty() {
            continue; // programs the lexer rejects are C01's subject
        }
        let name: String = format!("gram:{}", c.id());
        out.push(Variant { doc: name.clone(), label: "canonical".into(), site: String::new(), spelled: spell(lx), valid: true });
        out.push(Variant { doc: name.clone(), label: "lines".into(), site: String::new(), spelled: spell_lines(lx), valid: true });
        if deep {
            for (mname, mtext) in &menu {
                let sp = spell_with(lx, "", "\n", &|_, g| match g {
                    Glue::Hard => String::new(),
                    _ => mtext.to_string(),
                });
                out.push(Variant { doc: name.clone(), label: format!("all:{}", mname), site: String::new(), spelled: sp, valid: true });
            }
        }
    }
    for d in corpus::docs() {
        let lx = &d.lx.v;
        out.push(Variant { doc: d.name.into(), label: "canonical".into(), site: String::new(), spelled: spell(lx), valid: true });
        out.push(Variant { doc: d.name.into(), label: "lines".into(), site: String::new(), spelled: spell_lines(lx), valid: true });
        // every gap at once -> each menu member
        for (mname, mtext) in &menu {
            let sp = spell_with(lx, "", "\n", &|_, g| match g {
                Glue::Hard => String::new(),
                _ => mtext.to_string(),
            });
            out.push(Variant { doc: d.name.into(), label: format!("all:{}", mname), site: String::new(), spelled: sp, valid: true });
        }
        // one gap at a time
        let gaps: Vec<usize> = (0..lx.len().saturating_sub(1)).filter(|i| gap(&lx[*i], &lx[i + 1]) != Glue::Hard).collect();
        let step = if thorough { 1 } else { 3 };
        for (gi, &i) in gaps.iter().enumerate() {
            for (mi, (mname, mtext)) in menu.iter().enumerate() {
                // quick: every gap gets a third of the menu, rotated, so that every member meets every third gap
                if !thorough && (gi + mi) % step != 0 {
                    continue;
                }
                let sp = spell_with(lx, "", "\n", &|j, g| {
                    if j == i {
                        mtext.to_string()
                    } else {
                        match g {
                            Glue::Blank => " ".to_string(),
                            _ => String::new(),
                        }
                    }
                });
                out.push(Variant {
                    doc: d.name.into(),
                    label: format!("gap:{}", mname),
                    site: format!("{:?}·{:?}", lx[i].class, lx[i + 1].class),
                    spelled: sp,
                    valid: true,
                });
            }
        }
        // an OSCAT description block (blanked before lexing) at one gap; and with a further end marker or an empty
        // block at a later gap: only the text inside a block is description, the code after it is highlighted
        {
            let block = " (*@KEY@:DESCRIPTION*) any \u{e9} text\n more (*@KEY@:END_DESCRIPTION*) ";
            for (gi, &i) in gaps.iter().enumerate() {
                let later: Vec<Option<(usize, &str, &str)>> = {
                    let mut l: Vec<Option<(usize, &str, &str)>> = vec![None];
                    for &j in [gaps.get(gi + 1), gaps.last()].iter().flatten() {
                        if *j > i {
                            l.push(Some((*j, "stray-end-marker", " (*@KEY@:END_DESCRIPTION*) ")));
                            l.push(Some((*j, "empty-block", " (*@KEY@:DESCRIPTION*) (*@KEY@:END_DESCRIPTION*) ")));
                        }
                    }
                    l
                };
                for second in later {
                    let sp = spell_with(lx, "", "\n", &|j, g| {
                        if j == i {
                            block.to_string()
                        } else if second.map(|x| x.0) == Some(j) {
                            second.unwrap().2.to_string()
                        } else {
                            match g {
                                Glue::Blank => " ".to_string(),
                                _ => String::new(),
                            }
                        }
                    });
                    out.push(Variant {
                        doc: d.name.into(),
                        label: match second {
                            None => "gap:oscat-block".to_string(),
                            Some((j, n, _)) => format!("gap:oscat-block+{}{}", n, if gaps.get(gi + 1) == Some(&j) { "-at-the-next-gap" } else { "-at-the-last-gap" }),
                        },
                        site: format!("{:?}·{:?}", lx[i].class, lx[i + 1].class),
                        spelled: sp,
                        valid: true,
                    });
                }
            }
        }
        // long lines and many lines (the relative encoding and the line / column counters have a width)
        if d.name == corpus::docs()[0].name {
            for len in [250usize, 255, 256, 257, 65534, 65535, 65536, 65537, 70000] {
                let pad = "x".repeat(len);
                let sp = spell_with(lx, &format!("(* {} *) ", pad), "\n", &|_, g| match g {
                    Glue::Blank => " ".to_string(),
                    _ => String::new(),
                });
                out.push(Variant { doc: d.name.into(), label: "long-first-line".into(), site: format!("{}", len), spelled: sp, valid: true });
                let sp = spell_with(lx, &"\n".repeat(len), "\n", &|_, g| match g {
                    Glue::Blank => " ".to_string(),
                    _ => String::new(),
                });
                out.push(Variant { doc: d.name.into(), label: "many-leading-lines".into(), site: format!("{}", len), spelled: sp, valid: true });
            }
        }
        // leading / trailing trivia
        for (mname, mtext) in &menu {
            let sp = spell_with(lx, mtext, mtext, &|_, g| match g {
                Glue::Blank => " ".to_string(),
                _ => String::new(),
            });
            out.push(Variant { doc: d.name.into(), label: format!("lead-trail:{}", mname), site: String::new(), spelled: sp, valid: true });
        }
        // invalid character at a few positions
        for pos in [0usize, lx.len() / 2, lx.len() - 1] {
            let sp = spell_with(lx, "", "\n", &|j, g| {
                if j == pos.min(lx.len() - 2) {
                    " ? ".to_string()
                } else {
                    match g {
                        Glue::Blank => " ".to_string(),
                        _ => String::new(),
                    }
                }
            });
            out.push(Variant { doc: d.name.into(), label: "invalid-char".into(), site: format!("at-{}", pos), spelled: sp, valid: false });
        }
    }
    out
}

#[derive(Debug, Clone)]
struct Tok {
    line: u64,
    start: u64,
    len: u64,
    ty: u64,
}

fn decode(data: &[u64]) -> Result<Vec<Tok>, String> {
    if data.len() % 5 != 0 {
        return Err(format!("data length {} is not a multiple of 5", data.len()));
    }
    let mut out = vec![];
    let (mut line, mut start) = (0u64, 0u64);
    for c in data.chunks(5) {
        line += c[0];
        start = if c[0] == 0 { start + c[1] } else { c[1] };
        out.push(Tok { line, start, len: c[2], ty: c[3] });
    }
    Ok(out)
}

/// Judges one token response against the lexeme table. Returns (symptom, detail) of the first problem.
fn judge(v: &Variant, result: &Value, legend: &Legend) -> Option<(String, String)> {
    if !v.valid {
        return if result.is_null() {
            None
        } else {
            Some(("non-null-result-for-invalid-text".into(), format!("result {}", crate::util::short(&result.to_string(), 80))))
        };
    }
    if result.is_null() {
        return Some(("null-result-for-valid-text".into(), "result is null".into()));
    }
    let data: Vec<u64> = match result["data"].as_array() {
        Some(a) => a.iter().map(|x| x.as_u64().unwrap_or(u64::MAX)).collect(),
        None => return Some(("result-without-data".into(), result.to_string())),
    };
    let toks = match decode(&data) {
        Ok(t) => t,
        Err(e) => return Some(("bad-data-shape".into(), e)),
    };
    // strictly increasing, non-overlapping
    for w in toks.windows(2) {
        let (a, b) = (&w[0], &w[1]);
        let ok = b.line > a.line || (b.line == a.line && b.start >= a.start + a.len);
        if !ok {
            return Some((
                "ranges-not-increasing".into(),
                format!("token at {}:{} len {} is followed by {}:{} len {}", a.line, a.start, a.len, b.line, b.start, b.len),
            ));
        }
    }
    let items = &v.spelled.items;
    let mut covered = vec![false; items.len()];
    for t in &toks {
        let hit = items.iter().enumerate().find(|(_, p)| p.line as u64 == t.line && p.col_utf16 as u64 == t.start && !matches!(p.class, Class::Ws | Class::Nl));
        let (idx, p) = match hit {
            Some(h) => h,
            None => {
                // continuation line of a multi-line comment reported per line?
                let in_comment = items.iter().any(|p| {
                    p.class == Class::Comment && p.text.contains('\n') && (p.line as u64) < t.line && t.line <= (p.line + p.text.matches('\n').count()) as u64
                });
                if in_comment && legend.name(t.ty) == "comment" {
                    continue;
                }
                return Some((
                    "range-does-not-start-at-a-lexeme".into(),
                    format!("decoded range {}:{} len {} ({}) starts at no lexeme", t.line, t.start, t.len, legend.name(t.ty)),
                ));
            }
        };
        covered[idx] = true;
        // length
        let full = p.len_utf16() as u64;
        let first_line_len = p.text.split(['\n', '\r']).next().unwrap_or("").encode_utf16().count() as u64;
        let len_ok = t.len == full || (p.class == Class::Comment && p.text.contains('\n') && t.len == first_line_len);
        if !len_ok {
            return Some((
                format!("wrong-length/{:?}", p.class),
                format!("lexeme {:?} at {}:{} has {} UTF-16 units, token length is {}", crate::util::short(&p.text, 30), t.line, t.start, full, t.len),
            ));
        }
        let l = legend.name(t.ty);
        let class_ok = match p.class {
            Class::Ident => l == "variable",
            Class::Comment => l == "comment",
            // `=>` and `..` are delimiters rather than operators: either entry is accepted for them
            Class::Op | Class::Addr => l == "operator" || (matches!(p.text.as_str(), "=>" | "..") && l == "keyword"),
            Class::Keyword => matches!(l.as_str(), "keyword" | "modifier" | "string" | "type"),
            Class::LitPart => true, // fragments of literals (T, ms, D …) are not judged
            Class::Number | Class::Str | Class::Punct => false,
            Class::Ws | Class::Nl => false,
        };
        if !class_ok {
            return Some((
                format!("wrong-legend/{:?}->{}", p.class, l),
                format!("lexeme {:?} of class {:?} reported with legend entry '{}'", crate::util::short(&p.text, 30), p.class, l),
            ));
        }
    }
    // completeness for the two classes every implementation highlights: identifiers and comments
    for (i, p) in items.iter().enumerate() {
        if !covered[i] && matches!(p.class, Class::Ident | Class::Comment) {
            return Some((
                format!("lexeme-not-reported/{:?}", p.class),
                format!("{:?} {:?} at {}:{} has no token", p.class, crate::util::short(&p.text, 30), p.line, p.col_utf16),
            ));
        }
    }
    None
}

fn request_tokens(srv: &mut dyn Server, uri: &str, id: i64) -> Result<Value, String> {
    let o = srv.step(&tokens_req(id, uri));
    if o.status != Status::Alive {
        return Err(format!("server {:?} on semanticTokens", o.status));
    }
    let resp: Vec<&Value> = o.msgs.iter().filter(|m| m.get("method").is_none() && m["id"] == json!(id)).collect();
    if resp.len() != 1 {
        return Err(format!("{} responses to the token request", resp.len()));
    }
    if resp[0].get("error").is_some() {
        return Err(format!("error response {}", resp[0]["error"]));
    }
    Ok(resp[0]["result"].clone())
}

fn tokens_for(text: &str) -> Result<Value, String> {
    let mut s = MemSrv::new(None);
    let o = s.step(&did_open(URI, 1, text));
    if o.status != Status::Alive {
        return Err(format!("server {:?} on didOpen", o.status));
    }
    let r = request_tokens(&mut s, URI, 50);
    let _ = Box::new(s).finish();
    r
}

fn key_for(v: &Variant, symptom: &str) -> String {
    // the key is computed from the input class (trivia member, classes around the gap) and the symptom
    let site = if v.label.starts_with("gap:") { format!("/{}", v.site) } else { String::new() };
    format!("{}/{}{}", symptom, v.label, site)
}

pub fn run(ctx: &mut Ctx) {
    let thorough = ctx.tier.thorough();
    let legend = default_legend();
    ctx.rule = "documents = base lexeme programs x (canonical, lines, every trivia menu member at every gap at once, each menu member at each single non-glued gap leading/trailing trivia, an invalid character at 3 positions) + the simplest program of every reference-grammar group in canonical and one-lexeme-per-line spelling (thorough: every program with one deviation, also with each menu member at every gap at once); every document goes through didOpen + semanticTokens/full on the real server; distinct = distinct document text".into();
    ctx.assumptions.push("positions are compared in UTF-16 code units (LSP default position encoding); lines end at LF, CRLF or lone CR; a form feed is not a line terminator".into());
    ctx.assumptions.push("fragments of literals (T, ms, D, unit letters) are not judged; numbers, strings and punctuation must not be reported; identifiers and comments must be reported".into());
    ctx.bounds.insert("trivia_menu".into(), json!(corpus::trivia_menu().iter().map(|m| m.0).collect::<Vec<_>>()));
    ctx.bounds.insert("documents".into(), json!(corpus::docs().iter().map(|d| d.name).collect::<Vec<_>>()));

    // the legend is whatever the server declares in its capabilities: indices are decoded through it, so
    // a server that re-orders or extends its legend consistently is judged by the names only
    let legend = declared_legend().unwrap_or_else(|| {
        ctx.fail("no-legend-declared", "the initialize result declares no semantic token legend", json!({"mode":"legend"}));
        legend.clone()
    });
    ctx.extra.insert("legend_declared_by_the_server".into(), json!(legend.names));

    let vars = variants(thorough);
    // base documents must be valid programs (non-vacuity)
    for d in corpus::docs() {
        let (verdict, _) = crate::front::check_texts(&[&spell(&d.lx.v).text]);
        ctx.outcome(&format!("base-doc {} check: {}", d.name, verdict.short()));
    }
    let total = vars.len() as u64;
    let results: Vec<(usize, Result<Value, String>)> = vars.par_iter().enumerate().map(|(i, v)| (i, tokens_for(&v.spelled.text))).collect();
    for (i, r) in results {
        let v = &vars[i];
        ctx.evaluations += 1;
        ctx.transitions += 2;
        ctx.distinct(&v.spelled.text);
        let replay = json!({"mode":"doc","doc":v.doc,"label":v.label,"site":v.site,"valid":v.valid,"text":v.spelled.text});
        match r {
            Err(e) => {
                ctx.outcome("request-failed");
                ctx.fail(&key_for(v, "request-failed"), &e, replay);
            }
            Ok(result) => match judge(v, &result, &legend) {
                None => ctx.outcome(if v.valid { "tokens-match" } else { "null-for-invalid" }),
                Some((sym, detail)) => {
                    ctx.outcome(&sym);
                    ctx.fail(&key_for(v, &sym), &format!("doc {} variant {} {}: {}", v.doc, v.label, v.site, detail), replay);
                }
            },
        }
        if ctx.want_sample(i as u64, total) {
            ctx.sample(json!({"doc": v.doc, "variant": v.label, "site": v.site, "text": crate::util::short(&v.spelled.text, 160)}));
        }
    }
    ctx.states = total;

    // token requests after edit histories: the result depends on the current text only
    let docs: Vec<String> = corpus::docs().iter().map(|d| spell_lines(&d.lx.v).text).collect();
    let bad = format!("{} ?", docs[0]);
    let mut texts: Vec<&str> = docs.iter().map(|s| s.as_str()).collect();
    texts.push(&bad);
    let mut hist_cases = 0u64;
    for (i, t1) in texts.iter().enumerate() {
        for (j, t2) in texts.iter().enumerate() {
            for with_b in [false, true] {
                for via_open in [false, true] {
                    // version numbers are the client's (a re-opened document starts at 1 again)
                    for (v1, v2, vname) in [(1i64, 2i64, "increasing"), (5, 1, "decreasing"), (1, 1, "constant")] {
                        let fresh = tokens_for(t2);
                        let mut s = MemSrv::new(None);
                        if with_b {
                            s.step(&did_open(URI_B, 1, texts[(j + 1) % texts.len()]));
                        }
                        s.step(&did_open(URI, v1, t1));
                        let _ = request_tokens(&mut s, URI, 40);
                        if via_open {
                            s.step(&did_open(URI, v2, t2));
                        } else {
                            s.step(&did_change(URI, v2, &[t2]));
                        }
                        let got = request_tokens(&mut s, URI, 41);
                        let got2 = request_tokens(&mut s, URI, 42);
                        let _ = Box::new(s).finish();
                        hist_cases += 1;
                        ctx.transitions += 5;
                        ctx.distinct(&format!("hist|{}|{}|{}|{}|{}", i, j, with_b, via_open, vname));
                        if got != fresh || got2 != fresh {
                            ctx.fail(
                                &format!("tokens-depend-on-history/{}{}", if via_open { "didOpen-again" } else { "didChange" }, if vname == "increasing" { String::new() } else { format!("/versions-{}", vname) }),
                                &format!("tokens after text{} (version {}) -> text{} (version {}; other doc open: {}) differ from a fresh server's tokens for text{}", i, v1, j, v2, with_b, j),
                                json!({"mode":"history","t1":t1,"t2":t2,"with_b":with_b,"via_open":via_open,"v1":v1,"v2":v2}),
                            );
                        }
                    }
                }
            }
        }
    }
    // every history of three edits (didOpen or didChange x each text) with a token request after every edit, under
    // four version policies: each answer is the answer of a fresh server for the text the document has then
    {
        let policies: [(&str, [i64; 3]); 4] = [("increasing", [1, 2, 3]), ("decreasing", [9, 5, 1]), ("constant", [1, 1, 1]), ("change-then-reopen-at-1", [1, 7, 1])];
        let fresh: Vec<Result<Value, String>> = texts.iter().map(|t| tokens_for(t)).collect();
        let n = texts.len();
        let evs: Vec<(bool, usize)> = (0..n).flat_map(|t| [(true, t), (false, t)]).collect();
        let mut jobs = vec![];
        for a in 0..evs.len() {
            for b in 0..evs.len() {
                for c in 0..evs.len() {
                    for (pi, _) in policies.iter().enumerate() {
                        jobs.push(([a, b, c], pi));
                    }
                }
            }
        }
        let res: Vec<Option<(usize, String)>> = jobs
            .par_iter()
            .map(|(h, pi)| {
                let mut s = MemSrv::new(None);
                let mut bad = None;
                for (k, ei) in h.iter().enumerate() {
                    let (open, t) = evs[*ei];
                    let v = policies[*pi].1[k];
                    if open {
                        s.step(&did_open(URI, v, texts[t]));
                    } else {
                        s.step(&did_change(URI, v, &[texts[t]]));
                    }
                    let got = request_tokens(&mut s, URI, 50 + k as i64);
                    if got != fresh[t] && bad.is_none() {
                        bad = Some((k, format!("after step {} the tokens differ from a fresh server's tokens for text{}", k + 1, t)));
                    }
                }
                let _ = Box::new(s).finish();
                bad
            })
            .collect();
        for ((h, pi), r) in jobs.iter().zip(res.iter()) {
            hist_cases += 1;
            ctx.transitions += 6;
            ctx.distinct(&format!("hist3|{:?}|{}", h, pi));
            if let Some((k, w)) = r {
                let names: Vec<String> = h.iter().map(|e| format!("{}(text{})", if evs[*e].0 { "didOpen" } else { "didChange" }, evs[*e].1)).collect();
                ctx.fail(
                    &format!("tokens-depend-on-history/three-edits/{}/versions-{}", if evs[h[*k]].0 { "didOpen" } else { "didChange" }, policies[*pi].0),
                    &format!("{:?} with versions {:?}: {}", names, policies[*pi].1, w),
                    json!({"mode":"history3","steps": h.iter().enumerate().map(|(k, e)| json!({"open": evs[*e].0, "text": texts[evs[*e].1], "version": policies[*pi].1[k]})).collect::<Vec<_>>()}),
                );
            }
        }
    }
    // special documents: no text at all, no highlighted lexeme, `//` line comments. They are judged against the
    // lexer itself (default options): a null result exactly when the lexer reports a diagnostic; otherwise every
    // decoded range is a token of the lexer's list, and every comment and identifier token is among the ranges.
    {
        let d0 = spell_lines(&corpus::docs()[0].lx.v).text;
        let with_line_comments: String = d0.lines().map(|l| format!("{} // c \u{e9}\n", l)).collect();
        let specials: Vec<(&str, String)> = vec![
            ("empty", String::new()),
            ("line-end-only", "\n".into()),
            ("blanks-only", "   \t ".into()),
            ("semicolon-only", ";".into()),
            ("punctuation-and-numbers-only", "\n ( 1 , 2 ) ;\n".into()),
            ("number-only", "42".into()),
            ("string-only", "'abc'".into()),
            ("comment-only", "(* c *)".into()),
            ("line-comment-only", "// c\n".into()),
            ("line-comment-without-line-end", "// c".into()),
            ("line-comment-after-every-line", with_line_comments),
            ("line-comment-before-program", format!("// header\n{}", d0)),
            ("line-comment-containing-comment-opener", format!("// (* not a comment\n{}", d0)),
        ];
        for (name, text) in specials {
            let (toks, diags) = crate::front::tokenize(&text, "/w/special.st");
            let r = tokens_for(&text);
            hist_cases += 1;
            ctx.transitions += 2;
            ctx.distinct(&format!("special|{}", name));
            let problem: Option<String> = match r {
                Err(e) => Some(format!("request failed: {}", e)),
                Ok(result) => {
                    if !diags.is_empty() {
                        if result.is_null() { None } else { Some("the lexer rejects the text but the result is not null".into()) }
                    } else if result.is_null() {
                        Some("every lexeme of the text is a valid token but the result is null".into())
                    } else {
                        let data: Vec<u64> = result["data"].as_array().map(|a| a.iter().map(|x| x.as_u64().unwrap_or(u64::MAX)).collect()).unwrap_or_default();
                        match decode(&data) {
                            Err(e) => Some(e),
                            Ok(ranges) => {
                                let lex: Vec<(u64, u64, u64, String)> = toks.iter().map(|t| (t.line as u64, t.col as u64, t.text.encode_utf16().count() as u64, format!("{:?}", t.token_type))).collect();
                                let mut p = None;
                                for rg in &ranges {
                                    if !lex.iter().any(|l| l.0 == rg.line && l.1 == rg.start && (l.2 == rg.len || l.3 == "Comment")) {
                                        p = Some(format!("the range line {} start {} length {} is no token of the text", rg.line, rg.start, rg.len));
                                        break;
                                    }
                                }
                                if p.is_none() {
                                    for l in lex.iter().filter(|l| l.3 == "Comment" || l.3 == "Identifier") {
                                        if !ranges.iter().any(|rg| rg.line == l.0 && rg.start == l.1) {
                                            p = Some(format!("the {} token at line {} column {} is not reported", l.3, l.0, l.1));
                                            break;
                                        }
                                    }
                                }
                                p
                            }
                        }
                    }
                }
            };
            if let Some(pb) = problem {
                ctx.fail(&format!("special-document/{}", name), &format!("{:?}: {}", crate::util::short(&text, 60), pb), json!({"mode":"special","name":name,"text":text}));
            }
        }
    }
    // a notification that is no edit, between the edit and the request: the tokens are those of the text
    for (i, t1) in texts.iter().enumerate() {
        for (nname, msg) in crate::lspx::neutral_notifications(URI, URI_B) {
            let fresh = tokens_for(t1);
            let mut s = MemSrv::new(None);
            s.step(&did_open(URI, 1, t1));
            s.step(&msg);
            let got = request_tokens(&mut s, URI, 43);
            let _ = Box::new(s).finish();
            hist_cases += 1;
            ctx.transitions += 3;
            ctx.distinct(&format!("hist-notif|{}|{}", i, nname));
            if got != fresh {
                ctx.fail(
                    &format!("tokens-depend-on-history/after-{}", nname.split('(').next().unwrap_or(nname)),
                    &format!("tokens of text{} after the notification {} differ from a fresh server's tokens for the same text", i, nname),
                    json!({"mode":"history-notification","t1":t1,"notification":msg}),
                );
            }
        }
    }
    ctx.evaluations += hist_cases;
    ctx.extra.insert("history_cases".into(), json!(hist_cases));
    // comment ranges come from the lexer's idea of where a comment ends: exhaustive differential sweep
    crate::lexseg::run_into(ctx, if thorough { 7 } else { 6 });
    // what the preprocessor blanks is no lexeme, what it leaves is: description blocks against a reference blanking
    crate::oscat::run_into(ctx, if thorough { 7 } else { 6 });

    // stdio conformance: a systematic subset of the documents through the real binary
    let stride = if thorough { 97 } else { 7 };
    let subset: Vec<&Variant> = vars.iter().enumerate().filter(|(i, _)| i % stride == 0).map(|(_, v)| v).collect();
    let conf: Vec<Option<String>> = subset
        .par_iter()
        .map(|v| {
            let mem = tokens_for(&v.spelled.text);
            let bin = (|| {
                let mut b = StdioSrv::new()?;
                let o = b.step(&did_open(URI, 1, &v.spelled.text));
                if o.status != Status::Alive {
                    return Err(format!("binary {:?} on didOpen", o.status));
                }
                let r = request_tokens(&mut b, URI, 50);
                let _ = Box::new(b).finish();
                r
            })();
            if mem == bin {
                None
            } else {
                Some(format!("in-process {:?} vs binary {:?}", mem.map(|v| crate::util::short(&v.to_string(), 80)), bin.map(|v| crate::util::short(&v.to_string(), 80))))
            }
        })
        .collect();
    let mut replays: u64 = 0;
    for (k, c) in conf.into_iter().enumerate() {
        replays += 1;
        if let Some(m) = c {
            let v = subset[k];
            ctx.fail(&key_for(v, "binary-differs-from-in-process"), &m, json!({"mode":"doc","doc":v.doc,"label":v.label,"site":v.site,"valid":v.valid,"text":v.spelled.text}));
        }
    }
    // a client with a workspace folder: the real binary initialised with a folder that holds (or not) a copy of the
    // document with the same or another text; the tokens are those of the text the client sent, not of the disk
    {
        let scratch = crate::util::Scratch::new("c15ws");
        let docs = corpus::docs();
        let buffers: Vec<String> = docs.iter().map(|d| spell(&d.lx.v).text).collect();
        let disk_kinds = ["no-copy-on-disk", "same-text-on-disk", "another-program-on-disk", "text-that-is-no-program-on-disk", "the-first-half-on-disk", "commented-copy-on-disk"];
        let firsts = ["didOpen", "didChange-without-open", "didOpen-then-didChange-to-another-text"];
        let mut jobs = vec![];
        for b in 0..buffers.len() {
            for dk in 0..disk_kinds.len() {
                for f in 0..firsts.len() {
                    for others in [false, true] {
                        jobs.push((b, dk, f, others));
                    }
                }
            }
        }
        let res: Vec<Option<String>> = jobs
            .par_iter()
            .enumerate()
            .map(|(n, (b, dk, f, others))| {
                let dir = scratch.sub(&format!("w{}", n));
                let text = &buffers[*b];
                let disk: Option<String> = match *dk {
                    0 => None,
                    1 => Some(text.clone()),
                    2 => Some("PROGRAM p\nEND_PROGRAM\n".to_string()),
                    3 => Some("? ? ?".to_string()),
                    4 => Some(text[..text.len() / 2].to_string()),
                    _ => Some(format!("(* draft *) {}", text)),
                };
                if let Some(d) = &disk {
                    std::fs::write(dir.join("doc.st"), d).unwrap();
                }
                if *others {
                    std::fs::write(dir.join("other.st"), "FUNCTION_BLOCK Unrelated VAR n : INT ; END_VAR n := 1 ; END_FUNCTION_BLOCK\n").unwrap();
                    std::fs::write(dir.join("zz.st"), "?").unwrap();
                }
                let uri = format!("file://{}", dir.join("doc.st").to_string_lossy());
                let params = json!({"capabilities":{}, "workspaceFolders":[{"uri": format!("file://{}", dir.to_string_lossy()), "name":"w"}]});
                let mut srv = match StdioSrv::with_init(&[], &params) {
                    Ok(s) => s,
                    Err(e) => return Some(format!("machinery: {}", e)),
                };
                let other_text = &buffers[(*b + 1) % buffers.len()];
                let (msgs, current): (Vec<Value>, &String) = match *f {
                    0 => (vec![did_open(&uri, 1, text)], text),
                    1 => (vec![did_change(&uri, 1, &[text.as_str()])], text),
                    _ => (vec![did_open(&uri, 1, text), did_change(&uri, 2, &[other_text.as_str()])], other_text),
                };
                for m in &msgs {
                    let o = srv.step(m);
                    if o.status != Status::Alive {
                        return Some(format!("server {:?}", o.status));
                    }
                }
                let got = request_tokens(&mut srv, &uri, 50);
                let _ = Box::new(srv).finish();
                let want = tokens_for(current);
                if got == want {
                    None
                } else {
                    Some(format!("tokens {:?}, the tokens of the text the client sent are {:?}", got.map(|v| crate::util::short(&v.to_string(), 80)), want.map(|v| crate::util::short(&v.to_string(), 80))))
                }
            })
            .collect();
        for ((b, dk, f, others), r) in jobs.iter().zip(res.iter()) {
            replays += 1;
            ctx.evaluations += 1;
            ctx.distinct(&format!("workspace|{}|{}|{}|{}", b, dk, f, others));
            if let Some(m) = r {
                ctx.fail(&format!("workspace/tokens-are-not-those-of-the-document/{}/{}", disk_kinds[*dk], firsts[*f]), &format!("document {}, {}, {}{}: {}", docs[*b].name, disk_kinds[*dk], firsts[*f], if *others { ", other files in the folder" } else { "" }, m), json!({"mode":"workspace","doc":docs[*b].name,"disk":disk_kinds[*dk],"first":firsts[*f],"others":others}));
            }
        }
        ctx.bounds.insert("workspaces".into(), json!(format!("{} documents x {:?} x {:?} x {{alone, beside other files}} on the real binary", buffers.len(), disk_kinds, firsts)));
    }
    ctx.traces = replays;
    ctx.extra.insert("stdio_replays".into(), json!(replays));
}

pub fn replay(case: &Value) -> Result<String, String> {
    let legend = declared_legend().unwrap_or_else(default_legend);
    match case["mode"].as_str() {
        Some("doc") => {
            let text = case["text"].as_str().ok_or("text")?;
            // rebuild the placed table from the text: re-derive by looking the variant up
            let vars = variants(true);
            let v = vars.iter().find(|v| v.spelled.text == text).ok_or("document is not in the enumerated space any more")?;
            let r = tokens_for(text)?;
            match judge(v, &r, &legend) {
                None => Ok("tokens match the lexeme table".into()),
                Some((s, d)) => Err(format!("{} :: {}", key_for(v, &s), d)),
            }
        }
        Some("history-notification") => {
            let t1 = case["t1"].as_str().ok_or("t1")?;
            let fresh = tokens_for(t1);
            let mut s = MemSrv::new(None);
            s.step(&did_open(URI, 1, t1));
            s.step(&case["notification"]);
            let got = request_tokens(&mut s, URI, 43);
            if got == fresh {
                Ok("tokens depend on the current text only".into())
            } else {
                Err("tokens after the notification differ from a fresh server's".into())
            }
        }
        Some("lexical-structure") => crate::lexseg::replay(case["text"].as_str().ok_or("text")?),
        Some("description-blocks") => crate::oscat::replay(case["text"].as_str().ok_or("text")?),
        Some("history") => {
            let (t1, t2) = (case["t1"].as_str().ok_or("t1")?, case["t2"].as_str().ok_or("t2")?);
            let fresh = tokens_for(t2);
            let mut s = MemSrv::new(None);
            if case["with_b"] == json!(true) {
                s.step(&did_open(URI_B, 1, t1));
            }
            let (v1, v2) = (case["v1"].as_i64().unwrap_or(1), case["v2"].as_i64().unwrap_or(2));
            s.step(&did_open(URI, v1, t1));
            let _ = request_tokens(&mut s, URI, 40);
            if case["via_open"] == json!(true) {
                s.step(&did_open(URI, v2, t2));
            } else {
                s.step(&did_change(URI, v2, &[t2]));
            }
            let got = request_tokens(&mut s, URI, 41);
            if got == fresh {
                Ok("tokens depend on the current text only".into())
            } else {
                Err("tokens after the history differ from a fresh server's".into())
            }
        }
        Some("history3") => {
            let mut s = MemSrv::new(None);
            for (k, st) in case["steps"].as_array().ok_or("steps")?.iter().enumerate() {
                let (t, v) = (st["text"].as_str().ok_or("text")?, st["version"].as_i64().unwrap_or(1));
                if st["open"] == json!(true) {
                    s.step(&did_open(URI, v, t));
                } else {
                    s.step(&did_change(URI, v, &[t]));
                }
                if request_tokens(&mut s, URI, 50 + k as i64) != tokens_for(t) {
                    return Err(format!("after step {} the tokens differ from a fresh server's", k + 1));
                }
            }
            Ok("after every edit the tokens are those of the current text".into())
        }
        _ => Err("unknown replay mode".into()),
    }
}
