//! C14 — file encoding is transparent: the result depends only on the decoded text.
//!
//! (1) programs with non-ASCII text x 5 encodings through the real binary: verdict, codes, positions equal;
//! (2) every byte value 0x00-0xFF x 4 contexts (exhaustive) through the binary and in-process;
//! (3) all 1-byte files (thorough: all 65,536 2-byte files) in-process, BOM-prefixed ones through the binary.

use crate::cli;
use crate::report::Ctx;
use crate::util::{catch, Scratch};
use ironplc_dsl::core::FileId;
use ironplcc::project::{FileBackedProject, Project};
use rayon::prelude::*;
use serde_json::{json, Value};
use std::collections::BTreeSet;
use std::path::Path;
use std::time::Duration;

const ENCODINGS: [&str; 5] = ["utf8", "utf8-bom", "utf16le-bom", "utf16be-bom", "windows-1252"];

fn cp1252_byte(c: char) -> Option<u8> {
    let u = c as u32;
    match c {
        '\u{20ac}' => Some(0x80),
        '\u{2122}' => Some(0x99),
        '\u{201c}' => Some(0x93),
        '\u{201d}' => Some(0x94),
        _ if u < 0x80 => Some(u as u8),
        _ if (0xA0..=0xFF).contains(&u) => Some(u as u8),
        _ => None,
    }
}

fn encode(text: &str, enc: &str) -> Vec<u8> {
    match enc {
        "utf8" => text.as_bytes().to_vec(),
        "utf8-bom" => {
            let mut b = vec![0xEF, 0xBB, 0xBF];
            b.extend_from_slice(text.as_bytes());
            b
        }
        "utf16le-bom" => {
            let mut b = vec![0xFF, 0xFE];
            for u in text.encode_utf16() {
                b.extend_from_slice(&u.to_le_bytes());
            }
            b
        }
        "utf16be-bom" => {
            let mut b = vec![0xFE, 0xFF];
            for u in text.encode_utf16() {
                b.extend_from_slice(&u.to_be_bytes());
            }
            b
        }
        "windows-1252" => text.chars().map(|c| cp1252_byte(c).expect("character is in Windows-1252")).collect(),
        _ => unreachable!(),
    }
}

fn programs() -> Vec<(&'static str, String)> {
    let head = "(* Z\u{e4}hler f\u{fc}r St\u{fc}ck \u{20ac} \u{2122} *)\nFUNCTION_BLOCK Fb\nVAR\n  s : STRING := '\u{e4}\u{f6}\u{fc}\u{df}\u{20ac}';\n  w : WSTRING := \"\u{e9}\u{20ac}\";\n  a : INT;\nEND_VAR\n";
    let tail = "END_FUNCTION_BLOCK\n";
    let body = |b: &str| format!("{}{}{}", head, b, tail);
    vec![
        ("valid", body("  a := 1; (* \u{fc} *)\n")),
        ("valid-comment-before-statement", body("  (* \u{e9}\u{20ac} *) a := 1;\n")),
        ("valid-non-ascii-before-character-code", body("  s := 'Preis 25\u{20ac}$0D$0A'; a := 1;\n")),
        ("valid-non-ascii-directly-before-escapes", body("  s := '\u{e9}$0D\u{e4}$N\u{20ac}$$'; w := \"\u{20ac}$00E9\u{e9}$L\u{e9}$\"\"; a := 1;\n")),
        ("valid-escapes-before-non-ascii", body("  s := '$0A\u{e4}$'\u{20ac}$T\u{fc}'; w := \"$00DF\u{df}\"; a := 1;\n")),
        ("semantic-fault-same-line-after-comment", body("  (* \u{e9} *) a := 1; (* \u{fc}\u{20ac} *) b := 2;\n")),
        ("semantic-fault-same-line-after-string", body("  s := '\u{e9}\u{20ac}\u{2122}'; b := 2;\n")),
        ("semantic-fault-later-line", body("  (* \u{e9} *) a := 1; (* \u{fc}\u{20ac} *)\n  a := 2;\n  b := 2;\n")),
        ("syntax-fault-same-line-after-comment", body("  (* \u{e9}\u{20ac} *) a := ;\n")),
        ("syntax-fault-same-line-after-string", body("  s := '\u{e4}\u{20ac}'; a := ;\n")),
        ("syntax-fault-later-line", body("  s := '\u{e4}\u{20ac}';\n  a := ;\n")),
        ("lexical-fault-same-line-after-comment", body("  (* \u{e9}\u{20ac} *) ? a := 1;\n")),
        ("lexical-fault-later-line", body("  (* \u{e9}\u{20ac} *) a := 1;\n  ?\n")),
        ("declaration-fault-after-non-ascii", format!("(* \u{e9} *) TYPE (* \u{fc}\u{20ac} *) L : (A, A); END_TYPE\n")),
        ("two-faults-two-lines", body("  (* \u{e9} *) b := 1;\n  (* \u{20ac}\u{20ac} *) c := 2;\n")),
    ]
}

#[derive(Debug, Clone, PartialEq, Eq)]
struct Outcome {
    ok: bool,
    crashed: bool,
    /// (code, line, col) sorted
    diags: Vec<(String, u64, u64)>,
}

fn outcome(r: &cli::CliRun) -> Outcome {
    let mut diags: Vec<(String, u64, u64)> = r
        .diags
        .iter()
        .map(|d| match &d.at {
            Some((_, l, c)) => (d.code.clone(), *l, *c),
            None => (d.code.clone(), 0, 0),
        })
        .collect();
    diags.sort();
    Outcome { ok: r.exit == Some(0) && r.has_ok_line, crashed: r.crashed(), diags }
}

/// In-process: load the file the way the CLI does, run semantic() and tokenize(), and check that
/// every label lies inside the decoded text on character boundaries.
fn in_process(path: &Path) -> Result<(String, usize), String> {
    let fid = FileId::from_path(path);
    let r = catch(|| {
        let mut p = FileBackedProject::new();
        if let Err(d) = p.push(fid.clone()) {
            return Ok((format!("unreadable:{}", d.code), 0usize));
        }
        let text = p.get(&fid).map(|s| s.as_string().to_string()).unwrap_or_default();
        let mut labels = vec![];
        if let Err(ds) = p.semantic() {
            for d in ds {
                labels.push((d.code.clone(), d.primary.clone()));
                for s in &d.secondary {
                    labels.push((d.code.clone(), s.clone()));
                }
            }
        }
        let (_toks, tds) = p.tokenize(&fid);
        for d in tds {
            labels.push((d.code.clone(), d.primary.clone()));
        }
        let n = labels.len();
        for (code, l) in labels {
            if l.file_id != fid {
                continue; // file-less labels are a C05/C13 matter
            }
            let (s, e) = (l.location.start, l.location.end);
            if !(s <= e && e <= text.len()) {
                return Err(format!("label of {} is {}..{} but the decoded text has {} bytes", code, s, e, text.len()));
            }
            if !text.is_char_boundary(s) || !text.is_char_boundary(e) {
                return Err(format!("label of {} ({}..{}) is not on character boundaries of the decoded text", code, s, e));
            }
        }
        Ok((if n == 0 { "ok".to_string() } else { "diagnosed".to_string() }, n))
    });
    match r {
        Ok(v) => v,
        Err(p) => Err(format!("panic at {}: {}", p.loc, crate::util::short(&p.msg, 80))),
    }
}


/// (4) text of the size sweep: a comment of `pad` ASCII letters ending in one non-ASCII character,
/// followed on the same line by a statement with an undeclared variable.
fn sweep_text(ch: char, pad: usize) -> String {
    sweep_text_in(ch, pad, 0)
}

/// Contexts of the size sweep: 0 = a closed comment followed by a fault (the position of the fault is
/// known); 1 = a comment that is never closed; 2 = a string that is never closed; 3 = the character
/// directly after an identifier of `pad` letters (text that is not a token). In 1-3 the lexer reports
/// the unmatched text; the verdict must be the same in every encoding and nothing may crash.
pub const SWEEP_CONTEXTS: [&str; 4] = ["closed-comment", "unterminated-comment", "unterminated-string", "after-identifier"];
fn sweep_text_in(ch: char, pad: usize, context: usize) -> String {
    let x = "x".repeat(pad);
    match context {
        1 => format!("FUNCTION_BLOCK Fb\nVAR a : INT; END_VAR\n(* {}{} b := 1;\nEND_FUNCTION_BLOCK\n", x, ch),
        2 => format!("FUNCTION_BLOCK Fb\nVAR s : STRING; END_VAR\ns := '{}{} ;\nEND_FUNCTION_BLOCK\n", x, ch),
        3 => format!("FUNCTION_BLOCK Fb\nVAR a : INT; END_VAR\na := y{}{} ;\nEND_FUNCTION_BLOCK\n", x, ch),
        _ => format!("FUNCTION_BLOCK Fb\nVAR a : INT; END_VAR\n(* {}{} *) b := 1;\nEND_FUNCTION_BLOCK\n", x, ch),
    }
}

/// In-process observation of one stored file: (verdict, [(code, line, column in characters)]).
fn observe_file(path: &Path) -> Result<(bool, Vec<(String, usize, usize)>), String> {
    let fid = FileId::from_path(path);
    let r = catch(|| {
        let mut p = FileBackedProject::new();
        if let Err(d) = p.push(fid.clone()) {
            return (false, vec![(format!("unreadable:{}", d.code), 0usize, 0usize)]);
        }
        let text = p.get(&fid).map(|s| s.as_string().to_string()).unwrap_or_default();
        let (_tokens, token_diags) = p.tokenize(&fid);
        if p.semantic().is_ok() != token_diags.is_empty() && p.semantic().is_ok() {
            return (false, vec![("tokenize-reports-errors-but-check-is-ok".to_string(), 0, 0)]);
        }
        match p.semantic() {
            Ok(()) => (true, vec![]),
            Err(ds) => {
                let mut v: Vec<(String, usize, usize)> = ds
                    .iter()
                    .map(|d| {
                        let s = d.primary.location.start.min(text.len());
                        let s = (0..=s).rev().find(|i| text.is_char_boundary(*i)).unwrap_or(0);
                        let before = &text[..s];
                        let line = before.matches('\n').count() + 1;
                        let col = before.rsplit('\n').next().unwrap_or("").chars().count() + 1;
                        (d.code.clone(), line, col)
                    })
                    .collect();
                v.sort();
                (false, v)
            }
        }
    });
    r.map_err(|p| format!("panic at {}: {}", p.loc, crate::util::short(&p.msg, 80)))
}

/// Byte offset at which the non-ASCII character of `sweep_text(ch, pad)` starts in encoding `enc`, and its width there.
fn sweep_offset(ch: char, pad: usize, enc: &str) -> (usize, usize) {
    let chars_before = "FUNCTION_BLOCK Fb\nVAR a : INT; END_VAR\n(* ".len() + pad;
    match enc {
        "utf8" => (chars_before, ch.len_utf8()),
        "utf8-bom" => (3 + chars_before, ch.len_utf8()),
        "utf16le-bom" | "utf16be-bom" => (2 + 2 * chars_before, 2 * ch.len_utf16()),
        _ => (chars_before, 1),
    }
}

fn contexts(byte: u8) -> Vec<(&'static str, Vec<u8>)> {
    let mk = |pre: &str, post: &str| {
        let mut v = pre.as_bytes().to_vec();
        v.push(byte);
        v.extend_from_slice(post.as_bytes());
        v
    };
    let head = "FUNCTION_BLOCK Fb\nVAR\n  a : INT;\n  s : STRING;\nEND_VAR\n";
    vec![
        ("in-comment", mk(&format!("{}  (* x", head), "y *) a := 1;\nEND_FUNCTION_BLOCK\n")),
        ("in-string", mk(&format!("{}  s := 'x", head), "y';\nEND_FUNCTION_BLOCK\n")),
        ("between-tokens", mk(&format!("{}  a :=", head), "1;\nEND_FUNCTION_BLOCK\n")),
        ("in-identifier", mk(&format!("{}  a", head), "b := 1;\nEND_FUNCTION_BLOCK\n")),
        // the byte inside a token that is the offending token of a syntax error (messages quote that token)
        ("in-string-where-none-is-allowed", mk(&format!("{}  a := 1 'x", head), "y';\nEND_FUNCTION_BLOCK\n")),
        ("in-comment-where-none-is-allowed", mk(&format!("{}  a := INT(* x", head), "y *)#5;\nEND_FUNCTION_BLOCK\n")),
        ("in-string-with-invalid-escape", mk(&format!("{}  s := 'x", head), "y$ z';\nEND_FUNCTION_BLOCK\n")),
    ]
}

pub fn run(ctx: &mut Ctx) {
    // quick = the former thorough tier; thorough = a longer size sweep and all 2-byte continuations of every BOM
    let deep = ctx.tier.thorough();
    let thorough = true;
    ctx.rule = "(1) 12 programs with non-ASCII text in comments and strings (valid and with a fault after the non-ASCII text, same line and later line) x 5 encodings through `ironplcc check` (named as a file and found through its directory) and `tokenize`; (2) every byte 0x00-0xFF x 7 contexts (in a comment, a string, between tokens, in an identifier, and in the offending token of a syntax error: a string or comment where none is allowed, a string with an invalid escape) through the binary and in-process; (3) all 1-byte files (and all 2-byte files; thorough: all 2-byte continuations of every BOM) in-process and BOM-prefixed ones through the binary; (4) size sweep: a 2-, 3- or 4-byte character at every offset of a file growing to 4.3 k (thorough 20 k) characters and straddling every power of two from 4 KiB to 64 KiB in each encoding, in-process and a subset through the binary, the character also at the end of a never-closed comment, a never-closed string and directly after an identifier (pad 0..600); distinct = distinct file contents".into();
    ctx.assumptions.push("all non-ASCII characters used in (1) exist in Windows-1252 and their Windows-1252 bytes are not valid UTF-8 (asserted), so the intended decoding is unambiguous".into());
    ctx.assumptions.push("positions are compared as printed by the binary (line:column of the first location block)".into());
    ctx.bounds.insert("encodings".into(), json!(ENCODINGS));
    let scratch = Scratch::new("c14");

    // ---- (1) same program, five encodings
    let progs = programs();
    let mut jobs = vec![];
    for (pi, (name, text)) in progs.iter().enumerate() {
        let cp = encode(text, "windows-1252");
        assert!(std::str::from_utf8(&cp).is_err(), "program {} is ambiguous in Windows-1252", name);
        for enc in ENCODINGS {
            jobs.push((pi, *name, enc, encode(text, enc)));
        }
    }
    let results: Vec<(usize, &str, &str, Outcome, Outcome, String)> = jobs
        .par_iter()
        .enumerate()
        .map(|(n, (pi, name, enc, bytes))| {
            let dir = scratch.sub(&format!("p{}", n));
            let tmp = scratch.sub(&format!("t{}", n));
            let path = dir.join("prog.st");
            std::fs::write(&path, bytes).unwrap();
            let c = cli::run(&["check", path.to_str().unwrap()], &tmp, Duration::from_secs(30));
            let t = cli::run(&["tokenize", path.to_str().unwrap()], &tmp, Duration::from_secs(30));
            // the same file found through its directory (how a file is reached must not matter for its encoding)
            let cd = cli::run(&["check", dir.to_str().unwrap()], &tmp, Duration::from_secs(30));
            let inproc = match in_process(&path) {
                Ok((s, _)) => s,
                Err(e) => format!("ERR {}", e),
            };
            let inproc = if outcome(&cd) != outcome(&c) { format!("ERR `check <directory>` gives {:?} but `check <file>` gives {:?}", outcome(&cd), outcome(&c)) } else { inproc };
            (*pi, *name, *enc, outcome(&c), outcome(&t), inproc)
        })
        .collect();
    for (pi, (name, text)) in progs.iter().enumerate() {
        let rs: Vec<_> = results.iter().filter(|r| r.0 == pi).collect();
        let base = rs.iter().find(|r| r.2 == "utf8").unwrap();
        ctx.outcome(&format!("{}: {}", name, if base.3.ok { "OK".to_string() } else { format!("{:?}", base.3.diags) }));
        for r in &rs {
            ctx.evaluations += 2;
            ctx.transitions += 2;
            ctx.traces += 2;
            ctx.distinct(&format!("{}|{}", name, r.2));
            let replay = json!({"mode":"program","program":name,"encoding":r.2,"text":text});
            if r.3.crashed || r.4.crashed {
                ctx.fail(&format!("crash/{}/{}", r.2, name), &format!("binary crashed on program {} in {}", name, r.2), replay.clone());
            }
            if r.3 != base.3 {
                let what = if r.3.ok != base.3.ok {
                    "verdict"
                } else if r.3.diags.iter().map(|d| &d.0).collect::<Vec<_>>() != base.3.diags.iter().map(|d| &d.0).collect::<Vec<_>>() {
                    "codes"
                } else {
                    "positions"
                };
                ctx.fail(
                    &format!("utf8-vs-{}/check-{}/{}", r.2, what, name),
                    &format!("program {}: `check` in utf8 gives {:?}, in {} gives {:?}", name, base.3, r.2, r.3),
                    replay.clone(),
                );
            }
            if r.4 != base.4 {
                ctx.fail(
                    &format!("utf8-vs-{}/tokenize/{}", r.2, name),
                    &format!("program {}: `tokenize` in utf8 gives {:?}, in {} gives {:?}", name, base.4, r.2, r.4),
                    replay.clone(),
                );
            }
            if r.5.starts_with("ERR `check <directory>`") {
                ctx.fail(&format!("directory-vs-file/{}/{}", r.2, name), &r.5, replay.clone());
            } else if r.5.starts_with("ERR") {
                ctx.fail(&format!("label-outside-decoded-text/{}/{}", r.2, name), &r.5, replay.clone());
            }
        }
        // the faulty programs must really be diagnosed (non-vacuity), with a position on the expected line
        if name.starts_with("valid") && !base.3.ok {
            ctx.fail(&format!("valid-program-rejected/{}", name), &format!("the valid program is reported {:?}", base.3.diags), json!({"mode":"program","program":name,"encoding":"utf8","text":text}));
        }
        if name.contains("fault") && base.3.ok {
            ctx.fail(&format!("planted-fault-not-diagnosed/{}", name), "the faulty program is reported OK", json!({"mode":"program","program":name,"encoding":"utf8","text":text}));
        }
    }
    ctx.sample(json!({"program": progs[2].0, "text": progs[2].1, "encodings": ENCODINGS}));

    // ---- (1c) the same programs with characters that Windows-1252 does not have (CJK, supplementary planes) in
    // the four Unicode encodings, and every program (both sets) as a document of the language server: the text is
    // what was decoded, the published range is the label's place in it counted in UTF-16 units
    {
        let uprogs: Vec<(&'static str, String)> = programs().into_iter().map(|(n, t)| (n, t.replace('\u{20ac}', "\u{1F600}").replace('\u{e9}', "\u{6f22}").replace('\u{fc}', "\u{1D11E}").replace('\u{2122}', "\u{10400}"))).collect();
        let mut jobs = vec![];
        for (pi, (name, text)) in uprogs.iter().enumerate() {
            for enc in ENCODINGS.iter().filter(|e| **e != "windows-1252") {
                jobs.push((pi, *name, *enc, encode(text, enc)));
            }
        }
        let results: Vec<(usize, &str, &str, Outcome, String)> = jobs
            .par_iter()
            .enumerate()
            .map(|(n, (pi, name, enc, bytes))| {
                let dir = scratch.sub(&format!("u{}", n));
                let tmp = scratch.sub(&format!("ut{}", n));
                let path = dir.join("prog.st");
                std::fs::write(&path, bytes).unwrap();
                let c = cli::run(&["check", path.to_str().unwrap()], &tmp, Duration::from_secs(30));
                let inproc = match in_process(&path) {
                    Ok((s, _)) => s,
                    Err(e) => format!("ERR {}", e),
                };
                (*pi, *name, *enc, outcome(&c), inproc)
            })
            .collect();
        for (pi, (name, text)) in uprogs.iter().enumerate() {
            let rs: Vec<_> = results.iter().filter(|r| r.0 == pi).collect();
            let base = rs.iter().find(|r| r.2 == "utf8").unwrap();
            for r in &rs {
                ctx.evaluations += 1;
                ctx.transitions += 1;
                ctx.traces += 1;
                ctx.distinct(&format!("unicode|{}|{}", name, r.2));
                let replay = json!({"mode":"program","program":name,"encoding":r.2,"text":text});
                if r.3.crashed {
                    ctx.fail(&format!("crash/{}/beyond-windows-1252/{}", r.2, name), &format!("binary crashed on program {} (characters beyond Windows-1252) in {}", name, r.2), replay.clone());
                } else if r.3 != base.3 {
                    ctx.fail(&format!("utf8-vs-{}/beyond-windows-1252/{}", r.2, name), &format!("program {}: `check` in utf8 gives {:?}, in {} gives {:?}", name, base.3, r.2, r.3), replay.clone());
                }
                if r.4.starts_with("ERR") {
                    ctx.fail(&format!("label-outside-decoded-text/{}/beyond-windows-1252/{}", r.2, name), &r.4, replay.clone());
                }
            }
            if name.starts_with("valid") && !base.3.ok {
                ctx.fail(&format!("valid-program-rejected/beyond-windows-1252/{}", name), &format!("the valid program is reported {:?}", base.3.diags), json!({"mode":"program","program":name,"encoding":"utf8","text":text}));
            }
        }
        let all: Vec<(String, &String)> = progs.iter().map(|(n, t)| (format!("windows-1252-characters/{}", n), t)).chain(uprogs.iter().map(|(n, t)| (format!("beyond-windows-1252/{}", n), t))).collect();
        let res: Vec<Vec<(String, String)>> = all
            .par_iter()
            .map(|(_, text)| {
                let mut out = vec![];
                // as it is, behind a byte-order mark that was not taken off, and with CRLF line ends
                for (vname, t) in [("as-decoded", (*text).clone()), ("crlf", text.replace('\n', "\r\n"))] {
                    for (k, w) in crate::checks::c02::lsp_range_core(&[("file:///w/a.st".to_string(), "/w/a.st".to_string(), t.clone())], None) {
                        out.push((format!("{}/{}", k, vname), w));
                    }
                }
                out
            })
            .collect();
        for ((name, text), probs) in all.iter().zip(res.iter()) {
            ctx.evaluations += 2;
            ctx.transitions += 2;
            for (k, w) in probs {
                ctx.fail(&format!("language-server-range/{}/{}", k, name), &format!("program {} as a document: {}", name, w), json!({"mode":"lsp-document","text": text}));
            }
        }
        ctx.bounds.insert("programs_beyond_windows_1252".into(), json!(uprogs.len()));
    }

    // ---- (1b) two files in one invocation, each in every encoding, both argument orders: the
    // diagnostics of a file must be what a single-file run of the same decoded text reports
    // (the decoding of one file must not depend on what was read before it)
    let companion = "(* Z\u{e4}hler \u{20ac} *)\nFUNCTION_BLOCK Companion\nVAR\n  t : STRING := '\u{fc}\u{df}';\n  n : INT;\nEND_VAR\n  n := 1; (* \u{e9} *)\nEND_FUNCTION_BLOCK\n";
    let subject = &progs.iter().find(|p| p.0 == "semantic-fault-same-line-after-comment").unwrap().1;
    let single = {
        let dir = scratch.sub("pair-single");
        let tmp = scratch.sub("pair-single-t");
        let path = dir.join("subject.st");
        std::fs::write(&path, encode(subject, "utf8")).unwrap();
        outcome(&cli::run(&["check", path.to_str().unwrap()], &tmp, Duration::from_secs(30)))
    };
    let mut pair_jobs = vec![];
    for e1 in ENCODINGS {
        for e2 in ENCODINGS {
            for subject_first in [true, false] {
                pair_jobs.push((e1, e2, subject_first));
            }
        }
    }
    let pair_results: Vec<(&str, &str, bool, cli::CliRun)> = pair_jobs
        .par_iter()
        .enumerate()
        .map(|(n, (e1, e2, subject_first))| {
            let dir = scratch.sub(&format!("pair{}", n));
            let tmp = scratch.sub(&format!("pairt{}", n));
            let a = dir.join("companion.st");
            let b = dir.join("subject.st");
            std::fs::write(&a, encode(companion, e1)).unwrap();
            std::fs::write(&b, encode(subject, e2)).unwrap();
            let args: Vec<&str> = if *subject_first { vec!["check", b.to_str().unwrap(), a.to_str().unwrap()] } else { vec!["check", a.to_str().unwrap(), b.to_str().unwrap()] };
            (*e1, *e2, *subject_first, cli::run(&args, &tmp, Duration::from_secs(30)))
        })
        .collect();
    for (e1, e2, subject_first, run) in &pair_results {
        ctx.evaluations += 1;
        ctx.transitions += 1;
        ctx.traces += 1;
        ctx.distinct(&format!("pair|{}|{}|{}", e1, e2, subject_first));
        let mut diags: Vec<(String, u64, u64)> = run
            .diags
            .iter()
            .filter_map(|d| d.at.as_ref().filter(|a| a.0.ends_with("/subject.st")).map(|a| (d.code.clone(), a.1, a.2)))
            .collect();
        diags.sort();
        if run.crashed() || diags != single.diags {
            ctx.fail(
                &format!("two-files/companion={}/subject={}/{}", e1, e2, if *subject_first { "subject-first" } else { "companion-first" }),
                &format!("`check` of two files (companion in {}, subject in {}, {}): the subject's diagnostics are {:?}, alone they are {:?}", e1, e2, if *subject_first { "subject first" } else { "companion first" }, diags, single.diags),
                json!({"mode":"pair","companion_encoding":e1,"subject_encoding":e2,"subject_first":subject_first}),
            );
        }
    }
    // the same in-process: one project loading both files (state kept between files of one process)
    for e1 in ENCODINGS {
        for e2 in ENCODINGS {
            for subject_first in [true, false] {
                let dir = scratch.sub(&format!("ipair-{}-{}-{}", e1, e2, subject_first));
                let a = dir.join("companion.st");
                let b = dir.join("subject.st");
                std::fs::write(&a, encode(companion, e1)).unwrap();
                std::fs::write(&b, encode(subject, e2)).unwrap();
                let mut p = FileBackedProject::new();
                let order: Vec<&std::path::PathBuf> = if subject_first { vec![&b, &a] } else { vec![&a, &b] };
                for f in order {
                    let _ = p.push(FileId::from_path(f));
                }
                let got = p.get(&FileId::from_path(&b)).map(|s| s.as_string().to_string());
                ctx.evaluations += 1;
                ctx.transitions += 1;
                if got.as_deref() != Some(subject.as_str()) {
                    ctx.fail(
                        &format!("decoded-text-depends-on-other-files/companion={}/subject={}", e1, e2),
                        &format!("loading the subject in {} {} a companion in {} decodes it to different text than the program", e2, if subject_first { "before" } else { "after" }, e1),
                        json!({"mode":"pair","companion_encoding":e1,"subject_encoding":e2,"subject_first":subject_first}),
                    );
                }
            }
        }
    }

    // ---- (2) every byte value in four contexts
    let mut byte_jobs = vec![];
    for b in 0u16..=255 {
        for (cname, bytes) in contexts(b as u8) {
            byte_jobs.push((b as u8, cname, bytes));
        }
    }
    let byte_results: Vec<(u8, &str, bool, String, String)> = byte_jobs
        .par_iter()
        .enumerate()
        .map(|(n, (b, cname, bytes))| {
            let dir = scratch.sub(&format!("b{}", n));
            let tmp = scratch.sub(&format!("bt{}", n));
            let path = dir.join("byte.st");
            std::fs::write(&path, bytes).unwrap();
            let c = cli::run(&["check", path.to_str().unwrap()], &tmp, Duration::from_secs(30));
            let t = cli::run(&["tokenize", path.to_str().unwrap()], &tmp, Duration::from_secs(30));
            let consistent = if c.exit == Some(0) { c.has_ok_line && c.diags.is_empty() } else { !c.has_ok_line && !c.diags.is_empty() };
            let crashed = c.crashed() || t.crashed();
            let inproc = match in_process(&path) {
                Ok((s, _)) => s,
                Err(e) => format!("ERR {}", e),
            };
            (*b, *cname, crashed, if consistent { c.summary() } else { format!("INCONSISTENT {}", c.summary()) }, inproc)
        })
        .collect();
    for (b, cname, crashed, summary, inproc) in &byte_results {
        ctx.evaluations += 2;
        ctx.transitions += 3;
        ctx.traces += 2;
        ctx.distinct(&format!("byte|{}|{}", b, cname));
        let replay = json!({"mode":"byte","byte":b,"context":cname});
        ctx.outcome(&format!("byte {}: {}", cname, if summary.contains("exit=0") { "OK" } else { "diagnosed" }));
        if *crashed {
            ctx.fail(&format!("crash/byte=0x{:02X}/{}", b, cname), &format!("binary crashed: {}", summary), replay.clone());
        }
        if summary.starts_with("INCONSISTENT") {
            ctx.fail(&format!("verdict-without-diagnostics/byte=0x{:02X}/{}", b, cname), summary, replay.clone());
        }
        if inproc.starts_with("ERR") {
            ctx.fail(&format!("label-outside-decoded-text/byte=0x{:02X}/{}", b, cname), inproc, replay.clone());
        }
    }
    ctx.sample(json!({"byte": "0x81", "context": "in-comment", "file": String::from_utf8_lossy(&contexts(0x81)[0].1)}));

    // ---- (2b) every pair of bytes with a non-ASCII first byte inside a program: the text the project holds is the
    // UTF-8 reading when the file is valid UTF-8 and the Windows-1252 reading otherwise (reference decoder: the
    // WHATWG table typed in below), whatever the two bytes happen to spell in any other encoding
    {
        const HIGH: [u32; 32] = [
            0x20AC, 0x81, 0x201A, 0x0192, 0x201E, 0x2026, 0x2020, 0x2021, 0x02C6, 0x2030, 0x0160, 0x2039, 0x0152, 0x8D, 0x017D, 0x8F, 0x90, 0x2018, 0x2019, 0x201C, 0x201D, 0x2022, 0x2013, 0x2014, 0x02DC,
            0x2122, 0x0161, 0x203A, 0x0153, 0x9D, 0x017E, 0x0178,
        ];
        let reference = |bytes: &[u8]| -> String {
            match std::str::from_utf8(bytes) {
                Ok(t) => t.to_string(),
                Err(_) => bytes.iter().map(|b| if (0x80..0xA0).contains(b) { char::from_u32(HIGH[(*b - 0x80) as usize]).unwrap() } else { *b as char }).collect(),
            }
        };
        let dir = scratch.sub("pairs");
        let pairs: Vec<(u8, u8)> = (0x80u16..=0xFF).flat_map(|a| (0u16..=0xFF).map(move |b| (a as u8, b as u8))).collect();
        let res: Vec<Option<String>> = pairs
            .par_iter()
            .map(|(a, b)| {
                let mut bytes = b"PROGRAM P VAR n : INT ; END_VAR (* ".to_vec();
                bytes.push(*a);
                bytes.push(*b);
                bytes.extend_from_slice(b"hler *) m := 1 ; END_PROGRAM\n");
                let path = dir.join(format!("p{:02x}{:02x}.st", a, b));
                std::fs::write(&path, &bytes).unwrap();
                let fid = FileId::from_path(&path);
                let r = catch(|| {
                    let mut p = FileBackedProject::new();
                    match p.push(fid.clone()) {
                        Err(d) => Err(format!("unreadable: {}", d.code)),
                        Ok(_) => Ok(p.get(&fid).map(|s| s.as_string().to_string()).unwrap_or_default()),
                    }
                });
                let _ = std::fs::remove_file(&path);
                let want = reference(&bytes);
                match r {
                    Err(p) => Some(format!("reading the file panicked at {}", p.loc)),
                    Ok(Err(e)) => Some(e),
                    Ok(Ok(got)) if got == want => None,
                    Ok(Ok(got)) => {
                        let at = got.chars().zip(want.chars()).position(|(x, y)| x != y).unwrap_or(0);
                        Some(format!("decoded {:?}, expected {:?}", got.chars().skip(at).take(4).collect::<String>(), want.chars().skip(at).take(4).collect::<String>()))
                    }
                }
            })
            .collect();
        for ((a, b), r) in pairs.iter().zip(res.iter()) {
            ctx.evaluations += 1;
            ctx.transitions += 1;
            if let Some(m) = r {
                let class = if *b < 0x80 { "non-ascii-byte-then-ascii" } else { "two-non-ascii-bytes" };
                ctx.fail(&format!("byte-pair-decoded-wrongly/{}/first-byte-0x{:x}0-0x{:x}f", class, a >> 4, a >> 4), &format!("bytes {:02x} {:02x} inside a comment: {}", a, b, m), json!({"mode":"byte-pair","a":a,"b":b}));
            }
        }
        ctx.outcome_n("byte pairs decoded as the reference decoder does", res.iter().filter(|r| r.is_none()).count() as u64);
        ctx.bounds.insert("byte_pairs".into(), json!("all 32,768 pairs (first byte 0x80-0xFF, second byte 0x00-0xFF) inside a comment of a program, decoded text compared with the reference decoder"));
    }

    // ---- (3) all short files
    let mut short: Vec<Vec<u8>> = (0u16..=255).map(|b| vec![b as u8]).collect();
    short.push(vec![]);
    if thorough {
        for a in 0u16..=255 {
            for b in 0u16..=255 {
                short.push(vec![a as u8, b as u8]);
            }
        }
    } else {
        // quick: all 2-byte files starting with a BOM-relevant byte or a quote/comment opener
        for a in [0xEFu8, 0xFF, 0xFE, b'(', b'\'', b'"', 0xC3, 0x00] {
            for b in 0u16..=255 {
                short.push(vec![a, b as u8]);
            }
        }
    }
    if deep {
        for bom in [vec![0xEFu8, 0xBB, 0xBF], vec![0xFF, 0xFE], vec![0xFE, 0xFF]] {
            for a in 0u16..=255 {
                for b in 0u16..=255 {
                    let mut v = bom.clone();
                    v.push(a as u8);
                    v.push(b as u8);
                    short.push(v);
                }
            }
        }
    }
    for bom in [vec![0xEFu8, 0xBB, 0xBF], vec![0xFF, 0xFE], vec![0xFE, 0xFF]] {
        for b in 0u16..=255 {
            let mut v = bom.clone();
            v.push(b as u8);
            short.push(v.clone());
            v.push(0);
            short.push(v);
        }
        short.push(bom);
    }
    ctx.bounds.insert("short_files".into(), json!(short.len()));
    let short_dir = scratch.sub("short");
    let short_results: Vec<(usize, String)> = short
        .par_iter()
        .enumerate()
        .map(|(n, bytes)| {
            let path = short_dir.join(format!("s{}.st", n));
            std::fs::write(&path, bytes).unwrap();
            let r = match in_process(&path) {
                Ok((s, _)) => s,
                Err(e) => format!("ERR {}", e),
            };
            let _ = std::fs::remove_file(&path);
            (n, r)
        })
        .collect();
    for (n, r) in &short_results {
        ctx.evaluations += 1;
        ctx.transitions += 2;
        ctx.distinct(&format!("short|{:?}", short[*n]));
        ctx.outcome(&format!("short file: {}", if r.starts_with("ERR") { "ERR" } else { r.as_str() }));
        if r.starts_with("ERR") {
            ctx.fail(&format!("short-file/{}", classify_short(&short[*n])), r, json!({"mode":"bytes","bytes":short[*n]}));
        }
    }
    // BOM-prefixed and 1-byte files through the binary
    let bin_subset: Vec<&Vec<u8>> = short.iter().filter(|b| b.len() <= 1 || b.starts_with(&[0xEF, 0xBB, 0xBF]) || b.starts_with(&[0xFF, 0xFE]) || b.starts_with(&[0xFE, 0xFF])).collect();
    let bin_results: Vec<(Vec<u8>, bool, String)> = bin_subset
        .par_iter()
        .enumerate()
        .map(|(n, bytes)| {
            let dir = scratch.sub(&format!("sb{}", n));
            let tmp = scratch.sub(&format!("sbt{}", n));
            let path = dir.join("s.st");
            std::fs::write(&path, bytes).unwrap();
            let c = cli::run(&["check", path.to_str().unwrap()], &tmp, Duration::from_secs(30));
            let t = cli::run(&["tokenize", path.to_str().unwrap()], &tmp, Duration::from_secs(30));
            ((*bytes).clone(), c.crashed() || t.crashed(), c.summary())
        })
        .collect();
    for (bytes, crashed, summary) in &bin_results {
        ctx.evaluations += 2;
        ctx.traces += 2;
        if *crashed {
            ctx.fail(&format!("crash/short-file/{}", classify_short(bytes)), &format!("binary crashed on bytes {:?}: {}", bytes, summary), json!({"mode":"bytes","bytes":bytes}));
        }
    }
    // ---- (4) size sweep: one non-ASCII character at every byte offset of a growing file, and straddling
    // every power-of-two offset up to 64 KiB in every encoding (block-wise reading / sniffing must not show)
    let limit = if deep { 20000 } else { 4300 };
    let chars: [(char, &str); 3] = [('\u{e9}', "two-byte"), ('\u{20ac}', "three-byte"), ('\u{1F600}', "four-byte")];
    let mut sweep: BTreeSet<(usize, usize, usize)> = BTreeSet::new(); // (character index, pad, context)
    for (ci, _) in chars.iter().enumerate() {
        for pad in 0..limit {
            sweep.insert((ci, pad, 0));
        }
        for context in 1..SWEEP_CONTEXTS.len() {
            for pad in 0..(if deep { 2200 } else { 600 }) {
                sweep.insert((ci, pad, context));
            }
        }
    }
    let mut boundaries = vec![];
    let mut bsz = 4096usize;
    while bsz <= 65536 {
        boundaries.push(bsz);
        bsz *= 2;
    }
    for (ci, (ch, _)) in chars.iter().enumerate() {
        for b in &boundaries {
            for enc in ENCODINGS {
                let (off0, w) = sweep_offset(*ch, 0, enc);
                if w < 2 {
                    continue;
                }
                let unit = sweep_offset(*ch, 1, enc).0 - off0;
                // every start offset that makes the character straddle the boundary, plus the aligned neighbours
                for start in (b + 1 - w)..=*b {
                    if start >= off0 && (start - off0) % unit == 0 {
                        sweep.insert((ci, (start - off0) / unit, 0));
                    }
                }
            }
        }
    }
    let sweep: Vec<(usize, usize, usize)> = sweep.into_iter().collect();
    ctx.bounds.insert("size_sweep".into(), json!(format!("{} texts: 3 character widths x every pad 0..{} + characters straddling 4096…65536 in each encoding; each text in every encoding that can hold it", sweep.len(), limit)));
    let sweep_dir = scratch.sub("sweep");
    let sweep_results: Vec<(usize, usize, usize, Vec<(&str, Result<(bool, Vec<(String, usize, usize)>), String>)>)> = sweep
        .par_iter()
        .enumerate()
        .map(|(n, (ci, pad, context))| {
            let ch = chars[*ci].0;
            let text = sweep_text_in(ch, *pad, *context);
            let mut per = vec![];
            for enc in ENCODINGS {
                if enc == "windows-1252" && cp1252_byte(ch).is_none() {
                    continue;
                }
                let path = sweep_dir.join(format!("w{}-{}.st", n, enc));
                std::fs::write(&path, encode(&text, enc)).unwrap();
                per.push((enc, observe_file(&path)));
                let _ = std::fs::remove_file(&path);
            }
            (*ci, *pad, *context, per)
        })
        .collect();
    let expected_col = |pad: usize| 3 + pad + 1 + 3 + 1 + 1; // 1-based column of b after "(* " pad ch " *)" " "
    for (ci, pad, context, per) in &sweep_results {
        let base = &per[0].1;
        let cname = if *context == 0 { String::new() } else { format!("/{}", SWEEP_CONTEXTS[*context]) };
        for (enc, r) in per {
            ctx.evaluations += 1;
            ctx.transitions += 1;
            let replay = json!({"mode":"sweep","character":chars[*ci].0.to_string(),"pad":pad,"encoding":enc,"context":context});
            match r {
                Err(e) => ctx.fail(&format!("size-sweep/crash/{}/{}{}", enc, chars[*ci].1, cname), &format!("pad {}: {}", pad, e), replay),
                Ok(o) => {
                    if Ok(o) != base.as_ref() {
                        let (off, w) = sweep_offset(chars[*ci].0, *pad, enc);
                        ctx.fail(
                            &format!("size-sweep/result-differs-from-utf8/{}/{}{}", enc, chars[*ci].1, cname),
                            &format!("the {} character at byte offset {}..{} of the {} file (pad {}): utf8 gives {:?}, {} gives {:?}", chars[*ci].1, off, off + w, enc, pad, base, enc, o),
                            replay,
                        );
                    } else if *enc == "utf8" && *context != 0 && o.0 {
                        ctx.fail(
                            &format!("size-sweep/unmatched-text-accepted/{}{}", chars[*ci].1, cname),
                            &format!("pad {}: the text is reported OK", pad),
                            replay,
                        );
                    } else if *enc == "utf8" && *context == 0 && *o != (false, vec![("P0015".to_string(), 3, expected_col(*pad))]) {
                        ctx.fail(
                            &format!("size-sweep/unexpected-result/{}", chars[*ci].1),
                            &format!("pad {}: expected P0015 at 3:{}, observed {:?}", pad, expected_col(*pad), o),
                            replay,
                        );
                    }
                }
            }
        }
        ctx.distinct(&format!("sweep|{}|{}|{}", ci, pad, context));
    }
    ctx.outcome_n("size sweep text: same result in every encoding", sweep_results.len() as u64);
    // the straddling texts and a coarse subset of the sweep through the binary
    let bin_sweep: Vec<&(usize, usize, usize)> = sweep.iter().filter(|(_, pad, context)| (*context != 0 && (100..160).contains(pad)) || *context == 0 && (*pad >= limit || (*pad >= 900 && *pad <= 1100 && pad % 7 == 0) || (1022 - 44..=1026 - 40).contains(pad) || (2046 - 44..=2050 - 40).contains(pad))).collect();
    let bin_sweep_results: Vec<(usize, usize, usize, Vec<(&str, Outcome)>)> = bin_sweep
        .par_iter()
        .enumerate()
        .map(|(n, (ci, pad, context))| {
            let ch = chars[*ci].0;
            let text = sweep_text_in(ch, *pad, *context);
            let mut per = vec![];
            for enc in ENCODINGS {
                if enc == "windows-1252" && cp1252_byte(ch).is_none() {
                    continue;
                }
                let dir = scratch.sub(&format!("bsw{}-{}", n, enc));
                let tmp = scratch.sub(&format!("bswt{}-{}", n, enc));
                let path = dir.join("prog.st");
                std::fs::write(&path, encode(&text, enc)).unwrap();
                per.push((enc, outcome(&cli::run(&["check", path.to_str().unwrap()], &tmp, Duration::from_secs(30)))));
                let _ = std::fs::remove_dir_all(&dir);
            }
            (*ci, *pad, *context, per)
        })
        .collect();
    for (ci, pad, context, per) in &bin_sweep_results {
        let base = &per[0].1;
        for (enc, o) in per {
            ctx.evaluations += 1;
            ctx.traces += 1;
            if o != base || o.crashed {
                ctx.fail(
                    &format!("size-sweep/binary-result-differs-from-utf8-or-crash/{}/{}/{}", enc, chars[*ci].1, SWEEP_CONTEXTS[*context]),
                    &format!("pad {}: `check` in utf8 gives {:?}, in {} gives {:?}", pad, base, enc, o),
                    json!({"mode":"sweep","character":chars[*ci].0.to_string(),"pad":pad,"encoding":enc,"context":context}),
                );
            }
        }
    }
    ctx.states = (jobs.len() + byte_jobs.len() + short.len() + sweep.len()) as u64;
}

fn classify_short(b: &[u8]) -> String {
    if b.starts_with(&[0xEF, 0xBB, 0xBF]) {
        "utf8-bom-prefixed".into()
    } else if b.starts_with(&[0xFF, 0xFE]) {
        "utf16le-bom-prefixed".into()
    } else if b.starts_with(&[0xFE, 0xFF]) {
        "utf16be-bom-prefixed".into()
    } else {
        format!("len{}", b.len())
    }
}

pub fn replay(case: &Value) -> Result<String, String> {
    let scratch = Scratch::new("c14r");
    let dir = scratch.sub("d");
    let tmp = scratch.sub("t");
    let path = dir.join("f.st");
    match case["mode"].as_str() {
        Some("lsp-document") => {
            let text = case["text"].as_str().ok_or("text")?;
            let mut probs = vec![];
            for t in [text.to_string(), text.replace('\n', "\r\n")] {
                probs.extend(crate::checks::c02::lsp_range_core(&[("file:///w/a.st".to_string(), "/w/a.st".to_string(), t)], None));
            }
            match probs.first() {
                None => Ok("every published range is the label's place in the document".into()),
                Some((k, w)) => Err(format!("{} :: {}", k, w)),
            }
        }
        Some("program") => {
            let text = case["text"].as_str().ok_or("text")?;
            let enc = case["encoding"].as_str().ok_or("encoding")?;
            std::fs::write(&path, encode(text, "utf8")).unwrap();
            let base = outcome(&cli::run(&["check", path.to_str().unwrap()], &tmp, Duration::from_secs(30)));
            std::fs::write(&path, encode(text, enc)).unwrap();
            let other = outcome(&cli::run(&["check", path.to_str().unwrap()], &tmp, Duration::from_secs(30)));
            in_process(&path)?;
            if base == other && !other.crashed {
                Ok(format!("same result in utf8 and {}: {:?}", enc, base))
            } else {
                Err(format!("utf8 {:?} vs {} {:?}", base, enc, other))
            }
        }
        Some("byte") => {
            let b = case["byte"].as_u64().ok_or("byte")? as u8;
            let cname = case["context"].as_str().ok_or("context")?;
            let bytes = contexts(b).into_iter().find(|c| c.0 == cname).ok_or("context")?.1;
            std::fs::write(&path, bytes).unwrap();
            let c = cli::run(&["check", path.to_str().unwrap()], &tmp, Duration::from_secs(30));
            in_process(&path)?;
            if c.crashed() {
                Err(format!("crashed: {}", c.summary()))
            } else {
                Ok(c.summary())
            }
        }
        Some("bytes") => {
            let bytes: Vec<u8> = case["bytes"].as_array().ok_or("bytes")?.iter().map(|x| x.as_u64().unwrap_or(0) as u8).collect();
            std::fs::write(&path, bytes).unwrap();
            let c = cli::run(&["check", path.to_str().unwrap()], &tmp, Duration::from_secs(30));
            in_process(&path)?;
            if c.crashed() {
                Err(format!("crashed: {}", c.summary()))
            } else {
                Ok(c.summary())
            }
        }
        Some("sweep") => {
            let ch = case["character"].as_str().and_then(|c| c.chars().next()).ok_or("character")?;
            let pad = case["pad"].as_u64().ok_or("pad")? as usize;
            let enc = case["encoding"].as_str().ok_or("encoding")?;
            let text = sweep_text_in(ch, pad, case["context"].as_u64().unwrap_or(0) as usize);
            std::fs::write(&path, encode(&text, "utf8")).unwrap();
            let base = observe_file(&path)?;
            std::fs::write(&path, encode(&text, enc)).unwrap();
            let other = observe_file(&path)?;
            if base == other {
                Ok(format!("same result in utf8 and {}: {:?}", enc, base))
            } else {
                Err(format!("utf8 {:?} vs {} {:?}", base, enc, other))
            }
        }
        _ => Err("unknown replay mode".into()),
    }
}
