//! Known-findings file, violation bookkeeping, evidence writer, exit codes.

use serde_json::{json, Map, Value};
use std::collections::{BTreeMap, BTreeSet, HashSet};
use std::path::PathBuf;
use std::time::Instant;

#[derive(Clone, Copy, PartialEq, Eq, Debug)]
pub enum Tier {
    Quick,
    Thorough,
}

impl Tier {
    pub fn name(&self) -> &'static str {
        match self {
            Tier::Quick => "quick",
            Tier::Thorough => "thorough",
        }
    }
    pub fn thorough(&self) -> bool {
        *self == Tier::Thorough
    }
}

pub fn verif_root() -> PathBuf {
    PathBuf::from(std::env::var("VERIF_ROOT").unwrap_or_else(|_| "/verif".into()))
}

pub struct Ctx {
    pub prop: String,
    pub tier: Tier,
    pub seed: u64,
    start: Instant,
    known: BTreeMap<String, String>,
    hits: BTreeMap<String, (u64, String)>,
    viol: BTreeMap<String, (u64, String, Value)>,
    pub extra: Map<String, Value>,
    samples: Vec<Value>,
    pub assumptions: Vec<String>,
    histogram: BTreeMap<String, u64>,
    pub evaluations: u64,
    pub states: u64,
    pub transitions: u64,
    pub traces: u64,
    distinct: HashSet<u64>,
    pub rule: String,
    pub exhaustive: bool,
    pub bounds: Map<String, Value>,
    pub wall_cap_s: f64,
    capped: Vec<String>,
}

impl Ctx {
    pub fn new(prop: &str, tier: Tier) -> Ctx {
        let seed = std::env::var("VERIF_SEED")
            .ok()
            .and_then(|s| s.parse::<u64>().ok())
            .unwrap_or(0);
        let mut known = BTreeMap::new();
        let path = verif_root().join("KNOWN_FINDINGS.txt");
        if let Ok(text) = std::fs::read_to_string(&path) {
            for line in text.lines() {
                let line = line.trim();
                if !line.starts_with("finding:") {
                    continue; // "fixed:" lines and comments suppress nothing
                }
                let rest = line["finding:".len()..].trim();
                let (head, desc) = match rest.split_once(" :: ") {
                    Some((h, d)) => (h, d.to_string()),
                    None => (rest, String::new()),
                };
                let mut p = None;
                let mut k = None;
                for tok in head.split_whitespace() {
                    if let Some(v) = tok.strip_prefix("property=") {
                        p = Some(v.to_string());
                    } else if let Some(v) = tok.strip_prefix("key=") {
                        k = Some(v.to_string());
                    }
                }
                if let (Some(p), Some(k)) = (p, k) {
                    if p == prop {
                        known.insert(k, desc);
                    }
                }
            }
        }
        let wall_cap_s = std::env::var("VERIF_WALL_CAP_S")
            .ok()
            .and_then(|s| s.parse::<f64>().ok())
            .unwrap_or(match tier {
                Tier::Quick => 100.0,
                Tier::Thorough => 2400.0,
            });
        Ctx {
            prop: prop.to_string(),
            tier,
            seed,
            start: Instant::now(),
            known,
            hits: BTreeMap::new(),
            viol: BTreeMap::new(),
            extra: Map::new(),
            samples: vec![],
            assumptions: vec![],
            histogram: BTreeMap::new(),
            evaluations: 0,
            states: 0,
            transitions: 0,
            traces: 0,
            distinct: HashSet::new(),
            rule: String::new(),
            exhaustive: true,
            bounds: Map::new(),
            wall_cap_s,
            capped: vec![],
        }
    }

    pub fn elapsed(&self) -> f64 {
        self.start.elapsed().as_secs_f64()
    }

    /// True when the wall budget of this tier is used up; records the cap.
    pub fn over_budget(&mut self, what: &str) -> bool {
        if self.elapsed() > self.wall_cap_s {
            self.exhaustive = false;
            self.capped.push(format!(
                "wall cap {}s hit before/while: {}",
                self.wall_cap_s, what
            ));
            true
        } else {
            false
        }
    }

    pub fn is_known(&self, key: &str) -> bool {
        self.known.contains_key(key)
    }

    /// Keys of known findings for this property.
    pub fn known_keys(&self) -> BTreeSet<String> {
        self.known.keys().cloned().collect()
    }

    /// Records a property violation observed on a concrete case.
    pub fn fail(&mut self, key: &str, what: &str, replay: Value) {
        let key = sanitize_key(key);
        if self.known.contains_key(&key) {
            let e = self.hits.entry(key).or_insert((0, what.to_string()));
            e.0 += 1;
        } else {
            let e = self
                .viol
                .entry(key)
                .or_insert((0, what.to_string(), replay));
            e.0 += 1;
        }
    }

    pub fn outcome(&mut self, o: &str) {
        *self.histogram.entry(o.to_string()).or_insert(0) += 1;
    }

    pub fn outcome_n(&mut self, o: &str, n: u64) {
        *self.histogram.entry(o.to_string()).or_insert(0) += n;
    }

    /// Counts a distinct non-trivial case (by stable hash of its canonical form).
    pub fn distinct(&mut self, canon: &str) {
        self.distinct.insert(crate::util::fnv(canon));
    }

    pub fn distinct_hash(&mut self, h: u64) {
        self.distinct.insert(h);
    }

    pub fn sample(&mut self, v: Value) {
        if self.samples.len() < 6 {
            self.samples.push(v);
        }
    }

    /// Keep every k-th case as sample, rotated by the seed.
    pub fn want_sample(&self, index: u64, total_hint: u64) -> bool {
        if self.samples.len() >= 6 {
            return false;
        }
        let step = (total_hint / 5).max(1);
        (index + self.seed) % step == 0
    }

    pub fn violation_count(&self) -> usize {
        self.viol.len()
    }

    /// Writes evidence, prints KNOWN-FINDING / VIOLATION lines, returns the exit code.
    pub fn finish(mut self) -> i32 {
        let root = verif_root();
        let wall = self.elapsed();
        let mut vio_lines = vec![];
        let replay_dir = root.join("replays").join(&self.prop);
        for (key, (n, what, replay)) in &self.viol {
            let _ = std::fs::create_dir_all(&replay_dir);
            let path = replay_dir.join(format!("{}.json", crate::util::hex_hash(key)));
            let body = json!({
                "property": self.prop,
                "key": key,
                "what": what,
                "cases_with_this_key": n,
                "case": replay,
            });
            let _ = std::fs::write(&path, serde_json::to_string_pretty(&body).unwrap());
            vio_lines.push(format!(
                "VIOLATION property={} replay={} key={} cases={} :: {}",
                self.prop,
                path.display(),
                key,
                n,
                crate::util::short(what, 300)
            ));
        }
        for (key, (n, what)) in &self.hits {
            println!(
                "KNOWN-FINDING: property={} key={} cases={} :: {}",
                self.prop,
                key,
                n,
                crate::util::short(what, 200)
            );
        }
        let unseen: Vec<&String> = self
            .known
            .keys()
            .filter(|k| !self.hits.contains_key(*k))
            .collect();
        if !unseen.is_empty() {
            println!(
                "note: {} listed finding(s) not reproduced in this tier: {}",
                unseen.len(),
                unseen
                    .iter()
                    .take(8)
                    .map(|s| s.as_str())
                    .collect::<Vec<_>>()
                    .join(" ")
            );
        }
        let max_lines: usize = std::env::var("VERIF_MAX_LINES").ok().and_then(|s| s.parse().ok()).unwrap_or(60);
        for l in vio_lines.iter().take(max_lines) {
            println!("{}", l);
        }
        if vio_lines.len() > max_lines {
            println!(
                "... and {} more violation keys (all written under {})",
                vio_lines.len() - max_lines,
                replay_dir.display()
            );
        }

        // evidence
        if self.samples.is_empty() {
            self.samples.push(json!("no sample recorded"));
        }
        let mut cov = Map::new();
        cov.insert("states".into(), json!(self.states.max(1)));
        cov.insert("transitions".into(), json!(self.transitions.max(1)));
        cov.insert("traces_validated_against_impl".into(), json!(self.traces));
        cov.insert("evaluations".into(), json!(self.evaluations.max(1)));
        cov.insert("distinct_nontrivial".into(), json!(self.distinct.len()));
        cov.insert("rule".into(), json!(self.rule));
        cov.insert("exhaustive".into(), json!(self.exhaustive));
        cov.insert("bounds".into(), Value::Object(self.bounds.clone()));
        cov.insert("samples".into(), Value::Array(self.samples.clone()));
        cov.insert(
            "outcome_histogram".into(),
            json!(self
                .histogram
                .iter()
                .map(|(k, v)| (k.clone(), json!(v)))
                .collect::<Map<String, Value>>()),
        );
        cov.insert(
            "known_findings_hit".into(),
            json!(self
                .hits
                .iter()
                .map(|(k, v)| (k.clone(), json!(v.0)))
                .collect::<Map<String, Value>>()),
        );
        cov.insert(
            "violation_keys".into(),
            json!(self.viol.keys().take(100).collect::<Vec<_>>()),
        );
        if !self.capped.is_empty() {
            cov.insert("caps_hit".into(), json!(self.capped));
        }
        for (k, v) in self.extra.iter() {
            cov.insert(k.clone(), v.clone());
        }
        let ev = json!({
            "property_id": self.prop,
            "tier": self.tier.name(),
            "seed": self.seed,
            "level": "model_checking",
            "coverage": Value::Object(cov),
            "assumptions": self.assumptions,
            "wall_s": (wall * 1000.0).round() / 1000.0,
            "violations": self.viol.len(),
        });
        let evdir = root.join("evidence");
        let _ = std::fs::create_dir_all(&evdir);
        let evpath = evdir.join(format!("{}.json", self.prop));
        if let Err(e) = std::fs::write(&evpath, serde_json::to_string_pretty(&ev).unwrap()) {
            eprintln!("cannot write evidence {}: {}", evpath.display(), e);
            return 2;
        }
        println!(
            "{} {}: evaluations={} states={} transitions={} distinct={} known-keys-hit={} violations={} exhaustive={} wall={:.1}s",
            self.prop,
            self.tier.name(),
            self.evaluations,
            self.states,
            self.transitions,
            self.distinct.len(),
            self.hits.len(),
            self.viol.len(),
            self.exhaustive,
            wall
        );
        if self.viol.is_empty() {
            0
        } else {
            1
        }
    }
}

/// Keys are single tokens: no whitespace.
pub fn sanitize_key(k: &str) -> String {
    k.chars()
        .map(|c| if c.is_whitespace() { '_' } else { c })
        .collect()
}
